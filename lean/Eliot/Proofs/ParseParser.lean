import Eliot.Proofs.ParseTask
/-! From `Task.add_step` to `Parser.add`, `Parser.feed` and `parseStream`. -/
namespace PM

/-- A specification: tasks with their uuids.  A `.node` is an action task rooted at level `[]`,
a `.leaf b` is a message logged outside any action (one-message task at level `[1]`). -/
abbrev Spec := List (String × Tree)

def tmsgs (u : String) : Tree → List PMsg
  | .leaf b => [leafMsg u [1] b]
  | .node a sb eb ok kids => Tree.msgs u (.node a sb eb ok kids) []

def Spec.msgs (ts : Spec) : List PMsg := ts.flatMap fun e => tmsgs e.1 e.2

def Spec.WF (ts : Spec) : Prop := (ts.map (·.1)).Nodup

def someArrived (S : PMsg → Bool) (u : String) (t : Tree) : Prop := ∃ m ∈ tmsgs u t, S m = true
def allArrived (S : PMsg → Bool) (u : String) (t : Tree) : Prop := ∀ m ∈ tmsgs u t, S m = true

/-- What the parser holds / hands back for spec task `(u,t)` when exactly `S` has arrived. -/
def TaskIs (S : PMsg → Bool) (u : String) : Tree → Task → Prop
  | .leaf b, T => T.root = some (.msg (leafMsg u [1] b)) ∧ ∀ L, T.completed.contains L = (L == [])
  | .node a sb eb ok kids, T => TaskOK S u (.node a sb eb ok kids) T

theorem tmsgs_uuid (u : String) (t : Tree) (m : PMsg) (h : m ∈ tmsgs u t) : m.uuid = u := by
  cases t with
  | leaf b => simp only [tmsgs, List.mem_cons, List.not_mem_nil, or_false] at h; subst h; rfl
  | node a sb eb ok kids => exact (Tree.msgs_shape u _ [] m h).1

theorem Spec.WF.unique {ts : Spec} (h : ts.WF) {u : String} {t t' : Tree}
    (h1 : (u, t) ∈ ts) (h2 : (u, t') ∈ ts) : t = t' := by
  induction ts with
  | nil => cases h1
  | cons e es ih =>
    simp only [Spec.WF, List.map_cons, List.nodup_cons, List.mem_map, not_exists, not_and] at h
    rcases List.mem_cons.mp h1 with h1 | h1 <;> rcases List.mem_cons.mp h2 with h2 | h2
    · rw [← h1] at h2; cases h2; rfl
    · exact absurd (by rw [← h1]) (h.1 (u, t') h2)
    · exact absurd (by rw [← h2]) (h.1 (u, t) h1)
    · exact ih h.2 h1 h2

theorem Spec.mem_msgs {ts : Spec} {m : PMsg} (h : m ∈ ts.msgs) : ∃ u t, (u, t) ∈ ts ∧ m ∈ tmsgs u t := by
  simp only [Spec.msgs, List.mem_flatMap] at h
  obtain ⟨e, he, hm⟩ := h
  exact ⟨e.1, e.2, he, hm⟩

/-! ### congruence in `S` -/
theorem TaskIs.congr {S S' : PMsg → Bool} {u : String} {t : Tree} {T : Task}
    (h : ∀ x ∈ tmsgs u t, S x = S' x) (hT : TaskIs S u t T) : TaskIs S' u t T := by
  cases t with
  | leaf b => exact hT
  | node a sb eb ok kids =>
    refine ⟨?_, ?_⟩
    · rw [hT.root]; exact Tree.view_congr S S' u _ [] h
    · intro L hL; rw [hT.compl L hL]; exact Tree.cmem_congr S S' u _ [] L h

theorem ext_other {S : PMsg → Bool} {m : PMsg} {u : String} {t : Tree} (hu : m.uuid ≠ u) :
    ∀ x ∈ tmsgs u t, S x = ext S m x := by
  intro x hx
  have := tmsgs_uuid u t x hx
  rw [ext_of_ne]; intro h; subst h; exact hu this

theorem someArrived.congr {S S' : PMsg → Bool} {u : String} {t : Tree}
    (h : ∀ x ∈ tmsgs u t, S x = S' x) : someArrived S u t ↔ someArrived S' u t := by
  constructor
  · rintro ⟨m, hm, hs⟩; exact ⟨m, hm, by rw [← h m hm]; exact hs⟩
  · rintro ⟨m, hm, hs⟩; exact ⟨m, hm, by rw [h m hm]; exact hs⟩

theorem allArrived.congr {S S' : PMsg → Bool} {u : String} {t : Tree}
    (h : ∀ x ∈ tmsgs u t, S x = S' x) : allArrived S u t ↔ allArrived S' u t := by
  constructor
  · intro ha m hm; rw [← h m hm]; exact ha m hm
  · intro ha m hm; rw [h m hm]; exact ha m hm

/-! ### nothing arrived ⇒ the empty task -/
mutual
theorem Tree.view_none (S : PMsg → Bool) (u : String) (t : Tree) (lvl : Level)
    (h : ∀ m ∈ Tree.msgs u t lvl, S m = false) : Tree.view S u t lvl = none := by
  cases t with
  | leaf b => simp [Tree.view, pick, h (leafMsg u lvl b) (by simp [Tree.msgs])]
  | node a sb eb ok kids =>
    have hs := h (startMsg u lvl a sb) (by simp [Tree.msgs])
    have he := h (endMsg u lvl a eb ok (kids.len + 2)) (by simp [Tree.msgs])
    have hk := Forest.view_nil S u kids lvl 2 (fun m hm => h m (by simp [Tree.msgs, hm]))
    simp [Tree.view, pick, hs, he, hk, Kids.isNil]
theorem Forest.view_nil (S : PMsg → Bool) (u : String) (f : Forest) (lvl : Level) (k : Nat)
    (h : ∀ m ∈ Forest.msgs u f lvl k, S m = false) : Forest.view S u f lvl k = .nil := by
  cases f with
  | nil => simp [Forest.view]
  | cons t rest =>
    have h1 := Tree.view_none S u t (lvl ++ [k]) (fun m hm => h m (by simp [Forest.msgs, hm]))
    have h2 := Forest.view_nil S u rest lvl (k+1) (fun m hm => h m (by simp [Forest.msgs, hm]))
    simp [Forest.view, h1, h2]
end

mutual
theorem Tree.cmem_false (S : PMsg → Bool) (u : String) (t : Tree) (lvl L : Level)
    (h : ∀ m ∈ Tree.msgs u t lvl, S m = false) : Tree.cmem S u t lvl L = false := by
  cases t with
  | leaf b => simp [Tree.cmem]
  | node a sb eb ok kids =>
    have hs := h (startMsg u lvl a sb) (by simp [Tree.msgs])
    have hk := Forest.cmem_false S u kids lvl 2 L (fun m hm => h m (by simp [Tree.msgs, hm]))
    simp [Tree.cmem, Tree.full, hs, hk]
theorem Forest.cmem_false (S : PMsg → Bool) (u : String) (f : Forest) (lvl : Level) (k : Nat) (L : Level)
    (h : ∀ m ∈ Forest.msgs u f lvl k, S m = false) : Forest.cmem S u f lvl k L = false := by
  cases f with
  | nil => simp [Forest.cmem]
  | cons t rest =>
    have h1 := Tree.cmem_false S u t (lvl ++ [k]) L (fun m hm => h m (by simp [Forest.msgs, hm]))
    have h2 := Forest.cmem_false S u rest lvl (k+1) L (fun m hm => h m (by simp [Forest.msgs, hm]))
    simp [Forest.cmem, h1, h2]
end

theorem TaskOK.empty {S : PMsg → Bool} {u : String} {a : String} {sb eb : Nat} {ok : Bool} {kids : Forest}
    (h : ¬ someArrived S u (.node a sb eb ok kids)) : TaskOK S u (.node a sb eb ok kids) {} := by
  have h' : ∀ m ∈ Tree.msgs u (.node a sb eb ok kids) [], S m = false := by
    intro m hm
    cases hs : S m with
    | false => rfl
    | true => exact absurd ⟨m, hm, hs⟩ h
  exact ⟨(Tree.view_none S u _ [] h').symm, fun L _ => by simp [Tree.cmem_false S u _ [] L h']⟩

/-! ### all arrived ⇔ full -/
mutual
theorem Tree.full_of_all (S : PMsg → Bool) (u : String) (t : Tree) (lvl : Level)
    (h : ∀ m ∈ Tree.msgs u t lvl, S m = true) : Tree.full S u t lvl = true := by
  cases t with
  | leaf b => simp [Tree.full, h (leafMsg u lvl b) (by simp [Tree.msgs])]
  | node a sb eb ok kids =>
    have hs := h (startMsg u lvl a sb) (by simp [Tree.msgs])
    have he := h (endMsg u lvl a eb ok (kids.len + 2)) (by simp [Tree.msgs])
    have hk := Forest.full_of_all S u kids lvl 2 (fun m hm => h m (by simp [Tree.msgs, hm]))
    simp [Tree.full, hs, he, hk]
theorem Forest.full_of_all (S : PMsg → Bool) (u : String) (f : Forest) (lvl : Level) (k : Nat)
    (h : ∀ m ∈ Forest.msgs u f lvl k, S m = true) : Forest.full S u f lvl k = true := by
  cases f with
  | nil => simp [Forest.full]
  | cons t rest =>
    have h1 := Tree.full_of_all S u t (lvl ++ [k]) (fun m hm => h m (by simp [Forest.msgs, hm]))
    have h2 := Forest.full_of_all S u rest lvl (k+1) (fun m hm => h m (by simp [Forest.msgs, hm]))
    simp [Forest.full, h1, h2]
end

theorem full_iff_allArrived (S : PMsg → Bool) (u : String) (a : String) (sb eb : Nat) (ok : Bool) (kids : Forest) :
    Tree.full S u (.node a sb eb ok kids) [] = true ↔ allArrived S u (.node a sb eb ok kids) := by
  constructor
  · intro hf m hm
    cases hs : S m with
    | true => rfl
    | false => rw [Tree.not_full_of_missing S u _ [] m hm hs] at hf; cases hf
  · intro h; exact Tree.full_of_all S u _ [] h

/-- `Task.is_complete()` of the task held for `(u,t)` says exactly "every message has arrived". -/
theorem TaskIs.isComplete_iff {S : PMsg → Bool} {u : String} {t : Tree} {T : Task}
    (hT : TaskIs S u t T) (hsome : someArrived S u t) : T.isComplete = true ↔ allArrived S u t := by
  cases t with
  | leaf b =>
    obtain ⟨m, hm, hs⟩ := hsome
    simp only [tmsgs, List.mem_cons, List.not_mem_nil, or_false] at hm
    subst hm
    simp only [Task.isComplete, hT.2 [], allArrived, tmsgs, List.mem_cons, List.not_mem_nil, or_false,
      forall_eq, hs]
    simp
  | node a sb eb ok kids =>
    rw [← full_iff_allArrived, ← Tree.cmem_self S u a sb eb ok kids []]
    simp only [Task.isComplete]
    rw [hT.compl [] (List.prefix_refl _)]

/-! ### association-list facts -/
theorem lookup_of_mem {p : Parser} (hn : (p.map (·.1)).Nodup) {u : String} {T : Task} (h : (u, T) ∈ p) :
    p.lookup u = some T := by
  induction p with
  | nil => cases h
  | cons e es ih =>
    obtain ⟨k, v⟩ := e
    simp only [List.map_cons, List.nodup_cons, List.mem_map, not_exists, not_and] at hn
    rcases List.mem_cons.mp h with h | h
    · cases h; simp [List.lookup]
    · have : u ≠ k := fun hk => hn.1 (u, T) h (by simp [hk])
      simp only [List.lookup]
      have : (u == k) = false := by simpa using this
      rw [this]; exact ih hn.2 h

theorem mem_of_lookup {p : Parser} {u : String} {T : Task} (h : p.lookup u = some T) : (u, T) ∈ p := by
  induction p with
  | nil => simp [List.lookup] at h
  | cons e es ih =>
    obtain ⟨k, v⟩ := e
    simp only [List.lookup] at h
    split at h
    · rename_i hk; have : u = k := by simpa using hk
      cases h; subst this; simp
    · exact List.mem_cons_of_mem _ (ih h)

theorem lookup_none_of_not_mem {p : Parser} {u : String} (h : ∀ T, (u, T) ∉ p) : p.lookup u = none := by
  cases hl : p.lookup u with
  | none => rfl
  | some T => exact absurd (mem_of_lookup hl) (h T)

theorem mem_filter_ne {p : Parser} {u u' : String} {T : Task} :
    (u', T) ∈ p.filter (fun e => e.1 != u) ↔ (u', T) ∈ p ∧ u' ≠ u := by
  simp [List.mem_filter]

theorem nodup_filter_ne {p : Parser} (u : String) (hn : (p.map (·.1)).Nodup) :
    ((p.filter (fun e => e.1 != u)).map (·.1)).Nodup := by
  induction p with
  | nil => simp
  | cons e es ih =>
    simp only [List.map_cons, List.nodup_cons, List.mem_map, not_exists, not_and] at hn
    simp only [List.filter]
    split
    · simp only [List.map_cons, List.nodup_cons, List.mem_map, not_exists, not_and]
      refine ⟨fun x hx => hn.1 x (List.mem_filter.mp hx).1, ih hn.2⟩
    · exact ih hn.2

theorem not_mem_keys_filter_ne (p : Parser) (u : String) :
    u ∉ (p.filter (fun e => e.1 != u)).map (·.1) := by
  simp [List.mem_map, List.mem_filter]

/-! ### the parser invariant -/
/-- `p` holds exactly the tasks of `ts` that have started to arrive and are not yet complete,
each in the state determined by `S`. -/
structure POK (S : PMsg → Bool) (ts : Spec) (p : Parser) : Prop where
  nodup : (p.map (·.1)).Nodup
  sound : ∀ u T, (u, T) ∈ p → ∃ t, (u, t) ∈ ts ∧ TaskIs S u t T ∧ someArrived S u t ∧ ¬ allArrived S u t
  compl : ∀ u t, (u, t) ∈ ts → someArrived S u t → ¬ allArrived S u t → ∃ T, (u, T) ∈ p

theorem POK.init (ts : Spec) : POK (fun _ => false) ts [] :=
  ⟨by simp, by simp, fun u t _ h => by obtain ⟨m, _, hm⟩ := h; cases hm⟩

/-- One `Parser.add` of a new message `m` of spec task `(u,t)`:
it succeeds, re-establishes the invariant for `S ∪ {m}`, and hands back the task — in its final
state — exactly when `m` was the last missing message; otherwise it hands back nothing. -/
theorem Parser.add_step {S : PMsg → Bool} {ts : Spec} {p : Parser} (hwf : ts.WF) (hp : POK S ts p)
    {u : String} {t : Tree} (ht : (u, t) ∈ ts) {m : PMsg} (hm : m ∈ tmsgs u t) (hS : S m = false) :
    ∃ done p', Parser.add p m = .ok (done, p') ∧ POK (ext S m) ts p' ∧
      ((allArrived (ext S m) u t ∧ ∃ T, done = [(u, T)] ∧ TaskIs (ext S m) u t T ∧ T.isComplete = true) ∨
       (¬ allArrived (ext S m) u t ∧ done = [])) := by
  have hmu : m.uuid = u := tmsgs_uuid u t m hm
  have hsome' : someArrived (ext S m) u t := ⟨m, hm, ext_self S m⟩
  -- the other tasks do not notice
  have others : ∀ u' T', (u', T') ∈ p.filter (fun e => e.1 != m.uuid) →
      ∃ t', (u', t') ∈ ts ∧ TaskIs (ext S m) u' t' T' ∧ someArrived (ext S m) u' t' ∧ ¬ allArrived (ext S m) u' t' := by
    intro u' T' h
    obtain ⟨hin, hne⟩ := mem_filter_ne.mp h
    obtain ⟨t', ht', h1, h2, h3⟩ := hp.sound u' T' hin
    have hc := @ext_other S m u' t' (fun h => hne h.symm)
    exact ⟨t', ht', h1.congr hc, (someArrived.congr hc).mp h2, fun h => h3 ((allArrived.congr hc).mpr h)⟩
  have others_compl : ∀ u' t', (u', t') ∈ ts → u' ≠ u → someArrived (ext S m) u' t' → ¬ allArrived (ext S m) u' t' →
      ∃ T, (u', T) ∈ p.filter (fun e => e.1 != m.uuid) := by
    intro u' t' ht' hne h1 h2
    have hc := @ext_other S m u' t' (fun h => hne (hmu ▸ h).symm)
    obtain ⟨T, hT⟩ := hp.compl u' t' ht' ((someArrived.congr hc).mpr h1) (fun h => h2 ((allArrived.congr hc).mp h))
    exact ⟨T, mem_filter_ne.mpr ⟨hT, hmu ▸ hne⟩⟩
  -- the task that receives the message
  have key : ∃ T', ((p.lookup m.uuid).getD {}).add m = .ok T' ∧ TaskIs (ext S m) u t T' := by
    cases t with
    | leaf b =>
      simp only [tmsgs, List.mem_cons, List.not_mem_nil, or_false] at hm
      have hnone : p.lookup m.uuid = none := by
        apply lookup_none_of_not_mem
        intro T hT
        rw [hmu] at hT
        obtain ⟨t', ht', _, ⟨x, hx, hxs⟩, _⟩ := hp.sound _ T hT
        have := hwf.unique ht ht'
        subst this
        simp only [tmsgs, List.mem_cons, List.not_mem_nil, or_false] at hx
        rw [hx, ← hm, hS] at hxs; cases hxs
      refine ⟨{ root := some (.msg m), completed := insertSorted [] [] }, ?_, ?_⟩
      · rw [hnone]; subst hm; simp [Task.add, leafMsg]; rfl
      · subst hm
        exact ⟨rfl, fun L => by cases L <;> simp [insertSorted]⟩
    | node a sb eb ok kids =>
      by_cases hsome : someArrived S u (.node a sb eb ok kids)
      · have hnall : ¬ allArrived S u (.node a sb eb ok kids) := fun h => by
          have := h m hm; rw [hS] at this; cases this
        obtain ⟨T, hT⟩ := hp.compl u _ ht hsome hnall
        obtain ⟨t', ht', hT', _, _⟩ := hp.sound u T hT
        have := hwf.unique ht ht'; subst this
        rw [hmu, lookup_of_mem hp.nodup hT]
        exact Task.add_step S u a sb eb ok kids T m hm hS hT'
      · have hnone : p.lookup m.uuid = none := by
          apply lookup_none_of_not_mem
          intro T hT
          rw [hmu] at hT
          obtain ⟨t', ht', _, h2, _⟩ := hp.sound _ T hT
          have := hwf.unique ht ht'; subst this
          exact hsome h2
        rw [hnone]
        exact Task.add_step S u a sb eb ok kids {} m hm hS (TaskOK.empty hsome)
  obtain ⟨T', hadd, hT'⟩ := key
  have hcomp := hT'.isComplete_iff hsome'
  unfold Parser.add
  simp only [hadd, bind, Except.bind, pure, Except.pure]
  by_cases hc : T'.isComplete = true
  · simp only [hc, ↓reduceIte]
    refine ⟨_, _, rfl, ⟨nodup_filter_ne _ hp.nodup, others, ?_⟩, Or.inl ⟨hcomp.mp hc, T', by rw [hmu], hT', hc⟩⟩
    intro u' t' ht' h1 h2
    by_cases hu : u' = u
    · subst hu; have := hwf.unique ht ht'; subst this; exact absurd (hcomp.mp hc) h2
    · exact others_compl u' t' ht' hu h1 h2
  · simp only [hc, Bool.false_eq_true, ↓reduceIte]
    refine ⟨_, _, rfl, ⟨?_, ?_, ?_⟩, Or.inr ⟨fun h => hc (hcomp.mpr h), rfl⟩⟩
    · simp only [List.map_cons, List.nodup_cons]
      exact ⟨not_mem_keys_filter_ne p m.uuid, nodup_filter_ne _ hp.nodup⟩
    · intro u' T'' h
      rcases List.mem_cons.mp h with h | h
      · cases h; rw [hmu]
        exact ⟨t, ht, hT', hsome', fun h => hc (hcomp.mpr h)⟩
      · exact others u' T'' h
    · intro u' t' ht' h1 h2
      by_cases hu : u' = u
      · subst hu; exact ⟨T', by rw [hmu]; exact List.mem_cons_self⟩
      · obtain ⟨T, hT⟩ := others_compl u' t' ht' hu h1 h2
        exact ⟨T, List.mem_cons_of_mem _ hT⟩

end PM
