import Eliot.Conc.Writer
/-! Invariant of the threaded-writer model (C19). -/
namespace Eliot.Conc.Writer

theorem stops_append (a b : List Item) : stops (a ++ b) = stops a + stops b := by
  induction a with
  | nil => simp [stops]
  | cons x r ih => cases x <;> simp [stops, ih] <;> omega

theorem msgsOf_append (a b : List Item) : msgsOf (a ++ b) = msgsOf a ++ msgsOf b := by
  induction a with
  | nil => simp [msgsOf]
  | cons x r ih => cases x <;> simp [msgsOf, ih]

theorem tagged_append (a b : List Item) (n : Nat) : tagged (a ++ b) n = tagged a n ++ tagged b (n + stops a) := by
  induction a generalizing n with
  | nil => simp [tagged, stops]
  | cons x r ih =>
    cases x with
    | msg m => simp [tagged, stops, ih]
    | stop =>
      simp only [List.cons_append, tagged, stops, ih]
      have : n + 1 + stops r = n + (stops r + 1) := by omega
      rw [this]

theorem tagged_fst (l : List Item) (n : Nat) : (tagged l n).map (·.1) = msgsOf l := by
  induction l generalizing n with
  | nil => rfl
  | cons x r ih => cases x <;> simp [tagged, msgsOf, ih]

/-- no destination call on reader `k` is recorded after `stopped k` -/
def Ordered : List Ev → Prop
  | [] => True
  | e :: r => (match e with
      | .stopped k => ∀ m ok, Ev.call m k ok ∉ r
      | _ => True) ∧ Ordered r

theorem ordered_snoc_stopped (l : List Ev) (k : Nat) (h : Ordered l) : Ordered (l ++ [.stopped k]) := by
  induction l with
  | nil => simp [Ordered]
  | cons e r ih =>
    obtain ⟨h1, h2⟩ := h
    refine ⟨?_, ih h2⟩
    cases e with
    | call m j ok => trivial
    | stopped j =>
      intro m ok hm
      rcases List.mem_append.mp hm with hm | hm
      · exact h1 m ok hm
      · simp at hm

theorem ordered_snoc_call (l : List Ev) (m k : Nat) (ok : Bool) (h : Ordered l) (hk : Ev.stopped k ∉ l) :
    Ordered (l ++ [.call m k ok]) := by
  induction l with
  | nil => simp [Ordered]
  | cons e r ih =>
    obtain ⟨h1, h2⟩ := h
    refine ⟨?_, ih h2 (fun hm => hk (List.mem_cons_of_mem _ hm))⟩
    cases e with
    | call m' j ok' => trivial
    | stopped j =>
      intro m' ok' hm
      rcases List.mem_append.mp hm with hm | hm
      · exact h1 m' ok' hm
      · have : j ≠ k := fun e => hk (by rw [e]; exact List.mem_cons_self)
        simp at hm
        exact this hm.2.1

structure Inv (fails : Nat → Bool) (s : State) : Prop where
  fifo : s.puts = s.consumed ++ s.queue
  tag : tagged s.consumed 0 = s.attempted ++ held s
  cyc : match s.reader with
        | .none => s.cycle = 0 ∧ s.consumed = []
        | .atGet => stops s.consumed + 1 = s.cycle
        | .holding _ => stops s.consumed + 1 = s.cycle
        | .exited => stops s.consumed = s.cycle ∧ ∃ c, s.consumed = c ++ [.stop]
  wr : s.written = s.attempted.filter (fun a => !fails a.1)
  stp : ∀ k, Ev.stopped k ∈ s.events → k < stops s.consumed
  jd : s.joinDone = true → s.reader = .exited
  ord : Ordered s.events
  last : s.ops ≠ [] → s.ops.getLast? = some .awaitStop
  fin : s.ops = [] → s.cycle = 0 ∨ s.joinDone = true

theorem inv_init (fails : Nat → Bool) (prog : Nat → List Nat) (n : Nat) : Inv fails (init prog n) := by
  constructor <;> simp [init, tagged, held, stops, Ordered]

end Eliot.Conc.Writer

namespace Eliot.Conc.Writer

theorem last_tail {op : COp} {r : List COp} (h : (op :: r) ≠ [] → (op :: r).getLast? = some COp.awaitStop) :
    r ≠ [] → r.getLast? = some COp.awaitStop := by
  intro hr
  have := h (by simp)
  cases r with
  | nil => exact absurd rfl hr
  | cons x xs => simpa [List.getLast?_cons_cons] using this

theorem single_await {op : COp} (h : ([op] : List COp) ≠ [] → ([op] : List COp).getLast? = some COp.awaitStop) :
    op = .awaitStop := by
  have := h (by simp)
  simpa using this

/-- controller statements that touch none of the fields the invariant talks about -/
theorem inv_ctl_plain (fails : Nat → Bool) (s s' : State) (op : COp) (r : List COp) (hi : Inv fails s)
    (hops : s.ops = op :: r) (hop : op ≠ .awaitStop)
    (h1 : s'.queue = s.queue) (h2 : s'.cycle = s.cycle) (h3 : s'.reader = s.reader) (h4 : s'.joinDone = s.joinDone)
    (h5 : s'.ops = r) (h6 : s'.puts = s.puts) (h7 : s'.consumed = s.consumed) (h8 : s'.attempted = s.attempted)
    (h9 : s'.written = s.written) (h10 : s'.events = s.events) : Inv fails s' := by
  have hl := hi.last
  rw [hops] at hl
  exact {
    fifo := by rw [h6, h7, h1]; exact hi.fifo
    tag := by simp only [held, h7, h8, h3, h2]; exact hi.tag
    cyc := by rw [h3, h7, h2]; exact hi.cyc
    wr := by rw [h9, h8]; exact hi.wr
    stp := by rw [h10, h7]; exact hi.stp
    jd := by rw [h4, h3]; exact hi.jd
    ord := by rw [h10]; exact hi.ord
    last := by rw [h5]; exact last_tail hl
    fin := by
      rw [h5]; intro hr; subst hr
      exact absurd (single_await hl) hop }

theorem inv_step (fails : Nat → Bool) (s : State) (t : Tid) (s' : State) (hi : Inv fails s)
    (hs : step fails s t = some s') : Inv fails s' := by
  cases t with
  | prod i =>
    simp only [step] at hs
    cases hp : s.prod i with
    | nil => simp [hp] at hs
    | cons m r =>
      simp only [hp] at hs
      injection hs with hs
      subst hs
      exact { fifo := by simp [hi.fifo], tag := hi.tag, cyc := hi.cyc, wr := hi.wr, stp := hi.stp, jd := hi.jd,
              ord := hi.ord, last := hi.last, fin := hi.fin }
  | ctl =>
    simp only [step, ctlStep] at hs
    cases hops : s.ops with
    | nil =>
      rw [hops] at hs
      simp only at hs
      by_cases hc : s.cyclesLeft = 0
      · simp [hc] at hs
      · simp only [hc, ↓reduceIte] at hs
        injection hs with hs
        subst hs
        exact { fifo := hi.fifo, tag := hi.tag, cyc := hi.cyc, wr := hi.wr, stp := hi.stp, jd := hi.jd, ord := hi.ord,
                last := by intro _; simp [cycleOps, assumed], fin := by intro h; simp [cycleOps, assumed] at h }
    | cons op r =>
      rw [hops] at hs
      simp only at hs
      have hl := hi.last
      rw [hops] at hl
      cases op with
      | svcStart => injection hs with hs; subst hs; exact inv_ctl_plain fails s _ _ r hi hops (by decide) rfl rfl rfl rfl rfl rfl rfl rfl rfl rfl
      | mkThread => injection hs with hs; subst hs; exact inv_ctl_plain fails s _ _ r hi hops (by decide) rfl rfl rfl rfl rfl rfl rfl rfl rfl rfl
      | register => injection hs with hs; subst hs; exact inv_ctl_plain fails s _ _ r hi hops (by decide) rfl rfl rfl rfl rfl rfl rfl rfl rfl rfl
      | svcStop => injection hs with hs; subst hs; exact inv_ctl_plain fails s _ _ r hi hops (by decide) rfl rfl rfl rfl rfl rfl rfl rfl rfl rfl
      | unregister => injection hs with hs; subst hs; exact inv_ctl_plain fails s _ _ r hi hops (by decide) rfl rfl rfl rfl rfl rfl rfl rfl rfl rfl
      | deferJoin => injection hs with hs; subst hs; exact inv_ctl_plain fails s _ _ r hi hops (by decide) rfl rfl rfl rfl rfl rfl rfl rfl rfl rfl
      | unknown => simp at hs
      | putStop =>
        injection hs with hs
        subst hs
        exact { fifo := by simp [hi.fifo], tag := hi.tag, cyc := hi.cyc, wr := hi.wr, stp := hi.stp, jd := hi.jd,
                ord := hi.ord, last := last_tail hl,
                fin := by intro hr; simp only at hr; subst hr; exact absurd (single_await hl) (by decide) }
      | awaitStop =>
        by_cases hj : s.joinDone = true
        · simp only [hj, ↓reduceIte] at hs
          injection hs with hs
          subst hs
          exact { fifo := hi.fifo, tag := hi.tag, cyc := hi.cyc, wr := hi.wr, stp := hi.stp, jd := fun _ => hi.jd hj, ord := hi.ord,
                  last := last_tail hl, fin := fun _ => Or.inr rfl }
        · simp [hj] at hs
      | startThread =>
        by_cases hr : s.reader = .none ∨ s.reader = .exited
        · simp only [hr, ↓reduceIte] at hs
          injection hs with hs
          subst hs
          have hcyc := hi.cyc
          have hheld : held s = [] := by rcases hr with h | h <;> simp [held, h]
          exact {
            fifo := hi.fifo
            tag := by have := hi.tag; rw [hheld] at this; simpa [held] using this
            cyc := by
              rcases hr with h | h
              · rw [h] at hcyc; simp only at hcyc ⊢; simp [hcyc.1, hcyc.2, stops]
              · rw [h] at hcyc; simp only at hcyc ⊢; omega
            wr := hi.wr
            stp := hi.stp
            jd := by simp
            ord := hi.ord
            last := last_tail hl
            fin := by intro hr'; simp only at hr'; subst hr'; exact absurd (single_await hl) (by decide) }
        · simp [hr] at hs
  | reader k =>
    simp only [step] at hs
    by_cases hk : k + 1 = s.cycle
    · simp only [hk, ↓reduceIte] at hs
      have hcyc := hi.cyc
      have htag := hi.tag
      cases hrd : s.reader with
      | none => rw [hrd] at hs; simp at hs
      | exited => rw [hrd] at hs; simp at hs
      | atGet =>
        rw [hrd] at hs hcyc
        simp only at hs hcyc
        have hheld : held s = [] := by simp [held, hrd]
        rw [hheld, List.append_nil] at htag
        have hnj : s.joinDone = true → False := fun h => by have := hi.jd h; rw [hrd] at this; cases this
        cases hq : s.queue with
        | nil => rw [hq] at hs; simp at hs
        | cons it q =>
          rw [hq] at hs
          cases it with
          | stop =>
            simp only at hs
            injection hs with hs
            subst hs
            exact {
              fifo := by simp [hi.fifo, hq]
              tag := by simp [held, tagged_append, tagged, htag]
              cyc := by simp only [stops_append, stops]; exact ⟨by omega, ⟨s.consumed, rfl⟩⟩
              wr := hi.wr
              stp := by intro j hj; have := hi.stp j hj; simp only [stops_append, stops]; omega
              jd := fun _ => rfl
              ord := hi.ord
              last := hi.last
              fin := hi.fin }
          | msg m =>
            simp only at hs
            injection hs with hs
            subst hs
            exact {
              fifo := by simp [hi.fifo, hq]
              tag := by
                simp only [held, tagged_append, tagged, htag, Nat.zero_add]
                have : s.cycle - 1 = stops s.consumed := by omega
                rw [this]
              cyc := by simp only [stops_append, stops]; omega
              wr := hi.wr
              stp := by intro j hj; have := hi.stp j hj; simp only [stops_append, stops]; omega
              jd := fun h => absurd h (by intro h; exact hnj h)
              ord := hi.ord
              last := hi.last
              fin := hi.fin }
      | holding m =>
        rw [hrd] at hs hcyc
        simp only at hs hcyc
        injection hs with hs
        subst hs
        have hheld : held s = [(m, k)] := by
          have : s.cycle - 1 = k := by omega
          simp [held, hrd, this]
        rw [hheld] at htag
        have hnj : s.joinDone = true → False := fun h => by have := hi.jd h; rw [hrd] at this; cases this
        exact {
          fifo := hi.fifo
          tag := by simp [held, htag]
          cyc := hcyc
          wr := by
            by_cases hf : fails m = true
            · simp [hf, hi.wr, List.filter_append]
            · simp [hf, hi.wr, List.filter_append]
          stp := by
            intro j hj
            have : Ev.stopped j ∈ s.events := by simpa using hj
            exact hi.stp j this
          jd := fun h => absurd h (by intro h; exact hnj h)
          ord := ordered_snoc_call _ _ _ _ hi.ord (fun hm => by have := hi.stp k hm; omega)
          last := hi.last
          fin := by
            intro ho
            rcases hi.fin ho with h | h
            · exact Or.inl h
            · exact absurd h (by intro h; exact hnj h) }
    · simp [hk] at hs
  | joiner k =>
    simp only [step] at hs
    by_cases hg : k + 1 = s.cycle ∧ s.joinPending = true ∧ s.joinDone = false ∧ s.reader = .exited
    · rw [if_pos hg] at hs
      injection hs with hs
      subst hs
      obtain ⟨hk, _, _, hrd⟩ := hg
      have hcyc := hi.cyc
      rw [hrd] at hcyc
      simp only at hcyc
      exact {
        fifo := hi.fifo
        tag := hi.tag
        cyc := hi.cyc
        wr := hi.wr
        stp := by
          intro j hj
          rcases List.mem_append.mp hj with hj | hj
          · exact hi.stp j hj
          · have : j = k := by simpa using hj
            subst this
            have := hcyc.1
            show j < stops s.consumed
            omega
        jd := fun _ => hrd
        ord := ordered_snoc_stopped _ _ hi.ord
        last := hi.last
        fin := fun _ => Or.inr rfl }
    · simp [hg] at hs

end Eliot.Conc.Writer

namespace Eliot.Conc.Writer

theorem inv_run (fails : Nat → Bool) (prog : Nat → List Nat) (n : Nat) (sched : List Tid) :
    Inv fails (run fails (init prog n) sched) :=
  (sys fails).inv_run (Inv fails) (fun s t s' h hs => inv_step fails s t s' h hs) _ (inv_init fails prog n) sched

end Eliot.Conc.Writer
