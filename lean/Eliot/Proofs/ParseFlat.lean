import Eliot.Model.ParseFlat
import Eliot.Proofs.ParseTask
/-!
# The flat map of `parse.py` refines the trie (`Model/Parse.lean`)

`Inv ft t`: under every level the map `ft.nodes` holds exactly the sub-trie of `t.root` at that level when
that is an action (plain messages are not stored in `_nodes`), nothing under any other level, and the two
`_completed` sets have the same members.  `add_refines`: whenever the trie's `Task.add m` succeeds on a
message inside the domain (`PlainDom`: a plain message does not arrive at a level where an action is
already known, a single-message task arrives in an empty task), the code-shaped upward walk `FTask.add m`
succeeds as well and re-establishes `Inv`; hence `root()` and `is_complete()` agree (`Inv.root_eq`,
`Inv.complete_eq`) after any sequence of additions on which the trie succeeds (`addAll_refines`).  Nothing is proved
about `FTask.add` where the trie's `add` fails.
-/
namespace PM

mutual
def Node.Sorted : Node → Prop
  | .msg _ => True
  | .act _ _ ch => Kids.SortedFrom 0 ch
def Kids.SortedFrom : Nat → Kids → Prop
  | _, .nil => True
  | b, .cons k n rest => b ≤ k ∧ Node.Sorted n ∧ Kids.SortedFrom (k+1) rest
end

theorem Kids.SortedFrom.mono {b b' : Nat} {ch : Kids} (h : ch.SortedFrom b) (hb : b' ≤ b) : ch.SortedFrom b' := by
  cases ch with
  | nil => simp [Kids.SortedFrom]
  | cons k n rest => simp only [Kids.SortedFrom] at h ⊢; exact ⟨by omega, h.2.1, h.2.2⟩

theorem Kids.get?_of_lt {b : Nat} {ch : Kids} (h : ch.SortedFrom b) {j : Nat} (hj : j < b) : ch.get? j = none := by
  cases ch with
  | nil => simp [Kids.get?]
  | cons k n rest =>
    simp only [Kids.SortedFrom] at h
    have : j < k := by omega
    simp [Kids.get?, this]; omega

theorem Kids.get?_set {b : Nat} (ch : Kids) (h : ch.SortedFrom b) (k j : Nat) (v : Node) :
    (ch.set k v).get? j = if j = k then some v else ch.get? j := by
  cases ch with
  | nil => simp [Kids.set, Kids.get?]
  | cons k' n rest =>
    simp only [Kids.SortedFrom] at h
    have ih' := Kids.get?_set rest h.2.2 k j v
    have hlt := fun (x : Nat) (hx : x < k'+1) => Kids.get?_of_lt h.2.2 hx
    simp only [Kids.set]
    split
    · simp only [Kids.get?]; grind
    · split
      · simp only [Kids.get?]; grind
      · simp only [Kids.get?, ih']; grind

theorem Kids.set_sorted {b : Nat} (ch : Kids) (h : ch.SortedFrom b) (k : Nat) (hb : b ≤ k) (v : Node) (hv : v.Sorted) :
    (ch.set k v).SortedFrom b := by
  cases ch with
  | nil => simp [Kids.set, Kids.SortedFrom, hb, hv]
  | cons k' n rest =>
    simp only [Kids.SortedFrom] at h
    simp only [Kids.set]
    split
    · simp only [Kids.SortedFrom]; exact ⟨hb, hv, by omega, h.2.1, h.2.2⟩
    · split
      · simp only [Kids.SortedFrom]; exact ⟨h.1, hv, h.2.2⟩
      · simp only [Kids.SortedFrom]
        exact ⟨h.1, h.2.1, Kids.set_sorted rest h.2.2 k (by omega) v hv⟩

theorem Kids.get?_sorted {b : Nat} (ch : Kids) (h : ch.SortedFrom b) (k : Nat) (n : Node) (hg : ch.get? k = some n) : n.Sorted := by
  cases ch with
  | nil => simp [Kids.get?] at hg
  | cons k' n' rest =>
    simp only [Kids.SortedFrom] at h
    simp only [Kids.get?] at hg
    split at hg
    · cases hg; exact h.2.1
    · split at hg
      · cases hg
      · exact Kids.get?_sorted rest h.2.2 k n hg
/-! ## `_completed` as a set -/

def CEq (c c' : List Level) : Prop := ∀ L, c.contains L = c'.contains L

theorem CEq.refl (c : List Level) : CEq c c := fun _ => rfl

theorem CEq.cons {c c' : List Level} (h : CEq c c') (l : Level) : CEq (l :: c) (l :: c') := by
  intro L; simp only [List.contains_cons]; rw [h L]

theorem Kids.allActsIn_congr {c c' : List Level} (h : CEq c c') (pre : Level) (ch : Kids) :
    ch.allActsIn c pre = ch.allActsIn c' pre := by
  cases ch with
  | nil => simp [Kids.allActsIn]
  | cons k n rest =>
    have ih := Kids.allActsIn_congr h pre rest
    cases n with
    | msg m => simp [Kids.allActsIn, ih]
    | act s e ch' => simp only [Kids.allActsIn, ih]; rw [h]

theorem Node.completeNow_congr {c c' : List Level} (h : CEq c c') (pre : Level) (n : Node) :
    n.completeNow c pre = n.completeNow c' pre := by
  cases n with
  | msg m => rfl
  | act s e ch =>
    cases s <;> cases e <;> simp only [Node.completeNow]
    rw [Kids.allActsIn_congr h]

/-! ## The map and the trie -/

def FTask.climb (t : FTask) : List Nat → Node → Except Err FTask
  | [], _ => .ok t
  | k :: rp, node =>
    match (t.get rp.reverse).getD emptyAct with
    | .msg _ => .error .underMessage
    | .act s e ch => FTask.upward t rp (.act s e (ch.set k node))

theorem FTask.upward_eq (t : FTask) (rl : List Nat) (node : Node) :
    t.upward rl node = (t.visit rl.reverse node).climb rl node := by
  cases rl with
  | nil => simp [FTask.upward, FTask.climb]
  | cons k rp =>
    simp only [FTask.upward, FTask.climb]
    generalize ((t.visit (k :: rp).reverse node).get rp.reverse).getD emptyAct = x
    cases x <;> rfl

theorem FTask.get_visit (t : FTask) (lvl : Level) (node : Node) (L : Level) :
    (t.visit lvl node).get L = if L = lvl then some node else t.get L := by
  simp only [FTask.get, FTask.visit, List.lookup_cons]
  by_cases h : L = lvl
  · simp [h]
  · have : (L == lvl) = false := by simpa using h
    simp [this, h]

theorem FTask.climb_step (t : FTask) (k : Nat) (rp : List Nat) (node : Node) (s e : Option PMsg) (ch : Kids)
    (h : (t.get rp.reverse).getD emptyAct = .act s e ch) :
    t.climb (k :: rp) node = t.upward rp (.act s e (ch.set k node)) := by
  simp [FTask.climb, h]

structure InvSub (ft : FTask) (pre : Level) (on : Option Node) : Prop where
  here : ft.get pre = on
  below : ∀ p, p ≠ [] → ft.get (pre ++ p) = (on.bind (Node.lookup p)).filter Node.isAct

def OpDom (op : Op) (path : List Nat) (on : Option Node) : Prop :=
  ∀ k m, op = .addMsg k m → ∀ x, on.bind (Node.lookup (path ++ [k])) = some x → x.isAct = false

theorem lookup_getD (on : Option Node) (p : List Nat) (hp : p ≠ []) :
    (on.getD emptyAct).lookup p = on.bind (Node.lookup p) := by
  cases on with
  | some n => rfl
  | none =>
    cases p with
    | nil => exact absurd rfl hp
    | cons k p' => simp [emptyAct, Node.lookup, Kids.get?]

theorem emptyAct_sorted : emptyAct.Sorted := by simp [emptyAct, Node.Sorted, Kids.SortedFrom]

theorem getD_sorted (on : Option Node) (h : ∀ n, on = some n → n.Sorted) : (on.getD emptyAct).Sorted := by
  cases on with
  | some n => exact h n rfl
  | none => exact emptyAct_sorted

theorem Node.addAt_msg (c : List Level) (pre : Level) (path : List Nat) (op : Op) (x : PMsg) :
    Node.addAt c pre path op (.msg x) = .error .underMessage := by
  cases path <;> simp [Node.addAt, Op.apply] <;> rfl

theorem Node.lookup_act_cons (s e : Option PMsg) (ch : Kids) (k : Nat) (p : List Nat) :
    (Node.act s e ch).lookup (k :: p) = (ch.get? k).bind (Node.lookup p) := rfl

theorem lookup_msg_filter (x : PMsg) (p : List Nat) : ((Node.msg x).lookup p).filter Node.isAct = none := by
  cases p <;> simp [Node.lookup, Node.isAct]

/-- what `_start` / `_end` / `_add_child(message)` leave alone -/
theorem Op.apply_props (op : Op) (n n' : Node) (hs : n.Sorted) (h : op.apply n = .ok n')
    (hd : ∀ k m, op = .addMsg k m → ∀ x, n.lookup [k] = some x → x.isAct = false) :
    n'.Sorted ∧ n'.isAct = true ∧
      ∀ p, p ≠ [] → (n'.lookup p).filter Node.isAct = (n.lookup p).filter Node.isAct := by
  cases n with
  | msg x => simp [Op.apply] at h
  | act s e ch =>
    simp only [Node.Sorted] at hs
    cases op with
    | setStart m =>
      simp only [Op.apply] at h
      split at h
      · cases h
        refine ⟨hs, rfl, ?_⟩
        intro p hp; cases p with
        | nil => exact absurd rfl hp
        | cons j p' => rfl
      · cases h
    | setEnd m =>
      simp only [Op.apply] at h
      split at h
      · cases h
      · split at h
        · cases h
          refine ⟨hs, rfl, ?_⟩
          intro p hp; cases p with
          | nil => exact absurd rfl hp
          | cons j p' => rfl
        · cases h
    | addMsg k m =>
      simp only [Op.apply] at h
      cases h
      refine ⟨?_, rfl, ?_⟩
      · simp only [Node.Sorted]
        exact Kids.set_sorted ch hs k (Nat.zero_le _) _ (by simp [Node.Sorted])
      · intro p hp; cases p with
        | nil => exact absurd rfl hp
        | cons j p' =>
          simp only [Node.lookup_act_cons, Kids.get?_set ch hs]
          by_cases hj : j = k
          · subst hj
            simp only [if_true, Option.bind_some, lookup_msg_filter]
            have := hd j m rfl
            simp only [Node.lookup_act_cons] at this
            cases hg : ch.get? j with
            | none => simp
            | some x =>
              have hx := this x (by simp [hg, Node.lookup])
              cases x with
              | msg y => simp [lookup_msg_filter]
              | act _ _ _ => simp [Node.isAct] at hx
          · simp [hj]

/-- The walk from the changed action up to level `pre`, against the trie's path update below `pre`. -/
theorem upward_seg (op : Op) (c0 : List Level) : ∀ (path : List Nat) (pre : Level) (on : Option Node) (ft : FTask)
    (n' : Node) (newC : List Level),
    InvSub ft pre on → (∀ n, on = some n → n.Sorted) → CEq ft.completed c0 → OpDom op path on →
    Node.addAt c0 pre path op (on.getD emptyAct) = .ok (n', newC) →
    ∃ leaf' ftv, op.apply ((ft.get (pre ++ path)).getD emptyAct) = .ok leaf' ∧
      ft.upward (pre ++ path).reverse leaf' = ftv.climb pre.reverse n' ∧
      InvSub ftv pre (some n') ∧ n'.Sorted ∧ n'.isAct = true ∧
      (∀ L, (∀ p, L ≠ pre ++ p) → ftv.get L = ft.get L) ∧ CEq ftv.completed (newC ++ c0) := by
  intro path
  induction path with
  | nil =>
    intro pre on ft n' newC hinv hsort hc hdom h
    simp only [Node.addAt] at h
    cases ha : op.apply (on.getD emptyAct) with
    | error e => simp [ha] at h; cases h
    | ok n1 =>
      simp only [ha] at h
      have h' : n1 = n' ∧ (if n1.completeNow c0 pre then [pre] else []) = newC := by
        cases h; exact ⟨rfl, rfl⟩
      obtain ⟨rfl, hnew⟩ := h'
      have hprops := Op.apply_props op _ _ (getD_sorted on hsort) ha (by
        intro k m hop x hx
        have := hdom k m hop x
        rw [lookup_getD on [k] (by simp)] at hx
        exact this (by simpa using hx))
      refine ⟨n1, ft.visit pre n1, ?_, ?_, ⟨?_, ?_⟩, hprops.1, hprops.2.1, ?_, ?_⟩
      · simp only [List.append_nil, hinv.here, ha]
      · rw [FTask.upward_eq]; simp
      · simp [FTask.get_visit]
      · intro p hp
        rw [FTask.get_visit]
        have : pre ++ p ≠ pre := by
          intro hh; exact hp (by simpa using hh)
        simp only [this, if_false, hinv.below p hp, Option.bind_some, hprops.2.2 p hp, lookup_getD on p hp]
      · intro L hL
        rw [FTask.get_visit]
        have : L ≠ pre := by simpa using hL []
        simp [this]
      · intro L
        rw [← hnew]
        simp only [FTask.visit, Node.completeNow_congr hc pre n1]
        split
        · simp only [List.contains_cons, List.cons_append, List.nil_append, hc L]
        · simp only [List.nil_append, hc L]
  | cons k rest ih =>
    intro pre on ft n' newC hinv hsort hc hdom h
    have hns := getD_sorted on hsort
    cases hn : on.getD emptyAct with
    | msg x => rw [hn, Node.addAt_msg] at h; cases h
    | act s e ch =>
      rw [hn] at h hns
      simp only [Node.Sorted] at hns
      simp only [Node.addAt] at h
      cases hrec : Node.addAt c0 (pre ++ [k]) rest op ((ch.get? k).getD emptyAct) with
      | error e => simp [hrec] at h; cases h
      | ok r =>
        obtain ⟨child', newC1⟩ := r
        simp only [hrec] at h
        have h' : Node.act s e (ch.set k child') = n' ∧
            (if (Node.act s e (ch.set k child')).completeNow (newC1 ++ c0) pre then newC1 ++ [pre] else newC1) = newC := by
          cases h; exact ⟨rfl, rfl⟩
        obtain ⟨hn', hnew⟩ := h'
        -- lookups below `pre` in terms of `ch`
        have hlk : ∀ j p, on.bind (Node.lookup (j :: p)) = (ch.get? j).bind (Node.lookup p) := by
          intro j p
          rw [← lookup_getD on (j :: p) (by simp), hn]; rfl
        -- the child position is empty or an action
        have hkid : (ch.get? k).filter Node.isAct = ch.get? k := by
          cases hg : ch.get? k with
          | none => rfl
          | some x =>
            cases x with
            | msg y => rw [hg] at hrec; simp only [Option.getD_some, Node.addAt_msg] at hrec; cases hrec
            | act _ _ _ => simp [Node.isAct]
        have hinv' : InvSub ft (pre ++ [k]) (ch.get? k) := by
          constructor
          · have := hinv.below [k] (by simp)
            rw [this, hlk]
            cases hg : ch.get? k with
            | none => simp
            | some x => rw [hg] at hkid; simpa [Node.lookup] using hkid
          · intro p hp
            have := hinv.below (k :: p) (by simp)
            rw [List.append_assoc, List.singleton_append, this, hlk]
        have hsort' : ∀ n, ch.get? k = some n → n.Sorted := fun n hg => Kids.get?_sorted ch hns k n hg
        have hdom' : OpDom op rest (ch.get? k) := by
          intro j m hop x hx
          exact hdom j m hop x (by rw [List.cons_append, hlk]; exact hx)
        obtain ⟨leaf', ftv, hleaf, hup, hsub, hcs, hca, hother, hceq⟩ :=
          ih (pre ++ [k]) (ch.get? k) ft child' newC1 hinv' hsort' hc hdom' hrec
        have hpre : ftv.get pre = on := by
          rw [hother pre (by
            intro p hp
            have := congrArg List.length hp
            simp at this), hinv.here]
        have hsorted' : n'.Sorted := by
          rw [← hn']; simp only [Node.Sorted]
          exact Kids.set_sorted ch hns k (Nat.zero_le _) child' hcs
        refine ⟨leaf', ftv.visit pre n', ?_, ?_, ⟨?_, ?_⟩, hsorted', by rw [← hn']; rfl, ?_, ?_⟩
        · rw [← hleaf]; simp
        · have : (pre ++ k :: rest).reverse = ((pre ++ [k]) ++ rest).reverse := by simp
          have h2 : (pre ++ [k]).reverse = k :: pre.reverse := by simp
          rw [this, hup, h2, FTask.climb_step ftv k pre.reverse child' s e ch (by simp [hpre, hn]), hn',
            FTask.upward_eq]
          simp
        · simp [FTask.get_visit]
        · intro p hp
          rw [FTask.get_visit]
          have : pre ++ p ≠ pre := by
            intro hh; exact hp (by simpa using hh)
          simp only [this, if_false, Option.bind_some]
          cases p with
          | nil => exact absurd rfl hp
          | cons j p' =>
            rw [← hn', Node.lookup_act_cons, Kids.get?_set ch hns]
            by_cases hj : j = k
            · subst hj
              simp only [if_true, Option.bind_some]
              cases p' with
              | nil =>
                have := hsub.here
                rw [this]; simp only [Node.lookup, Option.filter_some, hca, if_true]
              | cons i p'' =>
                have := hsub.below (i :: p'') (by simp)
                rw [List.append_assoc, List.singleton_append] at this
                rw [this]; rfl
            · simp only [hj, if_false]
              rw [hother (pre ++ j :: p') (by
                intro q hq
                rw [List.append_assoc, List.singleton_append] at hq
                have := List.append_cancel_left hq
                simp at this; exact hj this.1), hinv.below (j :: p') (by simp), hlk]
        · intro L hL
          rw [FTask.get_visit]
          have h1 : L ≠ pre := by simpa using hL []
          simp only [h1, if_false]
          exact hother L (fun q hq => hL (k :: q) (by rw [hq]; simp))
        · intro L
          rw [← hnew]
          simp only [FTask.visit, Node.completeNow_congr hceq pre n', hn']
          split
          · simp only [List.contains_cons, List.append_assoc, List.contains_append, hceq L,
              List.singleton_append]
            cases (L == pre) <;> cases (newC1.contains L) <;> cases (c0.contains L) <;> rfl
          · simp only [hceq L]

/-! ## `Task.add` -/

def Task.lookup (t : Task) (L : Level) : Option Node := t.root.bind (Node.lookup L)

/-- the map holds the sub-trie under every level (actions only below the root), the trie is a
well-formed `_children` map at every node, `_completed` has the same members -/
structure Inv (ft : FTask) (t : Task) : Prop where
  sub : InvSub ft [] t.root
  sorted : ∀ n, t.root = some n → n.Sorted
  comp : CEq ft.completed t.completed

/-- Two of the three places where the code's map and the trie part: a plain message arriving at a level at which an
action is already known (the code keeps the action in `_nodes` although its parent now holds the message), and a
single-message task (`task_level == [1]`, no `action_type`) arriving in a task that already has nodes.  The third
needs no hypothesis because the theorems are conditional on the trie's success: a message arriving at or below a
plain message makes the trie fail with `underMessage`, while the code (and `FTask.add`) puts a placeholder action
there. -/
def PlainDom (t : Task) (m : PMsg) : Prop :=
  m.atype = none →
    if m.level = [1] then t.root = none else ∀ x, t.lookup m.level = some x → x.isAct = false

def statusOp (m : PMsg) : Except Err Op :=
  match m.status with
  | some "started" => pure (Op.setStart m)
  | some _ => pure (Op.setEnd m)
  | none => .error .missingStatus

theorem statusOp_notAdd (m : PMsg) (op : Op) (h : statusOp m = .ok op) : ∀ k x, op ≠ .addMsg k x := by
  intro k x hop
  subst hop
  unfold statusOp at h
  split at h <;> cases h

theorem Task.add_action (t : Task) (m : PMsg) (ty : String) (k : Nat) (revPath : List Nat)
    (hat : m.atype = some ty) (hrev : m.level.reverse = k :: revPath) :
    t.add m = (do
      let op ← statusOp m
      let (root', newC) ← Node.addAt t.completed [] revPath.reverse op (t.root.getD emptyAct)
      pure { root := some root', completed := newC.foldl (fun acc l => insertSorted l acc) t.completed }) := by
  unfold Task.add statusOp
  simp only [hat, hrev]
  cases hs : m.status with
  | none => rfl
  | some v =>
    by_cases hv : v = "started"
    · subst hv; rfl
    · split
      · rename_i h; simp at h; exact absurd h hv
      · split
        · rename_i h; simp at h; exact absurd h hv
        · rfl
        · rename_i h; simp at h
      · rename_i h; simp at h

theorem FTask.add_action (t : FTask) (m : PMsg) (ty : String) (k : Nat) (revPath : List Nat)
    (hat : m.atype = some ty) (hrev : m.level.reverse = k :: revPath) :
    t.add m = (do
      let op ← statusOp m
      let action' ← op.apply ((t.get revPath.reverse).getD emptyAct)
      t.upward revPath action') := by
  unfold FTask.add statusOp
  simp only [hat, hrev]
  cases hs : m.status with
  | none => rfl
  | some v =>
    by_cases hv : v = "started"
    · subst hv; rfl
    · split
      · rename_i h; simp at h; exact absurd h hv
      · split
        · rename_i h; simp at h; exact absurd h hv
        · rfl
        · rename_i h; simp at h
      · rename_i h; simp at h

theorem Inv.of_seg {ft : FTask} {t : Task} {op : Op} {path : List Nat} {root' : Node} {newC : List Level}
    (hinv : Inv ft t) (hdom : OpDom op path t.root)
    (h : Node.addAt t.completed [] path op (t.root.getD emptyAct) = .ok (root', newC)) :
    ∃ leaf' ft', op.apply ((ft.get path).getD emptyAct) = .ok leaf' ∧ ft.upward path.reverse leaf' = .ok ft' ∧
      Inv ft' { root := some root', completed := newC.foldl (fun acc l => insertSorted l acc) t.completed } := by
  obtain ⟨leaf', ftv, hleaf, hup, hsub, hs, _, _, hc⟩ :=
    upward_seg op t.completed path [] t.root ft root' newC hinv.sub hinv.sorted hinv.comp hdom h
  refine ⟨leaf', ftv, by simpa using hleaf, by simpa [FTask.climb] using hup, ⟨hsub, ?_, ?_⟩⟩
  · intro n hn; cases hn; exact hs
  · intro L
    rw [hc L, contains_foldl_insertSorted, List.contains_append]

/-- **The upward walk over the flat map computes the trie's path update.** -/
theorem add_refines {ft : FTask} {t t' : Task} {m : PMsg} (hinv : Inv ft t) (hdom : PlainDom t m)
    (h : t.add m = .ok t') : ∃ ft', ft.add m = .ok ft' ∧ Inv ft' t' := by
  cases hat : m.atype with
  | some ty =>
    cases hrev : m.level.reverse with
    | nil => simp [Task.add, hat, hrev] at h
    | cons k revPath =>
      rw [Task.add_action t m ty k revPath hat hrev] at h
      rw [FTask.add_action ft m ty k revPath hat hrev]
      cases hop : statusOp m with
      | error e => simp [hop, bind, Except.bind] at h
      | ok op =>
        simp only [hop, bind, Except.bind] at h ⊢
        cases hadd : Node.addAt t.completed [] revPath.reverse op (t.root.getD emptyAct) with
        | error e => simp [hadd] at h
        | ok r =>
          obtain ⟨root', newC⟩ := r
          simp only [hadd, pure, Except.pure] at h
          cases h
          obtain ⟨leaf', ft', hleaf, hup, hinv'⟩ := Inv.of_seg (ft := ft) hinv (by
            intro j x hj; exact absurd hj (statusOp_notAdd m op hop j x)) hadd
          exact ⟨ft', by simp only [hleaf]; simpa using hup, hinv'⟩
  | none =>
    have hd := hdom hat
    by_cases h1 : m.level = [1]
    · simp only [h1, if_true] at hd
      simp only [Task.add, hat, h1, if_true, pure, Except.pure] at h
      cases h
      refine ⟨{ nodes := ([], .msg m) :: ft.nodes, completed := [] :: ft.completed }, by
        simp [FTask.add, hat, h1, pure, Except.pure], ⟨⟨by simp [FTask.get], ?_⟩, ?_, ?_⟩⟩
      · intro p hp
        have hb := hinv.sub.below p hp
        simp only [List.nil_append, hd, Option.bind_none, Option.filter_none] at hb
        have : (p == ([] : Level)) = false := by simpa using hp
        simp only [List.nil_append, FTask.get, List.lookup_cons, this, Option.bind_some, lookup_msg_filter]
        exact hb
      · intro n hn; cases hn; simp [Node.Sorted]
      · intro L
        simp only [List.contains_cons, contains_insertSorted, hinv.comp L]
    · simp only [h1, if_false] at hd
      cases hrev : m.level.reverse with
      | nil =>
        simp only [Task.add, hat, h1, if_false, hrev, pure, Except.pure] at h
        cases h
        exact ⟨ft, by simp [FTask.add, hat, h1, hrev, pure, Except.pure], hinv⟩
      | cons k revPath =>
        simp only [Task.add, hat, h1, if_false, hrev, bind, Except.bind] at h
        cases hadd : Node.addAt t.completed [] revPath.reverse (.addMsg k m) (t.root.getD emptyAct) with
        | error e => simp [hadd] at h
        | ok r =>
          obtain ⟨root', newC⟩ := r
          simp only [hadd, pure, Except.pure] at h
          cases h
          have hlevel : m.level = revPath.reverse ++ [k] := by
            have := congrArg List.reverse hrev
            simpa using this
          obtain ⟨leaf', ft', hleaf, hup, hinv'⟩ := Inv.of_seg (ft := ft) hinv (by
            intro j x hj y hy
            cases hj
            exact hd y (by rw [hlevel]; exact hy)) hadd
          refine ⟨ft', ?_, hinv'⟩
          simp only [FTask.add, hat, h1, if_false, hrev, bind, Except.bind, hleaf]
          simpa using hup

/-! ## The parser's own exceptions come at the same message -/

/-- if the trie's path update fails with anything but `underMessage`, the failure is that of `_start` / `_end` on the very action
the code fetches from its map -/
theorem addAt_error (op : Op) (c0 : List Level) (e : Err) (he : e ≠ .underMessage) : ∀ (path : List Nat) (pre : Level)
    (on : Option Node) (ft : FTask), InvSub ft pre on →
    Node.addAt c0 pre path op (on.getD emptyAct) = .error e →
    op.apply ((ft.get (pre ++ path)).getD emptyAct) = .error e := by
  intro path
  induction path with
  | nil =>
    intro pre on ft hinv h
    simp only [Node.addAt] at h
    cases ha : op.apply (on.getD emptyAct) with
    | error e' =>
      simp only [ha, bind, Except.bind] at h
      cases h
      simp only [List.append_nil, hinv.here, ha]
    | ok n1 => simp [ha, bind, Except.bind, pure, Except.pure] at h
  | cons k rest ih =>
    intro pre on ft hinv h
    cases hn : on.getD emptyAct with
    | msg x => rw [hn, Node.addAt_msg] at h; cases h; exact absurd rfl he
    | act s e' ch =>
      rw [hn] at h
      simp only [Node.addAt] at h
      cases hrec : Node.addAt c0 (pre ++ [k]) rest op ((ch.get? k).getD emptyAct) with
      | ok r => simp [hrec, bind, Except.bind, pure, Except.pure] at h
      | error e2 =>
        simp only [hrec, bind, Except.bind] at h
        cases h
        have hlk : ∀ j p, on.bind (Node.lookup (j :: p)) = (ch.get? j).bind (Node.lookup p) := by
          intro j p
          rw [← lookup_getD on (j :: p) (by simp), hn]; rfl
        have hkid : (ch.get? k).filter Node.isAct = ch.get? k := by
          cases hg : ch.get? k with
          | none => rfl
          | some x =>
            cases x with
            | msg y =>
              rw [hg] at hrec
              simp only [Option.getD_some, Node.addAt_msg] at hrec
              cases hrec; exact absurd rfl he
            | act _ _ _ => simp [Node.isAct]
        have hinv' : InvSub ft (pre ++ [k]) (ch.get? k) := by
          constructor
          · have := hinv.below [k] (by simp)
            rw [this, hlk]
            cases hg : ch.get? k with
            | none => simp
            | some x => rw [hg] at hkid; simpa [Node.lookup] using hkid
          · intro p hp
            have := hinv.below (k :: p) (by simp)
            rw [List.append_assoc, List.singleton_append, this, hlk]
        have := ih (pre ++ [k]) (ch.get? k) ft hinv' hrec
        simpa using this

/-- **`InvalidStartMessage`, `WrongActionType`, `InvalidStatus`, a missing status, an empty level: where the trie model reports
one of them, the code-shaped algorithm reports the same one at the same message.** -/
theorem add_error_agrees {ft : FTask} {t : Task} {m : PMsg} {e : Err} (hinv : Inv ft t) (h : t.add m = .error e)
    (he : e ≠ .underMessage) : ft.add m = .error e := by
  cases hat : m.atype with
  | some ty =>
    cases hrev : m.level.reverse with
    | nil =>
      simp only [Task.add, hat, hrev] at h
      simp only [FTask.add, hat, hrev]
      cases h; rfl
    | cons k revPath =>
      rw [Task.add_action t m ty k revPath hat hrev] at h
      rw [FTask.add_action ft m ty k revPath hat hrev]
      cases hop : statusOp m with
      | error e' =>
        simp only [hop, bind, Except.bind] at h ⊢
        cases h; rfl
      | ok op =>
        simp only [hop, bind, Except.bind] at h ⊢
        cases hadd : Node.addAt t.completed [] revPath.reverse op (t.root.getD emptyAct) with
        | ok r => simp [hadd, pure, Except.pure] at h
        | error e2 =>
          simp only [hadd] at h
          cases h
          have := addAt_error op t.completed e he revPath.reverse [] t.root ft hinv.sub hadd
          simp only [List.nil_append] at this
          simp only [this]
  | none =>
    by_cases h1 : m.level = [1]
    · simp [Task.add, hat, h1, pure, Except.pure] at h
    · cases hrev : m.level.reverse with
      | nil => simp [Task.add, hat, h1, hrev, pure, Except.pure] at h
      | cons k revPath =>
        simp only [Task.add, hat, h1, if_false, hrev, bind, Except.bind] at h
        cases hadd : Node.addAt t.completed [] revPath.reverse (.addMsg k m) (t.root.getD emptyAct) with
        | ok r => simp [hadd, pure, Except.pure] at h
        | error e2 =>
          simp only [hadd] at h
          cases h
          have := addAt_error (.addMsg k m) t.completed e he revPath.reverse [] t.root ft hinv.sub hadd
          simp only [List.nil_append] at this
          simp only [FTask.add, hat, h1, if_false, hrev, bind, Except.bind, this]

/-! ## Sequences of additions -/

def Task.addAll (t : Task) : List PMsg → Except Err Task
  | [] => .ok t
  | m :: ms => do let t' ← t.add m; Task.addAll t' ms

def FTask.addAll (t : FTask) : List PMsg → Except Err FTask
  | [] => .ok t
  | m :: ms => do let t' ← t.add m; FTask.addAll t' ms

/-- every message of the sequence arrives inside the domain (`PlainDom`) -/
def DomAll (t : Task) : List PMsg → Prop
  | [] => True
  | m :: ms => PlainDom t m ∧ ∀ t', t.add m = .ok t' → DomAll t' ms

theorem Inv.init : Inv {} {} :=
  { sub := ⟨rfl, fun _ _ => rfl⟩, sorted := fun _ h => (by cases h), comp := CEq.refl _ }

theorem Inv.root_eq {ft : FTask} {t : Task} (h : Inv ft t) : ft.root = t.root := h.sub.here

theorem Inv.complete_eq {ft : FTask} {t : Task} (h : Inv ft t) : ft.isComplete = t.isComplete := h.comp []

theorem Inv.get_eq {ft : FTask} {t : Task} (h : Inv ft t) (L : Level) (hL : L ≠ []) :
    ft.get L = (t.lookup L).filter Node.isAct := by
  have := h.sub.below L hL
  simpa [Task.lookup] using this

theorem addAll_refines : ∀ (ms : List PMsg) (ft : FTask) (t t' : Task), Inv ft t → DomAll t ms →
    t.addAll ms = .ok t' → ∃ ft', ft.addAll ms = .ok ft' ∧ Inv ft' t' := by
  intro ms
  induction ms with
  | nil =>
    intro ft t t' hinv _ h
    simp only [Task.addAll] at h; cases h
    exact ⟨ft, rfl, hinv⟩
  | cons m ms ih =>
    intro ft t t' hinv hdom h
    simp only [Task.addAll, bind, Except.bind] at h
    cases hadd : t.add m with
    | error e => simp [hadd] at h
    | ok t1 =>
      simp only [hadd] at h
      obtain ⟨ft1, hf1, hinv1⟩ := add_refines hinv hdom.1 hadd
      obtain ⟨ft', hf', hinv'⟩ := ih ft1 t1 t' hinv1 (hdom.2 t1 hadd) h
      exact ⟨ft', by simp only [FTask.addAll, bind, Except.bind, hf1]; exact hf', hinv'⟩

/-! ## Well-formed streams are inside the domain -/

mutual
theorem Tree.plain_lookup (u : String) (t : Tree) (lvl : Level) (m : PMsg) (hm : m ∈ Tree.msgs u t lvl)
    (hp : m.atype = none) :
    ∃ p, m.level = lvl ++ p ∧ ∀ (S : PMsg → Bool) x, (Tree.view S u t lvl).bind (Node.lookup p) = some x → x.isAct = false := by
  cases t with
  | leaf b =>
    simp only [Tree.msgs, List.mem_cons, List.not_mem_nil, or_false] at hm
    subst hm
    refine ⟨[], by simp [leafMsg], ?_⟩
    intro S x hx
    simp only [Tree.view, pick] at hx
    split at hx
    · simp [Node.lookup] at hx; subst hx; rfl
    · simp at hx
  | node a sb eb ok kids =>
    simp only [Tree.msgs, List.mem_cons, List.mem_append, List.not_mem_nil, or_false] at hm
    rcases hm with h | h | h
    · subst h; simp [startMsg] at hp
    · obtain ⟨k, p, _, hl, hx⟩ := Forest.plain_lookup u kids lvl 2 m h hp
      refine ⟨k :: p, hl, ?_⟩
      intro S x hh
      simp only [Tree.view] at hh
      split at hh
      · simp at hh
      · simp only [Option.bind_some, Node.lookup_act_cons] at hh
        exact hx S x hh
    · subst h; simp [endMsg] at hp
theorem Forest.plain_lookup (u : String) (f : Forest) (lvl : Level) (k0 : Nat) (m : PMsg)
    (hm : m ∈ Forest.msgs u f lvl k0) (hp : m.atype = none) :
    ∃ k p, k0 ≤ k ∧ m.level = lvl ++ k :: p ∧
      ∀ (S : PMsg → Bool) x, ((Forest.view S u f lvl k0).get? k).bind (Node.lookup p) = some x → x.isAct = false := by
  cases f with
  | nil => simp [Forest.msgs] at hm
  | cons t rest =>
    simp only [Forest.msgs, List.mem_append] at hm
    rcases hm with h | h
    · obtain ⟨p, hl, hx⟩ := Tree.plain_lookup u t (lvl ++ [k0]) m h hp
      refine ⟨k0, p, Nat.le_refl _, by simpa using hl, ?_⟩
      intro S x hh
      rw [Forest.view_get?] at hh
      simp only [Nat.le_refl, if_true, Nat.sub_self, Forest.get?, Option.bind_some] at hh
      exact hx S x hh
    · obtain ⟨k, p, hk, hl, hx⟩ := Forest.plain_lookup u rest lvl (k0+1) m h hp
      refine ⟨k, p, by omega, hl, ?_⟩
      intro S x hh
      apply hx S x
      rw [Forest.view_get?] at hh ⊢
      have h1 : k0 ≤ k := by omega
      have h2 : k - k0 = (k - (k0+1)) + 1 := by omega
      simp only [h1, if_true, h2, Forest.get?] at hh
      simp only [hk, if_true]
      exact hh
end

end PM
