import Eliot.Proofs.HandoverFix
/-! Order of delivery across the repaired hand-over (C12, concurrent clause), for the model
`Eliot.Conc.HandoverFix`: per-thread FIFO.  Messages are ids; which thread logged an id is given by
an `owner` function (`owner m = some i` for the ids of logging thread `i`, `none` for the ids that
were buffered before the threads started), so ids need not even be distinct within a thread. -/
namespace Eliot.Conc.HandoverFix

/-- deliveries to `d` that the message a logger carries still owes -/
def wt (d : Nat) : LPc → Nat
  | .idle => 0
  | .entered _ => 1
  | .iter _ rem => w d rem
  | .call _ x rem => w d (x :: rem)
  | .fwd _ rem => 1 + w d rem
  | .fwdIter _ frem rem => w d frem + w d rem
  | .fwdCall _ k frem rem => ite1 (k = d) + w d frem + w d rem

def carried : LPc → List Nat
  | .idle => []
  | .entered m => [m]
  | .iter m _ => [m]
  | .call m _ _ => [m]
  | .fwd m _ => [m]
  | .fwdIter m _ _ => [m]
  | .fwdCall m _ _ _ => [m]

/-- the message of a logger that `d` has not received yet -/
def infl (d : Nat) (pc : LPc) : List Nat := if wt d pc = 0 then [] else carried pc

/-- the sequence committed to `d` so far, in its final order: the buffer before drain() takes it,
what drain() took while it re-sends it, and what `d` has received afterwards -/
def Q (d : Nat) (s : State) : List Nat :=
  match phase s.addPc with
  | 0 => s.buf
  | 1 => s.drained
  | _ => s.delivered d

/-- the messages of logging thread `i` in a sequence -/
def ofThread (owner : Nat → Option Nat) (i : Nat) (l : List Nat) : List Nat := l.filter (fun m => owner m == some i)

structure InvP (n : Nat) (prog : Nat → List Nat) (owner : Nat → Option Nat) (d : Nat) (s : State) : Prop where
  eq : ∀ i, i < n → ofThread owner i (Q d s) ++ infl d (s.logPc i) ++ s.logPending i = prog i
  wt1 : ∀ i, wt d (s.logPc i) ≤ 1

theorem upd_self {α : Type} (f : Nat → α) (i : Nat) : upd f i (f i) = f := by
  funext x; by_cases h : x = i <;> simp [upd, h]

theorem ofThread_append (owner : Nat → Option Nat) (i : Nat) (a b : List Nat) :
    ofThread owner i (a ++ b) = ofThread owner i a ++ ofThread owner i b := by simp [ofThread]

theorem ofThread_own (owner : Nat → Option Nat) (i : Nat) (ex : List Nat) (h : ∀ m ∈ ex, owner m = some i) :
    ofThread owner i ex = ex := by
  simp only [ofThread, List.filter_eq_self]
  intro m hm; simp [h m hm]

theorem ofThread_other (owner : Nat → Option Nat) (i x : Nat) (ex : List Nat) (h : ∀ m ∈ ex, owner m = some i) (hx : x ≠ i) :
    ofThread owner x ex = [] := by
  simp only [ofThread, List.filter_eq_nil_iff]
  intro m hm; simp [h m hm]; exact fun e => hx e.symm

/-- one step of logger `i0`: the committed sequence grows by `ex` (messages of `i0`), its pc / pending change -/
theorem invP_logger (n : Nat) (prog : Nat → List Nat) (owner : Nat → Option Nat) (d : Nat) (s s' : State) (i0 : Nat)
    (hP : InvP n prog owner d s) (ex : List Nat) (pc' : LPc) (pend' : List Nat)
    (hpc : s'.logPc = upd s.logPc i0 pc') (hpend : s'.logPending = upd s.logPending i0 pend')
    (hQ : Q d s' = Q d s ++ ex) (hex : ∀ m ∈ ex, owner m = some i0)
    (hloc : ex ++ infl d pc' ++ pend' = infl d (s.logPc i0) ++ s.logPending i0)
    (hwt : wt d pc' ≤ 1) : InvP n prog owner d s' := by
  refine ⟨fun x hx => ?_, fun x => ?_⟩
  · by_cases e : x = i0
    · subst e
      have := hP.eq x hx
      rw [hQ, ofThread_append, ofThread_own owner x ex hex, hpc, hpend]
      simp only [upd, ↓reduceIte]
      rw [← this]
      simp only [List.append_assoc] at hloc ⊢
      rw [hloc]
    · have := hP.eq x hx
      rw [hQ, ofThread_append, ofThread_other owner i0 x ex hex e, hpc, hpend]
      simpa [upd, e] using this
  · by_cases e : x = i0
    · subst e; rw [hpc]; simpa [upd] using hwt
    · rw [hpc]; simpa [upd, e] using hP.wt1 x

theorem Q_of_phase2 (d : Nat) (s : State) (h : phase s.addPc = 2) : Q d s = s.delivered d := by simp [Q, h]
theorem Q_of_phase0 (d : Nat) (s : State) (h : phase s.addPc = 0) : Q d s = s.buf := by simp [Q, h]

theorem phase_le2 (pc : APc) : phase pc ≤ 2 := by cases pc <;> simp [phase]

/-- the message a logger still owes to `d` is one of its own -/
theorem carried_own (n : Nat) (prog : Nat → List Nat) (owner : Nat → Option Nat) (d : Nat) (s : State) (i : Nat)
    (hown : ∀ i, i < n → ∀ m ∈ prog i, owner m = some i) (hP : InvP n prog owner d s) (hin : i < n)
    (a : Nat) (hc : carried (s.logPc i) = [a]) (hw : wt d (s.logPc i) ≠ 0) : owner a = some i := by
  have := hP.eq i hin
  refine hown i hin a ?_
  rw [← this]
  simp [infl, hw, hc]

theorem invP_step_logger (n : Nat) (pre : List Nat) (prog : Nat → List Nat) (owner : Nat → Option Nat) (d : Nat)
    (hown : ∀ i, i < n → ∀ m ∈ prog i, owner m = some i)
    (s : State) (i : Nat) (s' : State) (hI : Inv n pre prog d s) (hO : InvO pre d s) (hP : InvP n prog owner d s)
    (hs : step n s (.logger i) = some s') : InvP n prog owner d s' := by
  simp only [step] at hs
  by_cases hin : i < n
  · simp only [hin, ↓reduceIte] at hs
    have hwt0 := hP.wt1 i
    cases hpc : s.logPc i with
    | idle =>
      rw [hpc] at hs
      simp only at hs
      cases hp : s.logPending i with
      | nil => rw [hp] at hs; cases hs
      | cons a r =>
        rw [hp] at hs
        injection hs with hs
        subst hs
        refine invP_logger n prog owner d s _ i hP [] (.entered a) r rfl rfl (by simp [Q]) (by simp) ?_ (by simp [wt])
        simp [infl, wt, carried, hpc, hp]
    | entered a =>
      rw [hpc] at hs
      injection hs with hs
      subst hs
      have hw := hI.wcur
      refine invP_logger n prog owner d s _ i hP [] (.iter a (curList s)) (s.logPending i) rfl (by simp [setL, upd_self])
        (by simp [Q, setL]) (by simp) ?_ (by simp [wt, hw])
      simp [infl, wt, carried, hpc, hw]
    | iter a rem =>
      rw [hpc] at hs hwt0
      cases rem with
      | nil =>
        injection hs with hs
        subst hs
        refine invP_logger n prog owner d s _ i hP [] .idle (s.logPending i) rfl (by simp [setL, upd_self])
          (by simp [Q, setL]) (by simp) ?_ (by simp [wt])
        simp [infl, wt, carried, hpc]
      | cons x r =>
        injection hs with hs
        subst hs
        refine invP_logger n prog owner d s _ i hP [] (.call a x r) (s.logPending i) rfl (by simp [setL, upd_self])
          (by simp [Q, setL]) (by simp) ?_ (by simpa [wt] using hwt0)
        simp [infl, wt, carried, hpc] <;> rfl
    | call a x rem =>
      rw [hpc] at hs hwt0
      cases x with
      | real k =>
        injection hs with hs
        subst hs
        have h2 : phase s.addPc = 2 := by
          have hq : ¬ phase s.addPc ≤ 1 := by
            intro hp
            have := hO.q hp i
            rw [hpc] at this
            simp [quiet] at this
          have := phase_le2 s.addPc
          omega
        simp only [wt, w_cons_real] at hwt0
        by_cases hk : k = d
        · have hw : w d rem = 0 := by simp [hk] at hwt0; omega
          have hown' : owner a = some i :=
            carried_own n prog owner d s i hown hP hin a (by simp [hpc, carried]) (by simp [hpc, wt, w_cons_real, hk])
          refine invP_logger n prog owner d s _ i hP [a] (.iter a rem) (s.logPending i) rfl (by simp [setL, deliver, upd_self])
            ?_ (by simpa using hown') ?_ (by simp [wt, hw])
          · have e1 : Q d (setL (deliver s k a) i (.iter a rem)) = (deliver s k a).delivered d := Q_of_phase2 d _ h2
            rw [e1, Q_of_phase2 d s h2, delivered_deliver]; simp [hk]
          · simp [infl, wt, carried, hpc, hw, w_cons_real, hk]
        · refine invP_logger n prog owner d s _ i hP [] (.iter a rem) (s.logPending i) rfl (by simp [setL, deliver, upd_self])
            ?_ (by simp) ?_ (by simp [hk] at hwt0; simpa [wt] using hwt0)
          · have e1 : Q d (setL (deliver s k a) i (.iter a rem)) = (deliver s k a).delivered d := Q_of_phase2 d _ h2
            rw [e1, Q_of_phase2 d s h2, delivered_deliver]; simp [hk]
          · simp [infl, wt, carried, hpc, w_cons_real, hk] <;> rfl
      | buffer =>
        simp only at hs
        by_cases hl : s.lockHeld = true
        · rw [if_pos hl] at hs; cases hs
        rw [if_neg hl] at hs
        simp only [wt, w_cons_buffer] at hwt0
        by_cases hf : s.forward = true
        · rw [if_pos hf] at hs
          injection hs with hs
          subst hs
          refine invP_logger n prog owner d s _ i hP [] (.fwd a rem) (s.logPending i) rfl (by simp [setL, upd_self])
            (by simp [Q, setL]) (by simp) ?_ (by simpa [wt] using hwt0)
          simp [infl, wt, carried, hpc, w_cons_buffer]
        · rw [if_neg hf] at hs
          injection hs with hs
          subst hs
          have hw : w d rem = 0 := by omega
          have h0 : phase s.addPc = 0 := by
            have hle := phase_le2 s.addPc
            by_cases h1 : phase s.addPc = 1
            · exact absurd (hO.p1 h1).2 hl
            · by_cases h2 : phase s.addPc = 2
              · have : pastDrain s.addPc = true := by
                  cases hp : s.addPc <;> rw [hp] at h2 <;> simp [phase] at h2 <;> rfl
                exact absurd (hI.pd this) hf
              · omega
          have hown' : owner a = some i :=
            carried_own n prog owner d s i hown hP hin a (by simp [hpc, carried]) (by simp [hpc, wt, w_cons_buffer])
          refine invP_logger n prog owner d s _ i hP [a] (.iter a rem) (s.logPending i) rfl (by simp [setL, upd_self])
            ?_ (by simpa using hown') ?_ (by simp [wt, hw])
          · have e1 : Q d (setL { s with buf := s.buf ++ [a] } i (.iter a rem)) = s.buf ++ [a] := Q_of_phase0 d _ h0
            rw [e1, Q_of_phase0 d s h0]
          · simp [infl, wt, carried, hpc, hw, w_cons_buffer]
    | fwd a rem =>
      rw [hpc] at hs hwt0
      injection hs with hs
      subst hs
      have hw := w_fwdList n pre prog d s hI
      simp only [wt] at hwt0
      refine invP_logger n prog owner d s _ i hP [] (.fwdIter a (fwdList s) rem) (s.logPending i) rfl (by simp [setL, upd_self])
        (by simp [Q, setL]) (by simp) ?_ (by simp [wt, hw]; omega)
      simp [infl, wt, carried, hpc, hw]
    | fwdIter a frem rem =>
      rw [hpc] at hs hwt0
      cases frem with
      | nil =>
        injection hs with hs
        subst hs
        refine invP_logger n prog owner d s _ i hP [] (.iter a rem) (s.logPending i) rfl (by simp [setL, upd_self])
          (by simp [Q, setL]) (by simp) ?_ (by simpa [wt] using hwt0)
        simp [infl, wt, carried, hpc] <;> rfl
      | cons x r =>
        cases x with
        | buffer => cases hs
        | real k =>
          injection hs with hs
          subst hs
          refine invP_logger n prog owner d s _ i hP [] (.fwdCall a k r rem) (s.logPending i) rfl (by simp [setL, upd_self])
            (by simp [Q, setL]) (by simp) ?_ (by simpa [wt, w_cons_real, ite1] using hwt0)
          simp [infl, wt, carried, hpc, w_cons_real, ite1]
    | fwdCall a k frem rem =>
      rw [hpc] at hs hwt0
      injection hs with hs
      subst hs
      have h2 : phase s.addPc = 2 := by
        have hq : ¬ phase s.addPc ≤ 1 := by
          intro hp
          have := hO.q hp i
          rw [hpc] at this
          simp [quiet] at this
        have := phase_le2 s.addPc
        omega
      simp only [wt, ite1] at hwt0
      by_cases hk : k = d
      · have hw : w d frem + w d rem = 0 := by simp [hk] at hwt0; omega
        have hown' : owner a = some i :=
          carried_own n prog owner d s i hown hP hin a (by simp [hpc, carried]) (by simp [hpc, wt, ite1, hk])
        refine invP_logger n prog owner d s _ i hP [a] (.fwdIter a frem rem) (s.logPending i) rfl (by simp [setL, deliver, upd_self])
          ?_ (by simpa using hown') ?_ (by simp [wt]; omega)
        · have e1 : Q d (setL (deliver s k a) i (.fwdIter a frem rem)) = (deliver s k a).delivered d := Q_of_phase2 d _ h2
          rw [e1, Q_of_phase2 d s h2, delivered_deliver]; simp [hk]
        · have h1 : w d frem = 0 := by omega
          have h2' : w d rem = 0 := by omega
          simp [infl, wt, carried, hpc, h1, h2', ite1, hk]
      · refine invP_logger n prog owner d s _ i hP [] (.fwdIter a frem rem) (s.logPending i) rfl (by simp [setL, deliver, upd_self])
          ?_ (by simp) ?_ (by simp [hk] at hwt0; simpa [wt] using hwt0)
        · have e1 : Q d (setL (deliver s k a) i (.fwdIter a frem rem)) = (deliver s k a).delivered d := Q_of_phase2 d _ h2
          rw [e1, Q_of_phase2 d s h2, delivered_deliver]; simp [hk]
        · simp [infl, wt, carried, hpc, ite1, hk]
  · simp [hin] at hs

end Eliot.Conc.HandoverFix

namespace Eliot.Conc.HandoverFix

/-- adder steps leave the committed sequence and the loggers as they are -/
theorem invP_adder (n : Nat) (prog : Nat → List Nat) (owner : Nat → Option Nat) (d : Nat) (s s' : State)
    (hP : InvP n prog owner d s) (h1 : s'.logPc = s.logPc) (h2 : s'.logPending = s.logPending) (hQ : Q d s' = Q d s) :
    InvP n prog owner d s' :=
  ⟨fun i hi => by rw [hQ, h1, h2]; exact hP.eq i hi, fun i => by rw [h1]; exact hP.wt1 i⟩

theorem invP_step_adder (n : Nat) (pre : List Nat) (prog : Nat → List Nat) (owner : Nat → Option Nat) (d : Nat)
    (s s' : State) (hO : InvO pre d s) (hP : InvP n prog owner d s) (hs : step n s .adder = some s') :
    InvP n prog owner d s' := by
  simp only [step] at hs
  cases hpc : s.addPc with
  | test =>
    rw [hpc] at hs
    injection hs with hs
    subst hs
    refine invP_adder n prog owner d s _ hP rfl rfl ?_
    by_cases ha : s.anyAdded = true <;> simp [Q, hpc, ha, phase]
  | setAnyAdded =>
    rw [hpc] at hs; injection hs with hs; subst hs
    exact invP_adder n prog owner d s _ hP rfl rfl (by simp [Q, hpc, phase])
  | takeBuffer =>
    rw [hpc] at hs
    by_cases hc : s.cur = true
    · simp [hc] at hs
    · rw [if_neg hc] at hs; injection hs with hs; subst hs
      exact invP_adder n prog owner d s _ hP rfl rfl (by simp [Q, hpc, phase])
  | mkNew =>
    rw [hpc] at hs; injection hs with hs; subst hs
    exact invP_adder n prog owner d s _ hP rfl rfl (by simp [Q, hpc, phase])
  | drainEnter =>
    rw [hpc] at hs
    by_cases hl : s.lockHeld = true
    · rw [if_pos hl] at hs; cases hs
    rw [if_neg hl] at hs; injection hs with hs; subst hs
    exact invP_adder n prog owner d s _ hP rfl rfl (by simp [Q, hpc, phase])
  | resendIter todo =>
    rw [hpc] at hs
    cases todo with
    | nil =>
      injection hs with hs; subst hs
      exact invP_adder n prog owner d s _ hP rfl rfl (by simp [Q, hpc, phase])
    | cons a t =>
      injection hs with hs; subst hs
      exact invP_adder n prog owner d s _ hP rfl rfl (by simp [Q, hpc, phase])
  | resendAtSend a t =>
    rw [hpc] at hs; injection hs with hs; subst hs
    exact invP_adder n prog owner d s _ hP rfl rfl (by simp [Q, hpc, phase])
  | resendNext a rem t =>
    rw [hpc] at hs
    cases rem with
    | nil =>
      injection hs with hs; subst hs
      exact invP_adder n prog owner d s _ hP rfl rfl (by simp [Q, hpc, phase])
    | cons x r =>
      cases x with
      | buffer => cases hs
      | real k =>
        injection hs with hs; subst hs
        exact invP_adder n prog owner d s _ hP rfl rfl (by simp [Q, hpc, phase])
  | resendCall a k rem t =>
    rw [hpc] at hs; injection hs with hs; subst hs
    exact invP_adder n prog owner d s _ hP rfl rfl (by simp [Q, hpc, phase, deliver])
  | release =>
    rw [hpc] at hs
    have h1 := (hO.p1 (by rw [hpc]; rfl)).1
    rw [hpc] at h1
    injection hs with hs; subst hs
    refine invP_adder n prog owner d s _ hP rfl rfl ?_
    simp only [pendingD, List.append_nil] at h1
    simp [Q, hpc, phase, h1]
  | swap =>
    rw [hpc] at hs; injection hs with hs; subst hs
    exact invP_adder n prog owner d s _ hP rfl rfl (by simp [Q, hpc, phase])
  | extend =>
    rw [hpc] at hs
    have hcf := hO.cf (by rw [hpc]; simp)
    simp [hcf] at hs
  | done => rw [hpc] at hs; cases hs

/-- the three invariants together -/
structure InvAll (n : Nat) (pre : List Nat) (prog : Nat → List Nat) (owner : Nat → Option Nat) (d : Nat) (s : State) : Prop where
  i : Inv n pre prog d s
  o : InvO pre d s
  p : InvP n prog owner d s

theorem invAll_run (n : Nat) (pre : List Nat) (prog : Nat → List Nat) (owner : Nat → Option Nat) (ds : List Nat) (d : Nat)
    (hd : ds.count d = 1) (hown : ∀ i, i < n → ∀ m ∈ prog i, owner m = some i)
    (hpre : ∀ m ∈ pre, ∀ i, i < n → owner m ≠ some i) (sched : List Tid) :
    InvAll n pre prog owner d (run n (init pre prog ds) sched) := by
  refine (sys n).inv_run (InvAll n pre prog owner d) ?_ _ ?_ sched
  · intro s t s' h hs
    refine ⟨inv_step n pre prog d s t s' h.i hs, ?_, ?_⟩
    · cases t with
      | logger i => exact invO_step_logger n pre d s i s' h.o hs
      | adder => exact invO_step_adder n pre d s s' h.o hs
    · cases t with
      | logger i => exact invP_step_logger n pre prog owner d hown s i s' h.i h.o h.p hs
      | adder => exact invP_step_adder n pre prog owner d s s' h.o h.p hs
  · refine ⟨inv_init n pre prog ds d hd, invO_init pre prog ds d hd, ⟨fun i hi => ?_, fun i => by simp [init, wt]⟩⟩
    have : ofThread owner i pre = [] := by
      simp only [ofThread, List.filter_eq_nil_iff]
      intro m hm; simpa using hpre m hm i hi
    simp [Q, init, phase, this, infl, wt]

/-- **handover_per_thread_fifo** (repaired skeleton): for any number of logging threads, any
programs, any messages buffered before, any destinations, *every schedule* and every reachable
state: for each destination `d` of the first add and each logging thread `i`, the messages of
thread `i` among what `d` has received are a prefix of `prog i` - in program order, none skipped,
none repeated - and once all threads have finished they are exactly `prog i`. -/
theorem handover_per_thread_fifo (n : Nat) (pre : List Nat) (prog : Nat → List Nat) (owner : Nat → Option Nat)
    (ds : List Nat) (sched : List Tid) (d : Nat) (hd : ds.count d = 1)
    (hown : ∀ i, i < n → ∀ m ∈ prog i, owner m = some i) (hpre : ∀ m ∈ pre, ∀ i, i < n → owner m ≠ some i) :
    let s := run n (init pre prog ds) sched
    (∀ i, i < n → ∃ rest, ofThread owner i (s.delivered d) ++ rest = prog i) ∧
    (Finished n s → ∀ i, i < n → ofThread owner i (s.delivered d) = prog i) := by
  intro s
  have h : InvAll n pre prog owner d s := invAll_run n pre prog owner ds d hd hown hpre sched
  clear_value s
  have hle := phase_le2 s.addPc
  refine ⟨fun i hi => ?_, fun hf i hi => ?_⟩
  · have e := h.p.eq i hi
    by_cases h0 : phase s.addPc = 0
    · exact ⟨prog i, by rw [(h.o.p0 h0).1]; simp [ofThread]⟩
    · by_cases h1 : phase s.addPc = 1
      · have hq : Q d s = s.drained := by simp [Q, h1]
        rw [hq, ← (h.o.p1 h1).1, ofThread_append] at e
        exact ⟨ofThread owner i (pendingD d s.addPc) ++ infl d (s.logPc i) ++ s.logPending i, by
          simpa [List.append_assoc] using e⟩
      · have h2 : phase s.addPc = 2 := by omega
        rw [Q_of_phase2 d s h2] at e
        exact ⟨infl d (s.logPc i) ++ s.logPending i, by simpa [List.append_assoc] using e⟩
  · obtain ⟨hl, ha⟩ := hf
    have e := h.p.eq i hi
    have h2 : phase s.addPc = 2 := by rw [ha]; rfl
    obtain ⟨hp, hc⟩ := hl i hi
    rw [Q_of_phase2 d s h2, hp, hc] at e
    simpa [infl, wt] using e

/-- The pre-buffered messages come first, in their original order (this is `handover_no_overtake`
read at the end of a run): once the adder is past the hand-over, in particular when everything has
finished, what `d` has received is `pre ++ rest`. -/
theorem handover_pre_first (n : Nat) (pre : List Nat) (prog : Nat → List Nat) (ds : List Nat) (sched : List Tid)
    (d : Nat) (hd : ds.count d = 1) :
    let s := run n (init pre prog ds) sched
    (Finished n s → ∃ rest, s.delivered d = pre ++ rest) ∧
    (∃ rest tail, s.delivered d ++ rest = pre ++ tail) := by
  intro s
  have h : (phase s.addPc = 2 → ∃ x later, s.delivered d = pre ++ x ++ later) ∧
      (phase s.addPc = 1 → ∃ x rest, s.delivered d ++ rest = pre ++ x) ∧
      (phase s.addPc = 0 → s.delivered d = []) := handover_no_overtake n pre prog ds sched d hd
  clear_value s
  have hle := phase_le2 s.addPc
  refine ⟨fun hf => ?_, ?_⟩
  · obtain ⟨x, later, e⟩ := h.1 (by rw [hf.2]; rfl)
    exact ⟨x ++ later, by rw [e, List.append_assoc]⟩
  · by_cases h0 : phase s.addPc = 0
    · exact ⟨pre, [], by rw [h.2.2 h0]; simp⟩
    · by_cases h1 : phase s.addPc = 1
      · obtain ⟨x, rest, e⟩ := h.2.1 h1
        exact ⟨rest, x, e⟩
      · obtain ⟨x, later, e⟩ := h.1 (by omega)
        exact ⟨[], x ++ later, by rw [e]; simp⟩

/-! Non-vacuity: two logging threads (ids 10.. of thread 0, 20.. of thread 1), two messages buffered
before, one destination; thread 0 obtains the old list before the add, thread 1 logs while drain()
holds the lock and afterwards. -/
def demoOwner (m : Nat) : Option Nat := if 10 ≤ m ∧ m < 20 then some 0 else if 20 ≤ m ∧ m < 30 then some 1 else none
def demoProg (i : Nat) : List Nat := if i = 0 then [10, 11] else if i = 1 then [20, 21] else []
def demoSched : List Tid :=
  [.logger 0, .logger 0] ++ List.replicate 7 Tid.adder ++ [.logger 1, .logger 1, .logger 1, .logger 1] ++
  List.replicate 6 Tid.adder ++ (List.replicate 40 [Tid.logger 1, .adder, .logger 0]).flatten
def demoRun : State := run 2 (init [1, 2] demoProg [0]) demoSched

example : demoRun.delivered 0 = [1, 2, 10, 20, 11, 21] := by decide +kernel
example : demoRun.addPc = .done ∧ demoRun.logPending 0 = [] ∧ demoRun.logPending 1 = [] := by decide +kernel
example : ofThread demoOwner 0 (demoRun.delivered 0) = demoProg 0 ∧ ofThread demoOwner 1 (demoRun.delivered 0) = demoProg 1 := by
  decide +kernel

end Eliot.Conc.HandoverFix
