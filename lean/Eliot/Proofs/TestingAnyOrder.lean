import Eliot.Proofs.Testing
/-!
# `fromMessages` on an arbitrary arrival order (C17, extension)

`Eliot/Proofs/Testing.lean` assumes that the messages under an action appear in level order.  One
logger can also see a remote continuation (`continue_task`) *after* later siblings of the reserved
position.  Here the messages under `(u, lvl)` are only a **permutation** of the spec sub-tree's
messages (`PCtx`); `fromMessages` then returns `toLoggedIn msgs u t lvl`: same start and end message,
and as children exactly the sub-tree's direct children — each child once, ordered by the position of
its first message in `msgs` (emission order), recursively.
-/
namespace PM.Testing
open PM

/-- own message of a spec message, start message of a spec action -/
def firstOf (u : String) : Tree → Level → PMsg
  | .leaf b, lvl => leafMsg u lvl b
  | .node a sb _ _ _, lvl => startMsg u lvl a sb

mutual
/-- the `LoggedAction` of spec sub-tree `t` at `lvl` with children in the order of `msgs` -/
def toLoggedIn (msgs : List PMsg) (u : String) : Tree → Level → LItem
  | .leaf b, lvl => .msg (leafMsg u lvl b)
  | .node a sb eb ok kids, lvl =>
    .act (startMsg u lvl a sb) (endMsg u lvl a eb ok (kids.len + 2))
      (msgs.filterMap fun m => kidAt msgs u kids lvl 2 m)
/-- the child (of the children `kids`, numbered from `k`) whose first message is `m` -/
def kidAt (msgs : List PMsg) (u : String) : Forest → Level → Nat → PMsg → Option LItem
  | .nil, _, _, _ => none
  | .cons t rest, lvl, k, m =>
    if m == firstOf u t (lvl ++ [k]) then some (toLoggedIn msgs u t (lvl ++ [k]))
    else kidAt msgs u rest lvl (k+1) m
end

/-- the children in level order -/
def toLoggedInF (msgs : List PMsg) (u : String) : Forest → Level → Nat → List LItem
  | .nil, _, _ => []
  | .cons t rest, lvl, k => toLoggedIn msgs u t (lvl ++ [k]) :: toLoggedInF msgs u rest lvl (k+1)

/-- Permuted context: the messages of `msgs` under `(u, lvl)` are those of `t` at `lvl`, in any order. -/
def PCtx (msgs : List PMsg) (u : String) (t : Tree) (lvl : Level) : Prop :=
  (msgs.filter (Under u lvl)).Perm (Tree.msgs u t lvl)

theorem firstOf_prefix (u : String) (t : Tree) (lvl : Level) : lvl <+: (firstOf u t lvl).level := by
  cases t <;> simp [firstOf, leafMsg, startMsg]

theorem firstOf_mem (u : String) (t : Tree) (lvl : Level) : firstOf u t lvl ∈ Tree.msgs u t lvl := by
  cases t <;> simp [firstOf, Tree.msgs]

/-- a message under child number `j` is not the first message of a child numbered `≥ k1 > j` -/
theorem kidAt_none_of_prefix (msgs : List PMsg) (u : String) (lvl : Level) :
    ∀ (rest : Forest) (k1 j : Nat) (m : PMsg), (lvl ++ [j]) <+: m.level → j < k1 →
      kidAt msgs u rest lvl k1 m = none
  | .nil, _, _, _, _, _ => rfl
  | .cons t r, k1, j, m, hp, hj => by
    have hne : m ≠ firstOf u t (lvl ++ [k1]) :=
      ne_of_prefix lvl j k1 m _ hp (firstOf_prefix u t _) (by omega)
    simp only [kidAt, beq_iff_eq, hne, ↓reduceIte]
    exact kidAt_none_of_prefix msgs u lvl r (k1+1) j m hp (by omega)

theorem st_children_nil (st : St) : { st with children := st.children ++ [] } = st := by
  cases st; simp

/-- one iteration on a message of the children -/
theorem step_forest_mem (R : Level → Except Err LItem) (msgs : List PMsg) (u : String) (lvl : Level) :
    ∀ (kids : Forest) (k0 : Nat) (st : St) (m : PMsg), m ∈ Forest.msgs u kids lvl k0 →
    (∀ i a sb eb ok ks, kids.get? i = some (.node a sb eb ok ks) →
        R (lvl ++ [k0 + i] ++ [1]) = .ok (toLoggedIn msgs u (.node a sb eb ok ks) (lvl ++ [k0 + i]))) →
    step R u lvl st m =
      .ok { st with children := st.children ++ (kidAt msgs u kids lvl k0 m).toList }
  | .nil, _, _, _, hm, _ => by simp [Forest.msgs] at hm
  | .cons t rest, k0, st, m, hm, hR => by
    simp only [Forest.msgs, List.mem_append] at hm
    rcases hm with h | h
    · cases t with
      | leaf b =>
        simp only [Tree.msgs, List.mem_cons, List.not_mem_nil, or_false] at h
        subst h
        simp [step_leaf, kidAt, firstOf, toLoggedIn]
      | node a sb eb ok ks =>
        have h0 := hR 0 a sb eb ok ks (by simp [Forest.get?])
        simp only [Nat.add_zero] at h0
        simp only [Tree.msgs, List.mem_cons, List.mem_append, List.not_mem_nil, or_false] at h
        have hdeep : ∀ j r, m.level = lvl ++ k0 :: j :: r → (r ≠ [] ∨ j ≠ 1) →
            step R u lvl st m = .ok { st with children := st.children ++ (kidAt msgs u (.cons (.node a sb eb ok ks) rest) lvl k0 m).toList } := by
          intro j r hl hj
          have hne : m ≠ startMsg u (lvl ++ [k0]) a sb := by
            apply ne_of_level_ne
            rw [hl]; simp only [startMsg, List.append_assoc, List.cons_append, List.nil_append]
            intro e
            have := List.append_cancel_left e
            simp only [List.cons.injEq, true_and] at this
            rcases hj with hj | hj
            · exact hj this.2
            · exact hj this.1
          have hnone := kidAt_none_of_prefix msgs u lvl rest (k0+1) k0 m
            (by rw [hl]; exact ⟨j :: r, by simp⟩) (by omega)
          rw [step_deep R u lvl st m k0 j r hl hj]
          simp [kidAt, firstOf, hne, hnone]
        rcases h with h | h | h
        · subst h
          rw [step_child_start R u lvl st k0 a sb _ h0]
          simp [kidAt, firstOf]
        · obtain ⟨j, hj, r, hr⟩ := Forest.msgs_prefix u ks (lvl ++ [k0]) 2 m h
          cases r with
          | nil => exact hdeep j [] (by rw [← hr]; simp) (Or.inr (by omega))
          | cons x xs => exact hdeep j (x :: xs) (by rw [← hr]; simp) (Or.inl (by simp))
        · subst h
          exact hdeep (ks.len + 2) [] (by simp [endMsg]) (Or.inr (by omega))
    · obtain ⟨k', hk', hp⟩ := Forest.msgs_prefix u rest lvl (k0+1) m h
      have hne : m ≠ firstOf u t (lvl ++ [k0]) :=
        ne_of_prefix lvl k' k0 m _ hp (firstOf_prefix u t _) (by omega)
      have ih := step_forest_mem R msgs u lvl rest (k0+1) st m h (fun i a sb eb ok ks hi => by
        have := hR (i+1) a sb eb ok ks (by simpa [Forest.get?] using hi)
        rwa [show k0 + (i + 1) = k0 + 1 + i by omega] at this)
      rw [ih]
      simp [kidAt, hne]

/-- the start and the end message are nobody's first message -/
theorem kidAt_start (msgs : List PMsg) (u : String) (lvl : Level) (a : String) (sb : Nat) :
    ∀ (kids : Forest) (k : Nat), 2 ≤ k → kidAt msgs u kids lvl k (startMsg u lvl a sb) = none :=
  fun kids k hk => kidAt_none_of_prefix msgs u lvl kids k 1 _ (by simp [startMsg]) (by omega)

theorem kidAt_end (msgs : List PMsg) (u : String) (lvl : Level) (a : String) (eb : Nat) (ok : Bool) :
    ∀ (kids : Forest) (k n : Nat), k + kids.len ≤ n →
      kidAt msgs u kids lvl k (endMsg u lvl a eb ok n) = none
  | .nil, _, _, _ => rfl
  | .cons t r, k, n, h => by
    have hne : endMsg u lvl a eb ok n ≠ firstOf u t (lvl ++ [k]) :=
      ne_of_prefix lvl n k _ _ (by simp [endMsg]) (firstOf_prefix u t _) (by simp [Forest.len] at h; omega)
    simp only [kidAt, beq_iff_eq, hne, ↓reduceIte]
    exact kidAt_end msgs u lvl a eb ok r (k+1) n (by simp [Forest.len] at h; omega)

/-- a first message of a child lies under `(u, lvl)` -/
theorem kidAt_some_under (msgs : List PMsg) (u : String) (lvl : Level) :
    ∀ (kids : Forest) (k : Nat) (m : PMsg), (kidAt msgs u kids lvl k m).isSome → Under u lvl m = true
  | .nil, _, _, h => by simp [kidAt] at h
  | .cons t r, k, m, h => by
    simp only [kidAt] at h
    split at h
    · rename_i he
      have he' : m = firstOf u t (lvl ++ [k]) := by simpa using he
      rw [he', under_iff]
      exact ⟨tree_uuid u t _ _ (firstOf_mem u t _), (List.prefix_append lvl [k]).trans (firstOf_prefix u t _)⟩
    · exact kidAt_some_under msgs u lvl r (k+1) m h

theorem filterMap_congr_mem {α β} (f g : α → Option β) : ∀ (l : List α), (∀ x ∈ l, f x = g x) →
    l.filterMap f = l.filterMap g
  | [], _ => rfl
  | x :: xs, h => by
    simp only [List.filterMap_cons, h x List.mem_cons_self,
      filterMap_congr_mem f g xs (fun y hy => h y (List.mem_cons_of_mem _ hy))]

theorem filterMap_filter_of {α β} (f : α → Option β) (p : α → Bool) (hf : ∀ x, (f x).isSome → p x = true) :
    ∀ (l : List α), (l.filter p).filterMap f = l.filterMap f
  | [] => rfl
  | x :: xs => by
    have ih := filterMap_filter_of f p hf xs
    cases hp : p x with
    | true => simp [hp, List.filterMap_cons, ih]
    | false =>
      have : f x = none := by
        cases hfx : f x with
        | none => rfl
        | some y => have := hf x (by simp [hfx]); rw [hp] at this; cases this
      simp [hp, this, ih]

/-- the loop over any list of messages of the action: last start / end seen, children appended -/
theorem scan_members (R : Level → Except Err LItem) (msgs : List PMsg) (u : String) (lvl : Level)
    (a : String) (sb eb : Nat) (ok : Bool) (kids : Forest)
    (hR : ∀ i a' sb' eb' ok' ks, kids.get? i = some (.node a' sb' eb' ok' ks) →
        R (lvl ++ [2 + i] ++ [1]) = .ok (toLoggedIn msgs u (.node a' sb' eb' ok' ks) (lvl ++ [2 + i]))) :
    ∀ (L : List PMsg) (st : St), (∀ m ∈ L, m ∈ Tree.msgs u (.node a sb eb ok kids) lvl) →
      scan (step R u lvl) st L = .ok
        { start := if startMsg u lvl a sb ∈ L then some (startMsg u lvl a sb) else st.start,
          end_ := if endMsg u lvl a eb ok (kids.len + 2) ∈ L then some (endMsg u lvl a eb ok (kids.len + 2)) else st.end_,
          children := st.children ++ L.filterMap fun m => kidAt msgs u kids lvl 2 m }
  | [], st, _ => by simp [scan]
  | m :: L, st, hL => by
    have hm := hL m List.mem_cons_self
    have ih := fun st' => scan_members R msgs u lvl a sb eb ok kids hR L st'
      (fun x hx => hL x (List.mem_cons_of_mem _ hx))
    have hse : startMsg u lvl a sb ≠ endMsg u lvl a eb ok (kids.len + 2) :=
      ne_of_level_ne (by simp [startMsg, endMsg])
    simp only [Tree.msgs, List.mem_cons, List.mem_append, List.not_mem_nil, or_false] at hm
    simp only [scan]
    rcases hm with h | h | h
    · subst h
      rw [step_start]
      show scan (step R u lvl) _ L = _
      rw [ih]
      have hse' : ¬ endMsg u lvl a eb ok (kids.len + 2) = startMsg u lvl a sb := fun e => hse e.symm
      simp [kidAt_start msgs u lvl a sb kids 2 (by omega), hse']
    · have h1 : m ≠ startMsg u lvl a sb := by
        obtain ⟨k, hk, hp⟩ := Forest.msgs_prefix u kids lvl 2 m h
        exact ne_of_prefix lvl k 1 m _ hp (by simp [startMsg]) (by omega)
      have h2 : m ≠ endMsg u lvl a eb ok (kids.len + 2) := by
        obtain ⟨k, _, hk, hp⟩ := Forest.msgs_prefix_lt u kids lvl 2 m h
        exact ne_of_prefix lvl k (kids.len + 2) m _ hp (by simp [endMsg]) (by omega)
      rw [step_forest_mem R msgs u lvl kids 2 st m h hR]
      show scan (step R u lvl) _ L = _
      rw [ih]
      have h1' : ¬ startMsg u lvl a sb = m := fun e => h1 e.symm
      have h2' : ¬ endMsg u lvl a eb ok (kids.len + 2) = m := fun e => h2 e.symm
      cases hk : kidAt msgs u kids lvl 2 m <;> simp [hk, h1', h2']
    · subst h
      rw [step_end]
      show scan (step R u lvl) _ L = _
      rw [ih]
      simp [kidAt_end msgs u lvl a eb ok kids 2 (kids.len + 2) (by omega), hse]

theorem PCtx.kid {msgs : List PMsg} {u : String} {a : String} {sb eb : Nat} {ok : Bool} {kids : Forest}
    {lvl : Level} (h : PCtx msgs u (.node a sb eb ok kids) lvl) {i : Nat} {t : Tree}
    (hi : kids.get? i = some t) : PCtx msgs u t (lvl ++ [2 + i]) := by
  unfold PCtx at *
  have hsub : msgs.filter (Under u (lvl ++ [2 + i])) =
      (msgs.filter (Under u lvl)).filter (Under u (lvl ++ [2 + i])) := by
    rw [List.filter_filter]
    apply List.filter_congr
    intro m _
    cases hU : Under u (lvl ++ [2 + i]) m with
    | false => simp
    | true => simp [under_snoc u lvl _ m hU]
  rw [hsub]
  refine (h.filter _).trans (List.Perm.of_eq ?_)
  -- filtering the tree's own message list: as in `OCtx.kid`
  have hself : OCtx (Tree.msgs u (.node a sb eb ok kids) lvl) u (.node a sb eb ok kids) lvl := by
    unfold OCtx
    apply filter_all
    intro m hm
    exact (under_iff _ _ _).mpr ⟨tree_uuid u _ _ m hm, Tree.msgs_prefix u _ _ m hm⟩
  have := hself.kid hi
  exact this

mutual
theorem fromMessagesF_node_any (u : String) (t : Tree) :
    ∀ (fuel : Nat) (msgs : List PMsg) (lvl : Level) (a : String) (sb eb : Nat) (ok : Bool) (kids : Forest),
      t = .node a sb eb ok kids → PCtx msgs u t lvl → depth t ≤ fuel →
      fromMessagesF fuel u (lvl ++ [1]) msgs = .ok (toLoggedIn msgs u t lvl) := by
  intro fuel msgs lvl a sb eb ok kids ht hctx hfuel
  subst ht
  cases fuel with
  | zero => simp [depth] at hfuel
  | succ fuel =>
    have hR : ∀ i a' sb' eb' ok' ks, kids.get? i = some (.node a' sb' eb' ok' ks) →
        fromMessagesF fuel u (lvl ++ [2 + i] ++ [1]) msgs =
          .ok (toLoggedIn msgs u (.node a' sb' eb' ok' ks) (lvl ++ [2 + i])) := by
      intro i a' sb' eb' ok' ks hi
      refine fromMessagesF_kids_any u kids i _ hi fuel msgs (lvl ++ [2 + i]) a' sb' eb' ok' ks rfl (hctx.kid hi) ?_
      have := depth_get? kids i _ hi
      simp [depth] at hfuel this ⊢; omega
    have hmem : ∀ m ∈ msgs.filter (Under u lvl), m ∈ Tree.msgs u (.node a sb eb ok kids) lvl :=
      fun m hm => hctx.mem_iff.mp hm
    have hs : startMsg u lvl a sb ∈ msgs.filter (Under u lvl) :=
      hctx.mem_iff.mpr (by simp [Tree.msgs])
    have he : endMsg u lvl a eb ok (kids.len + 2) ∈ msgs.filter (Under u lvl) :=
      hctx.mem_iff.mpr (by simp [Tree.msgs])
    unfold fromMessagesF
    simp only [List.dropLast_concat]
    rw [scan_filter, scan_members (fun l => fromMessagesF fuel u l msgs) msgs u lvl a sb eb ok kids hR _ _ hmem]
    simp only [hs, he, ↓reduceIte, finish, List.nil_append]
    rw [filterMap_filter_of _ _ (fun m hm => kidAt_some_under msgs u lvl kids 2 m hm)]
    simp [toLoggedIn]
theorem fromMessagesF_kids_any (u : String) (f : Forest) :
    ∀ (i : Nat) (t : Tree), f.get? i = some t →
    ∀ (fuel : Nat) (msgs : List PMsg) (lvl : Level) (a : String) (sb eb : Nat) (ok : Bool) (kids : Forest),
      t = .node a sb eb ok kids → PCtx msgs u t lvl → depth t ≤ fuel →
      fromMessagesF fuel u (lvl ++ [1]) msgs = .ok (toLoggedIn msgs u t lvl) := by
  intro i t hi
  cases f with
  | nil => simp [Forest.get?] at hi
  | cons t0 r =>
    cases i with
    | zero =>
      simp only [Forest.get?, Option.some.injEq] at hi
      subst hi
      exact fromMessagesF_node_any u t0
    | succ i =>
      exact fromMessagesF_kids_any u r i t (by simpa [Forest.get?] using hi)
end

/-- **any arrival order**: `fromMessages` returns the action with its direct children in the order
of their first messages in `msgs`. -/
theorem fromMessages_node_any {msgs : List PMsg} {u : String} {lvl : Level} {a : String} {sb eb : Nat}
    {ok : Bool} {kids : Forest} (h : PCtx msgs u (.node a sb eb ok kids) lvl) :
    fromMessages u (lvl ++ [1]) msgs = .ok (toLoggedIn msgs u (.node a sb eb ok kids) lvl) := by
  refine fromMessagesF_node_any u _ msgs.length msgs lvl a sb eb ok kids rfl h ?_
  refine Nat.le_trans (depth_le_length u _ lvl) ?_
  rw [← h.length_eq]; exact List.length_filter_le _ _

/-- in level order the two descriptions coincide -/
theorem toLoggedIn_eq_toLogged {msgs : List PMsg} {u : String} {lvl : Level} {a : String} {sb eb : Nat}
    {ok : Bool} {kids : Forest} (h : OCtx msgs u (.node a sb eb ok kids) lvl) :
    toLoggedIn msgs u (.node a sb eb ok kids) lvl = toLogged u (.node a sb eb ok kids) lvl := by
  have h1 := fromMessages_node h
  have h2 := fromMessages_node_any (show PCtx msgs u _ lvl from List.Perm.of_eq h)
  rw [h1] at h2
  exact (Except.ok.inj h2).symm

/-- the children of `toLoggedIn` are a permutation of the children in level order: each direct
child exactly once, nothing else -/
theorem kids_filterMap (msgs : List PMsg) (u : String) (lvl : Level) :
    ∀ (kids : Forest) (k0 : Nat),
      (Forest.msgs u kids lvl k0).filterMap (fun m => kidAt msgs u kids lvl k0 m) = toLoggedInF msgs u kids lvl k0
  | .nil, _ => by simp [Forest.msgs, toLoggedInF]
  | .cons t rest, k0 => by
    simp only [Forest.msgs, List.filterMap_append, toLoggedInF]
    have hrest : (Forest.msgs u rest lvl (k0+1)).filterMap (fun m => kidAt msgs u (.cons t rest) lvl k0 m) =
        toLoggedInF msgs u rest lvl (k0+1) := by
      rw [← kids_filterMap msgs u lvl rest (k0+1)]
      apply filterMap_congr_mem
      intro m hm
      obtain ⟨k', hk', hp⟩ := Forest.msgs_prefix u rest lvl (k0+1) m hm
      have hne : m ≠ firstOf u t (lvl ++ [k0]) :=
        ne_of_prefix lvl k' k0 m _ hp (firstOf_prefix u t _) (by omega)
      simp [kidAt, hne]
    rw [hrest]
    have hfirst : (Tree.msgs u t (lvl ++ [k0])).filterMap (fun m => kidAt msgs u (.cons t rest) lvl k0 m) =
        [toLoggedIn msgs u t (lvl ++ [k0])] := by
      cases t with
      | leaf b => simp [Tree.msgs, kidAt, firstOf]
      | node a sb eb ok ks =>
        have hother : ∀ m ∈ Forest.msgs u ks (lvl ++ [k0]) 2 ++ [endMsg u (lvl ++ [k0]) a eb ok (ks.len + 2)],
            kidAt msgs u (.cons (.node a sb eb ok ks) rest) lvl k0 m = none := by
          intro m hm
          have hmem : m ∈ Tree.msgs u (.node a sb eb ok ks) (lvl ++ [k0]) := by
            simp only [Tree.msgs, List.mem_cons]; exact Or.inr hm
          have hnd := tree_nodup u (.node a sb eb ok ks) (lvl ++ [k0])
          simp only [Tree.msgs, List.nodup_cons] at hnd
          have hne : m ≠ startMsg u (lvl ++ [k0]) a sb := fun e => hnd.1 (e ▸ hm)
          have hnone := kidAt_none_of_prefix msgs u lvl rest (k0+1) k0 m
            (Tree.msgs_prefix u _ _ m hmem) (by omega)
          simp [kidAt, firstOf, hne, hnone]
        have : (Forest.msgs u ks (lvl ++ [k0]) 2 ++ [endMsg u (lvl ++ [k0]) a eb ok (ks.len + 2)]).filterMap
            (fun m => kidAt msgs u (.cons (.node a sb eb ok ks) rest) lvl k0 m) = [] := by
          apply List.filterMap_eq_nil_iff.mpr
          exact hother
        rw [show Tree.msgs u (.node a sb eb ok ks) (lvl ++ [k0]) = [startMsg u (lvl ++ [k0]) a sb] ++
          (Forest.msgs u ks (lvl ++ [k0]) 2 ++ [endMsg u (lvl ++ [k0]) a eb ok (ks.len + 2)]) from rfl,
          List.filterMap_append, this]
        simp [kidAt, firstOf]
    rw [hfirst]; rfl

theorem children_perm {msgs : List PMsg} {u : String} {lvl : Level} {a : String} {sb eb : Nat}
    {ok : Bool} {kids : Forest} (h : PCtx msgs u (.node a sb eb ok kids) lvl) :
    (toLoggedIn msgs u (.node a sb eb ok kids) lvl).children.Perm (toLoggedInF msgs u kids lvl 2) := by
  simp only [toLoggedIn, LItem.children]
  rw [← filterMap_filter_of _ _ (fun m hm => kidAt_some_under msgs u lvl kids 2 m hm)]
  refine (h.filterMap _).trans (List.Perm.of_eq ?_)
  simp only [Tree.msgs, List.filterMap_cons, List.filterMap_append, List.filterMap_nil,
    kidAt_start msgs u lvl a sb kids 2 (by omega),
    kidAt_end msgs u lvl a eb ok kids 2 (kids.len + 2) (by omega), kids_filterMap]
  simp

/-! ## the same tree up to the order of children -/
mutual
/-- `Sim x y`: same messages, same actions with the same start and end message, and at every action
the children of `x` are a permutation of the children of `y` (which are similar in turn) -/
inductive Sim : LItem → LItem → Prop
  | msg (m : PMsg) : Sim (.msg m) (.msg m)
  | act (s e : PMsg) (ch mid ch' : List LItem) : ch.Perm mid → SimL mid ch' → Sim (.act s e ch) (.act s e ch')
inductive SimL : List LItem → List LItem → Prop
  | nil : SimL [] []
  | cons (x y : LItem) (xs ys : List LItem) : Sim x y → SimL xs ys → SimL (x :: xs) (y :: ys)
end

mutual
theorem sim_tree (msgs : List PMsg) (u : String) (t : Tree) :
    ∀ (lvl : Level), PCtx msgs u t lvl → Sim (toLoggedIn msgs u t lvl) (toLogged u t lvl) := by
  intro lvl h
  cases t with
  | leaf b => exact Sim.msg _
  | node a sb eb ok kids =>
    have hp := children_perm h
    simp only [toLoggedIn, LItem.children] at hp
    simp only [toLoggedIn, toLogged]
    exact Sim.act _ _ _ _ _ hp (sim_forest msgs u kids lvl 2 (fun i t hi => h.kid hi))
theorem sim_forest (msgs : List PMsg) (u : String) (f : Forest) :
    ∀ (lvl : Level) (k0 : Nat), (∀ i t, f.get? i = some t → PCtx msgs u t (lvl ++ [k0 + i])) →
      SimL (toLoggedInF msgs u f lvl k0) (toLoggedF u f lvl k0) := by
  intro lvl k0 h
  cases f with
  | nil => exact SimL.nil
  | cons t r =>
    have h0 := h 0 t (by simp [Forest.get?])
    simp only [Nat.add_zero] at h0
    simp only [toLoggedInF, toLoggedF]
    refine SimL.cons _ _ _ _ (sim_tree msgs u t _ h0) (sim_forest msgs u r lvl (k0+1) (fun i t' hi => ?_))
    have := h (i+1) t' (by simpa [Forest.get?] using hi)
    rwa [show k0 + (i + 1) = k0 + 1 + i by omega] at this
end

/-! ## every started message starts a sub-action of the spec tree -/
theorem pre_kid : ∀ (f : Forest) (lvl : Level) (k0 i : Nat) (t : Tree), f.get? i = some t →
    ∀ p ∈ pre t (lvl ++ [k0 + i]), p ∈ preF f lvl k0
  | .nil, _, _, _, _, h => by simp [Forest.get?] at h
  | .cons t0 r, lvl, k0, 0, t, h => by
    simp only [Forest.get?, Option.some.injEq] at h; subst h
    intro p hp; simp only [preF, List.mem_append]; exact Or.inl (by simpa using hp)
  | .cons t0 r, lvl, k0, i+1, t, h => by
    intro p hp
    have := pre_kid r lvl (k0+1) i t (by simpa [Forest.get?] using h) p
      (by rwa [show k0 + 1 + i = k0 + (i + 1) by omega])
    simp only [preF, List.mem_append]; exact Or.inr this

mutual
theorem started_in_tree_any (u : String) (t : Tree) :
    ∀ (msgs : List PMsg) (lvl : Level), PCtx msgs u t lvl →
      ∀ m ∈ Tree.msgs u t lvl, m.status = some "started" →
        ∃ lvl' a sb eb ok kids, PCtx msgs u (.node a sb eb ok kids) lvl' ∧ m = startMsg u lvl' a sb ∧
          (Tree.node a sb eb ok kids, lvl') ∈ pre t lvl := by
  intro msgs lvl hctx m hm hst
  cases t with
  | leaf b =>
    simp only [Tree.msgs, List.mem_cons, List.not_mem_nil, or_false] at hm
    subst hm; simp [leafMsg] at hst
  | node a sb eb ok kids =>
    simp only [Tree.msgs, List.mem_cons, List.mem_append, List.not_mem_nil, or_false] at hm
    rcases hm with h | h | h
    · exact ⟨lvl, a, sb, eb, ok, kids, hctx, h, by simp [pre]⟩
    · obtain ⟨lvl', a', sb', eb', ok', kids', h1, h2, h3⟩ :=
        started_in_forest_any u kids msgs lvl 2 (fun i t hi => hctx.kid hi) m h hst
      exact ⟨lvl', a', sb', eb', ok', kids', h1, h2, by simp only [pre, List.mem_cons]; exact Or.inr h3⟩
    · subst h; cases ok <;> simp [endMsg] at hst
theorem started_in_forest_any (u : String) (f : Forest) :
    ∀ (msgs : List PMsg) (lvl : Level) (k0 : Nat),
      (∀ i t, f.get? i = some t → PCtx msgs u t (lvl ++ [k0 + i])) →
      ∀ m ∈ Forest.msgs u f lvl k0, m.status = some "started" →
        ∃ lvl' a sb eb ok kids, PCtx msgs u (.node a sb eb ok kids) lvl' ∧ m = startMsg u lvl' a sb ∧
          (Tree.node a sb eb ok kids, lvl') ∈ preF f lvl k0 := by
  intro msgs lvl k0 hctx m hm hst
  cases f with
  | nil => simp [Forest.msgs] at hm
  | cons t0 r =>
    simp only [Forest.msgs, List.mem_append] at hm
    rcases hm with h | h
    · have h0 := hctx 0 t0 (by simp [Forest.get?])
      simp only [Nat.add_zero] at h0
      obtain ⟨lvl', a', sb', eb', ok', kids', h1, h2, h3⟩ := started_in_tree_any u t0 msgs _ h0 m h hst
      exact ⟨lvl', a', sb', eb', ok', kids', h1, h2, by simp only [preF, List.mem_append]; exact Or.inl h3⟩
    · obtain ⟨lvl', a', sb', eb', ok', kids', h1, h2, h3⟩ :=
        started_in_forest_any u r msgs lvl (k0+1) (fun i t hi => by
          have := hctx (i+1) t (by simpa [Forest.get?] using hi)
          rwa [show k0 + (i + 1) = k0 + 1 + i by omega] at this) m h hst
      exact ⟨lvl', a', sb', eb', ok', kids', h1, h2, by simp only [preF, List.mem_append]; exact Or.inr h3⟩
end

theorem actOf_node_any {msgs : List PMsg} {u : String} {lvl : Level} {a : String} {sb eb : Nat}
    {ok : Bool} {kids : Forest} (h : PCtx msgs u (.node a sb eb ok kids) lvl) :
    actOf msgs (startMsg u lvl a sb) = toLoggedIn msgs u (.node a sb eb ok kids) lvl := by
  have := fromMessages_node_any h
  simp only [actOf]
  have e : (startMsg u lvl a sb).uuid = u ∧ (startMsg u lvl a sb).level = lvl ++ [1] := ⟨rfl, rfl⟩
  rw [e.1, e.2, this]

end PM.Testing
