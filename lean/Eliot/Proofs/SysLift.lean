import Eliot.Proofs.SysFrame
/-! A generic induction principle over programs: a reflexive–transitive relation on worlds that
every primitive of the core model satisfies is satisfied by every statement and block. -/
namespace Sys

mutual
/-- the statement contains no `add_destinations` / `remove_destination` / `add_global_fields` -/
def Stmt.noCfg : Stmt → Bool
  | .withAction _ _ b => b.noCfg
  | .tryCatch b h => b.noCfg && h.noCfg
  | .withHandle _ b => b.noCfg
  | .inContext _ b => b.noCfg
  | .runIn _ b => b.noCfg
  | .continueWith _ _ b => b.noCfg
  | .addDests _ => false
  | .removeDest _ => false
  | .addGlobals _ => false
  | _ => true
def Block.noCfg : Block → Bool
  | .nil => true
  | .cons s r => s.noCfg && r.noCfg
end

/-- What a relation must satisfy to be lifted to programs (`env` fixed). -/
structure Prim (env : Env) (G : World → World → Prop) : Prop where
  refl : ∀ w, G w w
  trans : ∀ {a b c}, G a b → G b c → G a c
  startAction : ∀ w task sp, G w (w.startAction env task sp).1
  continueTask : ∀ w y u lvl sp, lookupNat w.ids y = some (u, lvl) →
    G w (World.continueTask env ({ w with ids := w.ids.filter (fun e => e.1 != y) } : World) u lvl sp).1
  logMessage : ∀ w ms, G w (w.logMessage env ms)
  logTo : ∀ w h ms, G w (w.logTo env h ms)
  writeTraceback : ∀ w e, G w (w.writeTraceback env e)
  finishRec : ∀ w h exc, G w (w.finishRec env h exc)
  setCtx : ∀ w c, G w { w with ctx := c }
  setVars : ∀ w v, G w { w with vars := v }
  reserve : ∀ w h a y, w.acts[h]? = some a → G w { (w.nextLevel h).1 with ids := setNat (w.nextLevel h).1.ids y (a.uuid, (w.nextLevel h).2) }
  probe : ∀ w p, G w { w with probes := p }
  succ : ∀ w h a fs, w.acts[h]? = some a → G w { w with acts := w.acts.set h { a with succ := a.succ.update fs } }

/-- …and additionally for the configuration statements. -/
structure PrimCfg (env : Env) (G : World → World → Prop) : Prop where
  addDests : ∀ w ds, G w (w.addDests env ds)
  removeDest : ∀ w d, G w { w with dests := w.dests.erase d }
  addGlobals : ∀ w fs, G w { w with globals := w.globals.update fs }

theorem withBlock_lift {env : Env} {G : World → World → Prop} (hp : Prim env G) (w : World) (h : Nat)
    (run : World → World × Outcome) (hrun : ∀ w', G w' (run w').1) : G w (withBlock env w h run).1 := by
  unfold withBlock
  exact hp.trans (hp.setCtx w (some h)) (hp.trans (hrun _) (hp.trans (hp.setCtx _ w.ctx) (hp.finishRec _ _ _)))

theorem scopedBlock_lift {env : Env} {G : World → World → Prop} (hp : Prim env G) (w : World) (h : Nat)
    (run : World → World × Outcome) (hrun : ∀ w', G w' (run w').1) : G w (scopedBlock w h run).1 := by
  unfold scopedBlock
  exact hp.trans (hp.setCtx w (some h)) (hp.trans (hrun _) (hp.setCtx _ w.ctx))

mutual
theorem execS_lift {env : Env} {G : World → World → Prop} (hp : Prim env G) (cur : Option Exc) (w : World) (s : Stmt)
    (hc : s.noCfg = true ∨ PrimCfg env G) : G w (execS env cur w s).1 := by
  cases s with
  | withAction task sp body =>
    simp only [execS]
    have hc' : body.noCfg = true ∨ PrimCfg env G := hc.imp (by simp [Stmt.noCfg]) id
    exact hp.trans (hp.startAction w task sp) (withBlock_lift hp _ _ _ (fun w' => execB_lift hp cur w' body hc'))
  | log ms => exact hp.logMessage w ms
  | raise i => exact hp.refl w
  | tryCatch body handler =>
    simp only [execS]
    have hb' : body.noCfg = true ∨ PrimCfg env G := hc.imp (by simp [Stmt.noCfg]; intro a _; exact a) id
    have hh' : handler.noCfg = true ∨ PrimCfg env G := hc.imp (by simp [Stmt.noCfg]) id
    have hb := execB_lift hp cur w body hb'
    split
    · rename_i w1 e heq
      rw [heq] at hb
      exact hp.trans hb (execB_lift hp (some e) w1 handler hh')
    · exact hb
  | writeTraceback =>
    simp only [execS]
    cases cur with
    | none => exact hp.refl w
    | some e => exact hp.writeTraceback w e
  | startAs x task sp =>
    simp only [execS]
    exact hp.trans (hp.startAction w task sp) (hp.setVars _ _)
  | withHandle x body =>
    simp only [execS]
    have hc' : body.noCfg = true ∨ PrimCfg env G := hc.imp (by simp [Stmt.noCfg]) id
    cases lookupNat w.vars x with
    | none => exact hp.refl w
    | some h => exact withBlock_lift hp _ _ _ (fun w' => execB_lift hp cur w' body hc')
  | inContext x body =>
    simp only [execS]
    have hc' : body.noCfg = true ∨ PrimCfg env G := hc.imp (by simp [Stmt.noCfg]) id
    cases lookupNat w.vars x with
    | none => exact hp.refl w
    | some h => exact scopedBlock_lift hp _ _ _ (fun w' => execB_lift hp cur w' body hc')
  | runIn x body =>
    simp only [execS]
    have hc' : body.noCfg = true ∨ PrimCfg env G := hc.imp (by simp [Stmt.noCfg]) id
    cases lookupNat w.vars x with
    | none => exact hp.refl w
    | some h => exact scopedBlock_lift hp _ _ _ (fun w' => execB_lift hp cur w' body hc')
  | finish x exc =>
    simp only [execS]
    cases lookupNat w.vars x with
    | none => exact hp.refl w
    | some h => exact hp.finishRec w h _
  | addSuccess x fs =>
    simp only [execS]
    split
    · rename_i h _
      split
      · rename_i a ha; exact hp.succ w h a fs ha
      · exact hp.refl w
    · exact hp.refl w
  | logTo x ms =>
    simp only [execS]
    cases lookupNat w.vars x with
    | none => exact hp.refl w
    | some h => exact hp.logTo w h ms
  | serializeAs y x =>
    simp only [execS]
    split
    · rename_i h _
      split
      · rename_i a ha; exact hp.reserve w h a y ha
      · exact hp.refl w
    · exact hp.refl w
  | continueWith y sp body =>
    simp only [execS]
    have hc' : body.noCfg = true ∨ PrimCfg env G := hc.imp (by simp [Stmt.noCfg]) id
    cases hl : lookupNat w.ids y with
    | none => exact hp.refl w
    | some p =>
      obtain ⟨u, lvl⟩ := p
      exact hp.trans (hp.continueTask w y u lvl sp hl) (withBlock_lift hp _ _ _ (fun w' => execB_lift hp cur w' body hc'))
  | addDests ds =>
    rcases hc with hc | hc
    · simp [Stmt.noCfg] at hc
    · exact hc.addDests w ds
  | removeDest d =>
    rcases hc with hc | hc
    · simp [Stmt.noCfg] at hc
    · simp only [execS]; split
      · exact hc.removeDest w d
      · exact hp.refl w
  | addGlobals fs =>
    rcases hc with hc | hc
    · simp [Stmt.noCfg] at hc
    · exact hc.addGlobals w fs
  | probe n => exact hp.probe w _
theorem execB_lift {env : Env} {G : World → World → Prop} (hp : Prim env G) (cur : Option Exc) (w : World) (b : Block)
    (hc : b.noCfg = true ∨ PrimCfg env G) : G w (execB env cur w b).1 := by
  cases b with
  | nil => exact hp.refl w
  | cons s rest =>
    simp only [execB]
    have hs' : s.noCfg = true ∨ PrimCfg env G := hc.imp (by simp [Block.noCfg]; intro a _; exact a) id
    have hr' : rest.noCfg = true ∨ PrimCfg env G := hc.imp (by simp [Block.noCfg]) id
    have hs := execS_lift hp cur w s hs'
    split
    · rename_i w1 heq
      rw [heq] at hs
      exact hp.trans hs (execB_lift hp cur w1 rest hr')
    · exact hs
end

end Sys
