import Eliot.Conc.FileLines
namespace Eliot.Conc.FileLines

/-- the line of the call in progress that has not reached the file yet -/
def unwritten (pc : Option (Line × List FOp)) : List Line :=
  match pc with
  | none => []
  | some (l, rem) => if writes rem = [] then [] else [l]

def Inv (prog : Nat → List Line) (s : State) : Prop :=
  s.content = render s.log ∧
  ∀ t, (match s.pc t with
        | none => True
        | some (_, rem) => writes rem = [] ∨ writes rem = [.writeWhole]) ∧
       linesOf s.log t ++ unwritten (s.pc t) ++ s.pending t = prog t

theorem inv_init (prog : Nat → List Line) : Inv prog (init prog) := by
  simp [Inv, init, render, linesOf, unwritten]

theorem render_snoc (log : List (Nat × Line)) (t : Nat) (l : Line) : render (log ++ [(t, l)]) = render log ++ (l ++ [10]) := by
  simp [render]

theorem linesOf_snoc_self (log : List (Nat × Line)) (t : Nat) (l : Line) : linesOf (log ++ [(t, l)]) t = linesOf log t ++ [l] := by
  simp [linesOf, List.filter_append]

theorem linesOf_snoc_ne (log : List (Nat × Line)) (t x : Nat) (l : Line) (h : ¬ t = x) : linesOf (log ++ [(t, l)]) x = linesOf log x := by
  simp [linesOf, List.filter_append, h]

theorem inv_step (ops : List FOp) (h1 : OneWritePerLine ops) (prog : Nat → List Line) (s : State) (t : Nat) (s' : State)
    (hi : Inv prog s) (hs : step ops s t = some s') : Inv prog s' := by
  obtain ⟨hc, ht⟩ := hi
  unfold step at hs
  cases hpc : s.pc t with
  | none =>
    rw [hpc] at hs
    simp only at hs
    cases hp : s.pending t with
    | nil => rw [hp] at hs; simp at hs
    | cons l rest =>
      rw [hp] at hs
      injection hs with hs
      subst hs
      refine ⟨hc, fun x => ?_⟩
      by_cases hx : x = t
      · subst hx
        have := (ht x).2
        rw [hpc, hp] at this
        have hw : writes ops = [.writeWhole] := h1
        simp [upd, hw, unwritten] at this ⊢
        exact this
      · simpa [upd, hx] using ht x
  | some p =>
    obtain ⟨l, rem⟩ := p
    rw [hpc] at hs
    cases rem with
    | nil =>
      injection hs with hs
      subst hs
      refine ⟨hc, fun x => ?_⟩
      by_cases hx : x = t
      · subst hx
        have := (ht x).2
        rw [hpc] at this
        simpa [upd, unwritten, writes] using this
      · simpa [upd, hx] using ht x
    | cons o os =>
      injection hs with hs
      subst hs
      have hto := ht t
      rw [hpc] at hto
      obtain ⟨hw, heq⟩ := hto
      by_cases ho : o = .writeWhole
      · subst ho
        have hos : writes os = [] := by
          rcases hw with hw | hw
          · simp [writes] at hw
          · simpa [writes] using hw
        refine ⟨?_, fun x => ?_⟩
        · simp [hc, render_snoc, chunk]
        · by_cases hx : x = t
          · subst hx
            simp only [↓reduceIte, upd]
            refine ⟨Or.inl hos, ?_⟩
            rw [linesOf_snoc_self]
            simp [unwritten, hos]
            simpa [unwritten, writes] using heq
          · have hx' : ¬ t = x := fun h => hx h.symm
            simp only [↓reduceIte, upd, hx]
            rw [linesOf_snoc_ne _ _ _ _ hx']
            exact ht x
      · -- any other operation must be a flush: another write contradicts "one write per line"
        have hfl : o = .flush := by
          cases o with
          | writeWhole => exact absurd rfl ho
          | flush => rfl
          | writeBody => rcases hw with hw | hw <;> simp [writes] at hw
          | writeBreak => rcases hw with hw | hw <;> simp [writes] at hw
        subst hfl
        have hwos : writes (FOp.flush :: os) = writes os := by simp [writes]
        refine ⟨?_, fun x => ?_⟩
        · simp [hc, chunk]
        · by_cases hx : x = t
          · subst hx
            simp only [upd, ↓reduceIte, reduceCtorEq]
            refine ⟨by rw [← hwos]; exact hw, ?_⟩
            simpa [unwritten, hwos] using heq
          · simpa [upd, hx] using ht x

theorem inv_run (ops : List FOp) (h1 : OneWritePerLine ops) (prog : Nat → List Line) (sched : List Nat) :
    Inv prog (run ops (init prog) sched) :=
  (sys ops).inv_run (Inv prog) (fun s t s' h hs => inv_step ops h1 prog s t s' h hs) _ (inv_init prog) sched

end Eliot.Conc.FileLines
