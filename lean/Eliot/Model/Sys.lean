/-!
# Sequential core model: `_action.py` + `_output.py` (`Logger`, `Destinations`) + `_errors.py` +
`_traceback.py` at message level.  Shared by C01–C04, C06–C08, C12, C13, C17.

Everything here is a transliteration of a named Python function; the try/except structure of
the output layer is reproduced construct by construct.  User callbacks (destinations, field
serializers, exception extractors, `str()` of exceptions) are oracles in `Env`, indexed by call
number so that "fails on any subset of calls" and "non-idempotent" are expressible.
No Mathlib.  All functions are total and structurally recursive.
-/
namespace Sys

abbrev Level := List Nat

/-- Exception instances. `user i` is the i-th application exception object (identity = `i`);
`keyError k` is the `KeyError` raised by `message[key]` in `_MessageSerializer.serialize`. -/
inductive Exc where
  | user (id : Nat)
  | keyError (key : String)
deriving DecidableEq, Repr, Inhabited

/-- Field values, as far as any property distinguishes them. -/
inductive FV where
  | nat (n : Nat)
  | str (s : String)
  | obj (id : Nat)                 -- opaque application object
  | lvl (l : Level)                -- a task_level
  | ts (tick : Nat)                -- value of the tick-th clock read
  | uuid (u : Nat)                 -- the u-th uuid4()
  | exc (e : Exc)                  -- an exception instance (unserialized traceback `reason`)
  | cls (c : Nat)                  -- an exception class (unserialized traceback `exception`)
  | tbtext (e : Exc)               -- formatted traceback text of `e`
  | serOut (sid k : Nat) (v : FV)  -- result of the k-th serializer call, serializer `sid`, on `v`
  | render (keys : List String)    -- `_safe_unicode_dictionary(d)`, reduced to the keys of `d`
deriving DecidableEq, Repr, Inhabited

abbrev Fields := List (String × FV)

/-- `d[k] = v` on an insertion-ordered dict. -/
def Fields.set : Fields → String → FV → Fields
  | [], k, v => [(k, v)]
  | (k', v') :: r, k, v => if k' = k then (k, v) :: r else (k', v') :: Fields.set r k v

def Fields.get? : Fields → String → Option FV
  | [], _ => none
  | (k', v') :: r, k => if k' = k then some v' else Fields.get? r k

/-- `d.update(e)` -/
def Fields.update (d e : Fields) : Fields := e.foldl (fun acc kv => acc.set kv.1 kv.2) d

def Fields.keys (d : Fields) : List String := d.map (·.1)

abbrev Msg := Fields

/-! ## Environment: the application's callbacks as oracles -/
structure Env where
  /-- class of an application exception -/
  classOf : Nat → Nat
  /-- `inspect.getmro(cls)`, most specific first, including `cls` itself -/
  mro : Nat → List Nat
  /-- module-qualified class name -/
  qualname : Nat → String
  /-- `str(e)`; `none` = `__str__` raises -/
  strOf : Nat → Option String
  /-- class id of the builtin `KeyError` -/
  keyErrorClass : Nat
  /-- registered extractor for exactly this class: `none` = not registered; the function gets the
  exception and the global extractor-call index; `error e'` = the extractor raises `e'` -/
  extractor : Nat → Option (Exc → Nat → Except Exc Fields)
  /-- field serializer `sid` applied to a value on the k-th serializer call overall -/
  serialize : Nat → FV → Nat → Except Exc FV
  /-- destination `d` on its k-th call: `some e` = raises `e` -/
  destFails : Nat → Nat → Option Exc

def Exc.cls (env : Env) : Exc → Nat
  | .user i => env.classOf i
  | .keyError _ => env.keyErrorClass

/-- `safeunicode(e)` -/
def Exc.safeStr (env : Env) : Exc → String
  | .user i => (env.strOf i).getD "eliot: unknown, str() raised exception"
  | .keyError k => "'" ++ k ++ "'"

def Exc.qual (env : Env) (e : Exc) : String := env.qualname (e.cls env)

/-! ## State -/
structure Act where
  uuid : Nat
  level : Level
  /-- last component of `_last_child`; `0` = `None` -/
  last : Nat := 0
  finished : Bool := false
  succ : Fields := []
  atype : String := ""
  /-- `_serializers`: (start, success) declared (key, serializer id) lists; failure is built in -/
  sers : Option (List (String × Nat) × List (String × Nat)) := none
deriving Repr

structure World where
  acts : List Act := []
  /-- `_ACTION_CONTEXT` of the one thread this model runs -/
  ctx : Option Nat := none
  tick : Nat := 0
  nextUuid : Nat := 0
  serCalls : Nat := 0
  extCalls : Nat := 0
  /-- `Destinations`: registered real destinations, `_any_added`, the buffer, global fields -/
  dests : List Nat := []
  anyAdded : Bool := false
  buffer : List Msg := []
  globals : Fields := []
  destCalls : List (Nat × Nat) := []
  /-- observation logs: every destination call and whether it was accepted -/
  offered : List (Nat × Msg) := []
  accepted : List (Nat × Msg) := []
  /-- the dicts that reached `Destinations.send`, in order (reports included) -/
  stage : List Msg := []
  /-- handle variables of the program: name ↦ index into `acts`; task ids: name ↦ (uuid, level) -/
  vars : List (Nat × Nat) := []
  ids : List (Nat × (Nat × Level)) := []
  /-- instrumentation: `current_action()` sampled by `probe n` statements: (uuid, level, action type) -/
  probes : List (Nat × Option (Nat × Level × String)) := []
  /-- ghost: every position handed out by `_nextTaskLevel`, as (action handle, position), in order -/
  slots : List (Nat × Nat) := []
  /-- ghost: the position handed out by the most recent `_nextTaskLevel`, until a message is
  delivered (staged and offered or buffered) for it -/
  lastSlot : Option (Nat × Nat) := none
  /-- ghost: `offered`, each call with the slot the offered message was built for -/
  offeredAt : List (Nat × Msg × Option (Nat × Nat)) := []
  /-- ghost: `buffer`, each message with the slot it was built for -/
  bufferAt : List (Msg × Option (Nat × Nat)) := []
  /-- ghost: the buffered entries the running `Destinations.add` has still to re-deliver -/
  pendingAt : List (Msg × Option (Nat × Nat)) := []
  /-- ghost: some `Destinations.add` left a destination registered twice -/
  dupAdd : Bool := false
  /-- ghost, parallel to `stage`: the registered destinations (`dests`) at the moment the entry was staged -/
  stageAt : List (List Nat) := []
deriving Repr

def lookupNat {α} : List (Nat × α) → Nat → Option α
  | [], _ => none
  | (k, v) :: r, x => if k = x then some v else lookupNat r x

def setNat {α} : List (Nat × α) → Nat → α → List (Nat × α)
  | [], k, v => [(k, v)]
  | (k', v') :: r, k, v => if k' = k then (k, v) :: r else (k', v') :: setNat r k v

def DESTINATION_FAILURE : String := "eliot:destination_failure"

/-! ## `Destinations.send`, layer 0: the fan-out loop (lines 82–96) -/

/-- One destination call: record it, consult the oracle. Returns the error if it raised. -/
def World.callDest (env : Env) (w : World) (d : Nat) (m : Msg) : World × Option Exc :=
  let k := (lookupNat w.destCalls d).getD 0
  let w1 := { w with destCalls := setNat w.destCalls d (k + 1), offered := w.offered ++ [(d, m)],
                     offeredAt := w.offeredAt ++ [(d, m, w.lastSlot)] }
  match env.destFails d k with
  | none => ({ w1 with accepted := w1.accepted ++ [(d, m)] }, none)
  | some e => (w1, some e)

/-- `for dest in self._destinations: try: dest(message) except Exception as e: ...` -/
def World.fanOut (env : Env) (w : World) (m : Msg) : List Nat → World × List Exc
  | [] => (w, [])
  | d :: ds =>
    let r := w.callDest env d m
    let r2 := World.fanOut env r.1 m ds
    (r2.1, (match r.2 with | some e => [e] | none => []) ++ r2.2)

def trim1000 (l : List Msg) : List Msg := l.drop (l.length - 1000)

/-- `trim1000` on the ghost copy of the buffer -/
def trimAt (l : List (Msg × Option (Nat × Nat))) : List (Msg × Option (Nat × Nat)) := l.drop (l.length - 1000)

/-- ghost: the list has a repeated element -/
def hasDup : List Nat → Bool
  | [] => false
  | x :: xs => xs.contains x || hasDup xs

/-- The body of `send` up to and including the loop; `BufferingDestination` is the destination
while nothing was ever added.  Returns the (unreported) errors of this message. -/
def World.deliver (env : Env) (w : World) (m : Msg) : World × Msg × List Exc :=
  let m' := Fields.update m w.globals
  let w0 := { w with stage := w.stage ++ [m'], stageAt := w.stageAt ++ [w.dests] }
  if w0.anyAdded then
    let r := World.fanOut env w0 m' w0.dests
    let isReport := m'.get? "message_type" == some (.str DESTINATION_FAILURE)
    ({ r.1 with lastSlot := none }, m', if isReport then [] else r.2)
  else
    ({ w0 with buffer := trim1000 (w0.buffer ++ [m']), bufferAt := trimAt (w0.bufferAt ++ [(m', w0.lastSlot)]),
               lastSlot := none }, m', [])

/-! ## position counter -/

/-- `Action._nextTaskLevel` of action `h`. -/
def World.nextLevel (w : World) (h : Nat) : World × Level :=
  match w.acts[h]? with
  | some a => ({ w with acts := w.acts.set h { a with last := a.last + 1 }, slots := w.slots ++ [(h, a.last + 1)],
                        lastSlot := some (h, a.last + 1) },
      a.level ++ [a.last + 1])
  | none => (w, [])

def World.clock (w : World) : World × FV := ({ w with tick := w.tick + 1 }, .ts w.tick)

/-- The action a context-less `log_message` creates: `Action(logger, str(uuid4()), TaskLevel([]), "")`. -/
def World.freshAction (w : World) (atype : String) (sers : Option (List (String × Nat) × List (String × Nat))) :
    World × Nat :=
  let h := w.acts.length
  ({ w with acts := w.acts ++ [{ uuid := w.nextUuid, level := [], atype := atype, sers := sers }],
            nextUuid := w.nextUuid + 1 }, h)

/-- `action = current_action(); if action is None: action = Action(..fresh..)` of `log_message`. -/
def World.currentOrFresh (w : World) : World × Nat :=
  match w.ctx with
  | some h => (w, h)
  | none => w.freshAction "" none

/-- `Action.log(message_type, **fields)` up to (not including) `logger.write`: builds the dict. -/
def World.buildLog (w : World) (h : Nat) (mtype : String) (fields : Fields) : World × Msg :=
  let c := w.clock
  let u := ((c.1.acts[h]?).map Act.uuid).getD 0
  let r := c.1.nextLevel h
  (r.1, (((fields.set "timestamp" c.2).set "task_uuid" (.uuid u)).set "task_level" (.lvl r.2)).set "message_type" (.str mtype))

/-- `log_message(...)` of a `eliot:destination_failure` report: current (or fresh) action, next
position, no serializer, fan-out; errors while delivering a report are *not* collected
(`deliver` drops them because `message_type` is the report type), so this layer does not recurse.
Trusted base: global fields do not override `message_type`. -/
def World.logReport (env : Env) (w : World) (fields : Fields) : World :=
  let r := w.currentOrFresh
  let b := r.1.buildLog r.2 DESTINATION_FAILURE fields
  (b.1.deliver env b.2).1

def reportFields (env : Env) (e : Exc) (m : Msg) : Fields :=
  [("reason", .str (e.safeStr env)), ("exception", .str (e.qual env)), ("message", .render m.keys)]

/-- `for exception in errors: ... log_message(**new_msg)` (lines 98–119): one report per error. -/
def World.reportAll (env : Env) (w : World) (m : Msg) : List Exc → World
  | [] => w
  | e :: es => World.reportAll env (w.logReport env (reportFields env e m)) m es

/-- `Destinations.send(message)`. -/
def World.send (env : Env) (w : World) (m : Msg) : World :=
  let r := w.deliver env m
  r.1.reportAll env r.2.1 r.2.2

/-- `log_message(mtype, **fields)` with no (user) serializer: build in the current context, send. -/
def World.logNoSer (env : Env) (w : World) (mtype : String) (fields : Fields) : World :=
  let r := w.currentOrFresh
  let b := r.1.buildLog r.2 mtype fields
  b.1.send env b.2

/-! ## exception extraction and tracebacks (`_errors.py`, `_traceback.py`) -/

def firstExtractor (env : Env) : List Nat → Option (Exc → Nat → Except Exc Fields)
  | [] => none
  | c :: cs => match env.extractor c with
    | some f => some f
    | none => firstExtractor env cs

/-- `TRACEBACK_MESSAGE(**extra).bind(reason=exception, traceback=tb, exception=typ)` after its own
serializer ran (`safeunicode`, `safeunicode`, qualified class name; it cannot fail): the extracted
fields first, the traceback's own three fields over them. -/
def tracebackFields (env : Env) (e : Exc) (extra : Fields) : Fields :=
  Fields.update extra [("reason", .str (e.safeStr env)), ("traceback", .tbtext e), ("exception", .str (e.qual env))]

/-- `get_fields_for_exception(logger, e)`: the extractor registered for the nearest class in the
MRO; if it raises, `except: write_traceback(logger); return {}` — and while that failure is being
logged no extractor is consulted (`_LOGGING_EXTRACTOR_FAILURE`), so the traceback of the
extractor's own exception carries no extracted fields and the function does not recurse. -/
def World.getFields (env : Env) (w : World) (e : Exc) : World × Fields :=
  match firstExtractor env (env.mro (e.cls env)) with
  | none => (w, [])
  | some f =>
    let w1 := { w with extCalls := w.extCalls + 1 }
    match f e w.extCalls with
    | .ok fs => (w1, fs)
    | .error e' => (w1.logNoSer env "eliot:traceback" (tracebackFields env e' []), [])

/-- `write_traceback(logger)` for the exception being handled. -/
def World.writeTraceback (env : Env) (w : World) (e : Exc) : World :=
  let g := World.getFields env w e
  g.1.logNoSer env "eliot:traceback" (tracebackFields env e g.2)

/-! ## `Logger.write` -/

/-- `_MessageSerializer.serialize(message)`, user-declared fields in declaration order (the
`forValue` constants re-set values that are already there). -/
def serializeFields (env : Env) : World → List (String × Nat) → Msg → World × Except Exc Msg
  | w, [], m => (w, .ok m)
  | w, (key, sid) :: r, m =>
    match m.get? key with
    | none => (w, .error (.keyError key))
    | some v =>
      let w1 := { w with serCalls := w.serCalls + 1 }
      match env.serialize sid v w.serCalls with
      | .ok v' => serializeFields env w1 r (m.set key v')
      | .error e => (w1, .error e)

/-- `Logger.write(dictionary, serializer)`: copy, serialize, on any exception
`write_traceback` + `eliot:serialization_failure` and return; otherwise `send`. -/
def World.loggerWrite (env : Env) (w : World) (m : Msg) (sers : Option (List (String × Nat))) : World :=
  match sers with
  | none => w.send env m
  | some ss =>
    let r := serializeFields env w ss m
    match r.2 with
    | .ok m' => r.1.send env m'
    | .error e =>
      (r.1.writeTraceback env e).logNoSer env "eliot:serialization_failure" [("message", .render m.keys)]

/-! ## `Action` -/

/-- `Action._start(fields)` -/
def World.startRec (env : Env) (w : World) (h : Nat) (fields : Fields) : World :=
  match w.acts[h]? with
  | none => w
  | some a =>
    let c := w.clock
    let f1 := (fields.set "action_status" (.str "started")).set "timestamp" c.2
    let f2 := (f1.set "task_uuid" (.uuid a.uuid)).set "action_type" (.str a.atype)
    let r := c.1.nextLevel h
    r.1.loggerWrite env (f2.set "task_level" (.lvl r.2)) (a.sers.map (·.1))

/-- `Action.finish(exception)` -/
def World.finishRec (env : Env) (w : World) (h : Nat) (exc : Option Exc) : World :=
  match w.acts[h]? with
  | none => w
  | some a =>
    if a.finished then w else
    let w1 := { w with acts := w.acts.set h { a with finished := true } }
    match exc with
    | none =>
      let c := w1.clock
      let f1 := (a.succ.set "action_status" (.str "succeeded")).set "timestamp" c.2
      let f2 := (f1.set "task_uuid" (.uuid a.uuid)).set "action_type" (.str a.atype)
      let r := c.1.nextLevel h
      r.1.loggerWrite env (f2.set "task_level" (.lvl r.2)) (a.sers.map (·.2))
    | some e =>
      let g := World.getFields env w1 e
      let f0 := ((g.2.set "exception" (.str (e.qual env))).set "reason" (.str (e.safeStr env))).set "action_status" (.str "failed")
      let c := g.1.clock
      let f1 := f0.set "timestamp" c.2
      let f2 := (f1.set "task_uuid" (.uuid a.uuid)).set "action_type" (.str a.atype)
      let r := c.1.nextLevel h
      -- failure serializer: only `forValue`/identity fields
      r.1.loggerWrite env (f2.set "task_level" (.lvl r.2)) (a.sers.map (fun _ => []))

structure Spec where
  atype : String
  fields : Fields := []
  sers : Option (List (String × Nat) × List (String × Nat)) := none
deriving Repr

structure MSpec where
  mtype : String
  fields : Fields := []
  sers : Option (List (String × Nat)) := none
deriving Repr

/-- `start_action(...)` / `start_task(...)` (`task = true`): create, then `_start`. Returns the handle. -/
def World.startAction (env : Env) (w : World) (task : Bool) (sp : Spec) : World × Nat :=
  match (if task then none else w.ctx) with
  | none =>
    let r := w.freshAction sp.atype sp.sers
    (r.1.startRec env r.2 sp.fields, r.2)
  | some p =>
    match w.acts[p]? with
    | none => (w, p)          -- unreachable: the context always holds a valid handle
    | some pa =>
      let r := w.nextLevel p
      let h := r.1.acts.length
      let w1 : World := { r.1 with acts := r.1.acts ++ [({ uuid := pa.uuid, level := r.2, atype := sp.atype, sers := sp.sers } : Act)] }
      (w1.startRec env h sp.fields, h)

/-- `Action.continue_task(task_id=(u, lvl), action_type=.., **fields)` -/
def World.continueTask (env : Env) (w : World) (u : Nat) (lvl : Level) (sp : Spec) : World × Nat :=
  let h := w.acts.length
  let w1 : World := { w with acts := w.acts ++ [({ uuid := u, level := lvl, atype := sp.atype, sers := sp.sers } : Act)] }
  (w1.startRec env h sp.fields, h)

/-- `log_message(mtype, **fields)` / `MessageType.log(**fields)` -/
def World.logMessage (env : Env) (w : World) (ms : MSpec) : World :=
  let r := w.currentOrFresh
  let b := r.1.buildLog r.2 ms.mtype ms.fields
  b.1.loggerWrite env b.2 ms.sers

/-- `action.log(mtype, **fields)` on an explicit handle -/
def World.logTo (env : Env) (w : World) (h : Nat) (ms : MSpec) : World :=
  let b := w.buildLog h ms.mtype ms.fields
  b.1.loggerWrite env b.2 ms.sers

/-- ghost step of the re-delivery loop: the next buffered entry's slot becomes the pending one -/
def World.popPending (w : World) : World :=
  { w with lastSlot := w.pendingAt.head?.bind (·.2), pendingAt := w.pendingAt.tail }

/-- `Destinations.add(*ds)`; the first call re-delivers the buffered messages (ghost: each with the
slot it was built for) -/
def World.addDests (env : Env) (w : World) (ds : List Nat) : World :=
  if w.anyAdded then { w with dests := w.dests ++ ds, dupAdd := w.dupAdd || hasDup (w.dests ++ ds) }
  else
    let w1 := { w with anyAdded := true, dests := ds, buffer := [], pendingAt := w.bufferAt, bufferAt := [],
                       dupAdd := w.dupAdd || hasDup ds }
    w.buffer.foldl (fun acc m => acc.popPending.send env m) w1

/-! ## Programs -/
inductive Outcome where
  | ok
  | raised (e : Exc)
  | stuck            -- API misuse the generators never produce (unbound handle, …)
deriving DecidableEq, Repr

mutual
inductive Stmt where
  | withAction (task : Bool) (sp : Spec) (body : Block)   -- `with start_action(..)/start_task(..)/ActionType(..):`
  | log (ms : MSpec)
  | raise (i : Nat)                                        -- raise the i-th application exception
  | tryCatch (body handler : Block)                        -- `except BaseException:` handler
  | writeTraceback                                         -- inside a handler
  | startAs (x : Nat) (task : Bool) (sp : Spec)            -- `x = start_action(..)` (not entered)
  | withHandle (x : Nat) (body : Block)                    -- `with x:`
  | inContext (x : Nat) (body : Block)                     -- `with x.context():`
  | runIn (x : Nat) (body : Block)                         -- `x.run(lambda: body)`
  | finish (x : Nat) (exc : Option Nat)                    -- `x.finish(exc)`
  | addSuccess (x : Option Nat) (fs : Fields)              -- `x.add_success_fields(**fs)`; none = current_action()
  | logTo (x : Nat) (ms : MSpec)                           -- `x.log(..)`
  | serializeAs (y : Nat) (x : Option Nat)                 -- `y = x.serialize_task_id()`; none = current_action()
  | continueWith (y : Nat) (sp : Spec) (body : Block)      -- `with Action.continue_task(task_id=y, ..):`
  | addDests (ds : List Nat)
  | removeDest (d : Nat)
  | addGlobals (fs : Fields)
  | probe (n : Nat)                                        -- record `current_action()`
inductive Block where
  | nil
  | cons (s : Stmt) (rest : Block)
end

def outcomeExc : Outcome → Option Exc
  | .raised e => some e
  | _ => none

/-- `with <action h>:` given the already created/started action: enter, body, exit (reset context
*then* finish). `run` is the execution of the body. -/
def withBlock (env : Env) (w : World) (h : Nat) (run : World → World × Outcome) : World × Outcome :=
  let old := w.ctx
  let r := run { w with ctx := some h }
  (World.finishRec env { r.1 with ctx := old } h (outcomeExc r.2), r.2)

def scopedBlock (w : World) (h : Nat) (run : World → World × Outcome) : World × Outcome :=
  let old := w.ctx
  let r := run { w with ctx := some h }
  ({ r.1 with ctx := old }, r.2)

mutual
/-- `cur` = the exception being handled (for `write_traceback()`). -/
def execS (env : Env) (cur : Option Exc) (w : World) : Stmt → World × Outcome
  | .withAction task sp body =>
    let r := w.startAction env task sp
    withBlock env r.1 r.2 (fun w' => execB env cur w' body)
  | .log ms => (w.logMessage env ms, .ok)
  | .raise i => (w, .raised (.user i))
  | .tryCatch body handler =>
    match execB env cur w body with
    | (w1, .raised e) => execB env (some e) w1 handler
    | r => r
  | .writeTraceback =>
    match cur with
    | some e => (w.writeTraceback env e, .ok)
    | none => (w, .stuck)
  | .startAs x task sp =>
    let r := w.startAction env task sp
    ({ r.1 with vars := setNat r.1.vars x r.2 }, .ok)
  | .withHandle x body =>
    match lookupNat w.vars x with
    | some h => withBlock env w h (fun w' => execB env cur w' body)
    | none => (w, .stuck)
  | .inContext x body =>
    match lookupNat w.vars x with
    | some h => scopedBlock w h (fun w' => execB env cur w' body)
    | none => (w, .stuck)
  | .runIn x body =>
    match lookupNat w.vars x with
    | some h => scopedBlock w h (fun w' => execB env cur w' body)
    | none => (w, .stuck)
  | .finish x exc =>
    match lookupNat w.vars x with
    | some h => (w.finishRec env h (exc.map Exc.user), .ok)
    | none => (w, .stuck)
  | .addSuccess x fs =>
    match (match x with | some x => lookupNat w.vars x | none => w.ctx) with
    | some h =>
      (match w.acts[h]? with
       | some a => ({ w with acts := w.acts.set h { a with succ := a.succ.update fs } }, .ok)
       | none => (w, .stuck))
    | none => (w, .stuck)
  | .logTo x ms =>
    match lookupNat w.vars x with
    | some h => (w.logTo env h ms, .ok)
    | none => (w, .stuck)
  | .serializeAs y x =>
    match (match x with | some x => lookupNat w.vars x | none => w.ctx) with
    | some h =>
      (match w.acts[h]? with
       | some a =>
         let r := w.nextLevel h
         ({ r.1 with ids := setNat r.1.ids y (a.uuid, r.2) }, .ok)
       | none => (w, .stuck))
    | none => (w, .stuck)
  | .continueWith y sp body =>
    match lookupNat w.ids y with
    | some (u, lvl) =>
      -- each serialized id is continued at most once (the property's precondition): using it consumes it
      let r := ({ w with ids := w.ids.filter (fun e => e.1 != y) } : World).continueTask env u lvl sp
      withBlock env r.1 r.2 (fun w' => execB env cur w' body)
    | none => (w, .stuck)
  | .addDests ds => (w.addDests env ds, .ok)
  | .removeDest d => if d ∈ w.dests then ({ w with dests := w.dests.erase d }, .ok) else (w, .stuck)
  | .addGlobals fs => ({ w with globals := w.globals.update fs }, .ok)
  | .probe n =>
    ({ w with probes := w.probes ++ [(n, w.ctx.bind fun h => (w.acts[h]?).map fun a => (a.uuid, a.level, a.atype))] }, .ok)
def execB (env : Env) (cur : Option Exc) (w : World) : Block → World × Outcome
  | .nil => (w, .ok)
  | .cons s rest =>
    match execS env cur w s with
    | (w1, .ok) => execB env cur w1 rest
    | r => r
end

end Sys
