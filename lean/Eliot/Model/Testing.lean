import Eliot.Model.Parse
/-!
# Model of `eliot/testing.py` (C17): `LoggedAction`, `LoggedMessage`, the assert helpers

A captured message is a `PM.PMsg` (`task_uuid`, `task_level`, `action_type`, `action_status`, and
`body` = the identity of the dictionary in `MemoryLogger.messages`).  Everything else the helpers
read from a dictionary (`message_type`, the key/value pairs) comes from a table `info : Nat → Info`
indexed by `body`.  Values are compared through a canonical rendering (a `String`).

Every function is a transliteration of the Python loop of the same name; `ValueError` / `KeyError`
branches are `Except` errors, `AssertionError`s of the assert helpers are `AFail` values.
No Mathlib, no `partial`.
-/
namespace PM.Testing
open PM

/-- a dictionary as an association list (keys distinct); `lookup` is `dict.get` -/
abbrev Fields := List (String × String)

structure Info where
  mtype : Option String := none
  fields : Fields := []
deriving Repr, Inhabited

/-- `LoggedMessage` (`msg`) / `LoggedAction` (`act startMessage endMessage children`) -/
inductive LItem where
  | msg (m : PMsg)
  | act (s e : PMsg) (ch : List LItem)
deriving Repr, Inhabited

inductive Err where
  | missingStart   -- ValueError("Missing start message")
  | missingEnd     -- ValueError("Missing end message of type ...")
  | keyError       -- a subscript `message[FIELD]` on a dictionary without that field
  | fuel           -- recursion budget exhausted (never for fuel = number of messages, see C17)
deriving DecidableEq, Repr

def isCompleted (st : Option String) : Bool := st == some "succeeded" || st == some "failed"

/-- loop state of `fromMessages`: `startMessage`, `endMessage`, `children` -/
structure St where
  start : Option PMsg := none
  end_ : Option PMsg := none
  children : List LItem := []

/-- One iteration of the `for message in messages` loop of `LoggedAction.fromMessages`;
`pre` is `levelPrefix = level[:-1]`, `recur l` is `klass.fromMessages(uuid, l, messages)`. -/
def step (recur : Level → Except Err LItem) (uuid : String) (pre : Level) (st : St) (m : PMsg) :
    Except Err St :=
  if m.uuid != uuid then .ok st                                   -- different task altogether
  else if m.level.dropLast == pre then                            -- messageLevel[:-1] == levelPrefix
    if m.status == some "started" then .ok { st with start := some m }
    else if isCompleted m.status then .ok { st with end_ := some m }
    else .ok { st with children := st.children ++ [.msg m] }
  else if m.level.length == pre.length + 2 && m.level.dropLast.dropLast == pre
            && m.level.getLast? == some 1 then                    -- first message of a direct child
    match recur m.level with
    | .ok c => .ok { st with children := st.children ++ [c] }
    | .error e => .error e
  else .ok st

def scan (f : St → PMsg → Except Err St) : St → List PMsg → Except Err St
  | st, [] => .ok st
  | st, m :: ms =>
    match f st m with
    | .ok st' => scan f st' ms
    | .error e => .error e

def finish (st : St) : Except Err LItem :=
  match st.start, st.end_ with
  | none, _ => .error .missingStart
  | some _, none => .error .missingEnd
  | some s, some e => .ok (.act s e st.children)

/-- `LoggedAction.fromMessages(uuid, level, messages)` with a recursion budget. -/
def fromMessagesF : Nat → String → Level → List PMsg → Except Err LItem
  | 0, _, _, _ => .error .fuel
  | fuel + 1, uuid, level, msgs =>
    match scan (step (fun l => fromMessagesF fuel uuid l msgs) uuid level.dropLast) {} msgs with
    | .ok st => finish st
    | .error e => .error e

/-- `LoggedAction.fromMessages`: every recursive call descends to a strictly longer level that
occurs in `msgs`, so `msgs.length` calls are enough. -/
def fromMessages (uuid : String) (level : Level) (msgs : List PMsg) : Except Err LItem :=
  fromMessagesF msgs.length uuid level msgs

/-- the loop of `LoggedAction.of_type` over the remaining messages (`all` = the whole list) -/
def ofTypeGo (all : List PMsg) (ty : String) : List PMsg → Except Err (List LItem)
  | [] => .ok []
  | m :: rest =>
    if m.atype == some ty then
      match m.status with
      | none => .error .keyError                                  -- message[ACTION_STATUS_FIELD]
      | some st =>
        if st == "started" then
          match fromMessages m.uuid m.level all with
          | .error e => .error e
          | .ok a =>
            match ofTypeGo all ty rest with
            | .error e => .error e
            | .ok r => .ok (a :: r)
        else ofTypeGo all ty rest
    else ofTypeGo all ty rest

/-- `LoggedAction.of_type(messages, actionType)` -/
def ofType (msgs : List PMsg) (ty : String) : Except Err (List LItem) := ofTypeGo msgs ty msgs

/-- `LoggedAction.succeeded` (for a `LoggedMessage` the attribute does not exist: `none`) -/
def LItem.succeeded? : LItem → Option Bool
  | .msg _ => none
  | .act _ e _ => some (e.status == some "succeeded")

def LItem.children : LItem → List LItem
  | .msg _ => []
  | .act _ _ ch => ch

mutual
/-- `LoggedAction.descendants()` -/
def LItem.descendants : LItem → List LItem
  | .msg _ => []
  | .act _ _ ch => descendantsL ch
def descendantsL : List LItem → List LItem
  | [] => []
  | c :: cs => c :: (c.descendants ++ descendantsL cs)
end

/-- result of `type_tree()`: `{action_type: [child, …]}`, a child being a message type or a dict -/
inductive TT where
  | leaf (ty : String)
  | node (ty : String) (ch : List TT)
deriving Repr, Inhabited

mutual
/-- `LoggedAction.type_tree()`; on a child `LoggedMessage` the entry `message[MESSAGE_TYPE_FIELD]` -/
def typeTree (info : Nat → Info) : LItem → Except Err TT
  | .msg m =>
    match (info m.body).mtype with
    | some t => .ok (.leaf t)
    | none => .error .keyError
  | .act s _ ch =>
    match typeTreeL info ch with
    | .error e => .error e
    | .ok cs =>
      match s.atype with
      | some a => .ok (.node a cs)
      | none => .error .keyError
def typeTreeL (info : Nat → Info) : List LItem → Except Err (List TT)
  | [] => .ok []
  | c :: cs =>
    match typeTree info c with
    | .error e => .error e
    | .ok t =>
      match typeTreeL info cs with
      | .error e => .error e
      | .ok ts => .ok (t :: ts)
end

/-- `LoggedMessage.of_type(messages, messageType)` (the result list of `LoggedMessage`s) -/
def lmOfType (info : Nat → Info) (ty : String) : List PMsg → List LItem
  | [] => []
  | m :: rest =>
    if (info m.body).mtype == some ty then .msg m :: lmOfType info ty rest else lmOfType info ty rest

/-- `issuperset(a, b)`: every pair of `b` is a pair of `a` -/
def issuperset (a b : Fields) : Bool := b.all fun p => a.lookup p.1 == some p.2

/-- dictionary equality -/
def dictEq (a b : Fields) : Bool :=
  (a.all fun p => b.lookup p.1 == some p.2) && (b.all fun p => a.lookup p.1 == some p.2)

/-- `assertContainsFields`: `{k: v for k, v in message.items() if k in fields} == fields` -/
def containsFields (message fields : Fields) : Bool :=
  dictEq (message.filter fun p => (fields.lookup p.1).isSome) fields

/-- which assertion of an assert helper failed -/
inductive AFail where
  | raised (e : Err)   -- `of_type` raised
  | noneOfType         -- assertTrue(actions / messages)
  | wrongStatus        -- assertEqual(action.succeeded, succeeded)
  | startFields        -- assertContainsFields(action.startMessage, startFields)
  | endFields          -- assertContainsFields(action.endMessage, endFields)
  | fields             -- assertContainsFields(loggedMessage.message, fields)
deriving DecidableEq, Repr

/-- `assertHasAction(testCase, logger, actionType, succeeded, startFields, endFields)`
(`None` for the field arguments is `[]`). -/
def assertHasAction (info : Nat → Info) (msgs : List PMsg) (ty : String) (succeeded : Bool)
    (startFields endFields : Fields) : Except AFail LItem :=
  match ofType msgs ty with
  | .error e => .error (.raised e)
  | .ok [] => .error .noneOfType
  | .ok (.msg _ :: _) => .error .noneOfType   -- unreachable: `ofType` only returns actions
  | .ok (.act s e ch :: _) =>
    if (e.status == some "succeeded") != succeeded then .error .wrongStatus
    else if !containsFields (info s.body).fields startFields then .error .startFields
    else if !containsFields (info e.body).fields endFields then .error .endFields
    else .ok (.act s e ch)

/-- `assertHasMessage(testCase, logger, messageType, fields)` -/
def assertHasMessage (info : Nat → Info) (msgs : List PMsg) (ty : String) (fields : Fields) :
    Except AFail LItem :=
  match lmOfType info ty msgs with
  | [] => .error .noneOfType
  | .act .. :: _ => .error .noneOfType        -- unreachable: `lmOfType` only returns messages
  | .msg m :: _ =>
    if !containsFields (info m.body).fields fields then .error .fields else .ok (.msg m)

end PM.Testing
