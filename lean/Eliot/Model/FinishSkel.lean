/-!
# The statements of `Action.finish`, `Action._start` and `Action.log`, as data (extractor E14)

`lean/Eliot/Generated/Finish.lean` lists, in source order, what `Action.finish` does to the dictionary it writes: one `W` per
statement.  `Properties/C03Fin.lean` gives each `W` its meaning in the core model and proves that `World.finishRec` is exactly
the interpretation of the generated lists.
-/
namespace Eliot.FinishSkel

inductive W where
  | fromSuccessFields            -- fields = self._successFields
  | fromExtractorCopy            -- fields = dict(get_fields_for_exception(self._logger, exception))
  | status (s : String)          -- fields[ACTION_STATUS_FIELD] = <constant>
  | exception                    -- fields[EXCEPTION_FIELD] = "%s.%s" % (module, name)
  | reason                       -- fields[REASON_FIELD] = safeunicode(exception)
  | serializer (which : String)  -- if self._serializers is not None: serializer = self._serializers.<which>
  | timestamp                    -- fields[TIMESTAMP_FIELD] = time.time()
  | identification               -- fields.update(self._identification)   ({task_uuid, action_type}, in that order)
  | taskLevel                    -- fields[TASK_LEVEL_FIELD] = self._nextTaskLevel().as_list()
  | write                        -- self._logger.write(fields, serializer)
  | taskUuid                     -- fields[TASK_UUID_FIELD] = self._identification[TASK_UUID_FIELD]     (Action.log)
  | messageType                  -- fields[MESSAGE_TYPE_FIELD] = message_type                           (Action.log)
  | popLogger                    -- logger = fields.pop("__eliot_logger__", self._logger)               (Action.log)
  | writePop                     -- logger.write(fields, fields.pop("__eliot_serializer__", None))      (Action.log)
  | serializerStart              -- if self._serializers is None: serializer = None else: serializer = self._serializers.start
  | other (src : String)         -- anything else: nothing provable
deriving DecidableEq, Repr

end Eliot.FinishSkel
