/-!
# The few Python list operations the generated translation of `TaskLevel` uses

`lean/Eliot/Generated/TaskLevel.lean` is produced from `eliot/_action.py` by
`harness/extractors/e10_tasklevel.py`; it refers to the operations below, which give the meaning of
the Python statements the translator accepts.
-/
namespace PyList

/-- `x[-1] += k` on a list of naturals.  On the empty list Python raises `IndexError`; the
translation keeps the list unchanged there, and `Properties/C02TL.lean` only ever states facts about
non-empty lists (`Action._nextTaskLevel` applies `next_sibling` only to what `child` returned). -/
def incrLast (l : List Nat) (k : Nat) : List Nat :=
  match l.getLast? with
  | some v => l.dropLast ++ [v + k]
  | none => l

/-- What the translator emits for a function whose source it does not recognise: an opaque value, so
that nothing can be proved about it and the obligations fail (no axiom: `opaque` needs only that the
type is inhabited). -/
opaque unrecognised {α : Type} [Inhabited α] : α

theorem incrLast_append (l : List Nat) (n k : Nat) : incrLast (l ++ [n]) k = l ++ [n + k] := by
  simp [incrLast]

end PyList
