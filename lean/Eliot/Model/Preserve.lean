import Eliot.Model.Sys
/-!
# `preserve_context` over the sequential core model (property C06, `preserve_passthrough`)

```
def preserve_context(f):
    action = current_action()
    if action is None:
        return f
    task_id = action.serialize_task_id()
    called = threading.Lock()
    def restore_eliot_context(*args, **kwargs):
        if not called.acquire(False):
            raise TooManyCalls(f)
        with Action.continue_task(task_id=task_id):
            return f(*args, **kwargs)
    return restore_eliot_context
```
The function `f` is a program block; the closure cell `task_id` is the id variable `y`.  The guard
(`called`) is the subject of `Eliot/Conc/Once.lean`; `Callable.call` is the call that passed it.
Blocks have outcomes (`ok` / `raised e` with the identity of `e`) but no return values: that the
*value* returned by `f` is handed back is checked on the real code by the harness oracle.
No Mathlib.
-/
namespace Sys

/-- what `preserve_context(f)` returns -/
inductive Callable where
  /-- `return f`: the function object itself -/
  | fn (f : Block)
  /-- the closure `restore_eliot_context`, holding `task_id` (id variable `y`) and `f` -/
  | restore (y : Nat) (f : Block)

/-- `preserve_context(f)` in state `w`.  `none`: the context variable holds an invalid handle
(API misuse the model calls `stuck`; unreachable from the initial state). -/
def preserveContext (env : Env) (cur : Option Exc) (w : World) (y : Nat) (f : Block) : World × Option Callable :=
  match w.ctx with
  | none => (w, some (.fn f))
  | some _ =>
    match execS env cur w (.serializeAs y none) with
    | (w1, .ok) => (w1, some (.restore y f))
    | (w1, _) => (w1, none)

/-- the (one) call of the callable that passes the guard, in state `w` (any thread, any later time) -/
def Callable.call (env : Env) (cur : Option Exc) (w : World) : Callable → World × Outcome
  | .fn f => execB env cur w f
  | .restore y f => execS env cur w (.continueWith y { atype := "eliot:remote_task" } f)

end Sys
