/-! Prototype of the parser model (trie), executable. No Mathlib. -/
namespace PM

abbrev Level := List Nat

structure PMsg where
  uuid : String
  level : Level
  atype : Option String
  status : Option String
  body : Nat
deriving DecidableEq, Repr, Inhabited

mutual
inductive Node where
  | msg (m : PMsg)
  | act (s e : Option PMsg) (ch : Kids)
inductive Kids where
  | nil
  | cons (k : Nat) (n : Node) (rest : Kids)
end

def emptyAct : Node := .act none none .nil

def Kids.get? (k : Nat) : Kids → Option Node
  | .nil => none
  | .cons k' n rest => if k = k' then some n else if k < k' then none else rest.get? k

def Kids.set (k : Nat) (v : Node) : Kids → Kids
  | .nil => .cons k v .nil
  | .cons k' n rest =>
    if k < k' then .cons k v (.cons k' n rest)
    else if k = k' then .cons k' v rest
    else .cons k' n (rest.set k v)

def Kids.length : Kids → Nat
  | .nil => 0
  | .cons _ _ rest => rest.length + 1

/-- every action child (at level pre++[k]) is in `completed` -/
def Kids.allActsIn (completed : List Level) (pre : Level) : Kids → Bool
  | .nil => true
  | .cons k (.act ..) rest => completed.contains (pre ++ [k]) && rest.allActsIn completed pre
  | .cons _ (.msg _) rest => rest.allActsIn completed pre

inductive Err where
  | invalidStart | wrongActionType | invalidStatus | underMessage | badLevel | missingStatus
deriving DecidableEq, Repr

inductive Op where
  | setStart (m : PMsg) | setEnd (m : PMsg) | addMsg (k : Nat) (m : PMsg)

def Node.atype? : Node → Option String
  | .act (some s) _ _ => s.atype
  | .act none (some e) _ => e.atype
  | _ => none

def Op.apply (op : Op) (n : Node) : Except Err Node :=
  match n with
  | .msg _ => .error .underMessage
  | .act s e ch =>
    match op with
    | .setStart m => if m.level.getLast? = some 1 then .ok (.act (some m) e ch) else .error .invalidStart
    | .setEnd m =>
      let cur := (Node.act s e ch).atype?
      if cur ≠ none ∧ cur ≠ m.atype then .error .wrongActionType
      else if m.status = some "succeeded" ∨ m.status = some "failed" then .ok (.act s (some m) ch)
      else .error .invalidStatus
    | .addMsg k m => .ok (.act s e (ch.set k (.msg m)))

def Node.completeNow (completed : List Level) (pre : Level) : Node → Bool
  | .act (some _) (some e) ch =>
    (match e.level.getLast? with
     | some n => ch.length + 2 == n
     | none => false) && ch.allActsIn completed pre
  | _ => false

/-- path update + bottom-up completeness re-evaluation. Returns new node and newly completed levels. -/
def Node.addAt (completed : List Level) (pre : Level) : List Nat → Op → Node → Except Err (Node × List Level)
  | [], op, n => do
    let n' ← op.apply n
    pure (n', if n'.completeNow completed pre then [pre] else [])
  | k :: rest, op, n =>
    match n with
    | .msg _ => .error .underMessage
    | .act s e ch => do
      let child := (ch.get? k).getD emptyAct
      let (child', newC) ← Node.addAt completed (pre ++ [k]) rest op child
      let n' := Node.act s e (ch.set k child')
      let completed' := newC ++ completed
      pure (n', if n'.completeNow completed' pre then newC ++ [pre] else newC)

structure Task where
  root : Option Node := none
  completed : List Level := []

def insertSorted (l : Level) : List Level → List Level
  | [] => [l]
  | x :: xs => if l = x then x :: xs else if l < x then l :: x :: xs else x :: insertSorted l xs

def Task.add (t : Task) (m : PMsg) : Except Err Task :=
  match m.atype with
  | some _ =>
    match m.level.reverse with
    | [] => .error .badLevel
    | _ :: revPath => do
      let path := revPath.reverse
      let op ← match m.status with
        | some "started" => pure (Op.setStart m)
        | some _ => pure (Op.setEnd m)
        | none => .error .missingStatus
      let root := t.root.getD emptyAct
      let (root', newC) ← Node.addAt t.completed [] path op root
      pure { root := some root', completed := newC.foldl (fun acc l => insertSorted l acc) t.completed }
  | none =>
    if m.level = [1] then
      pure { root := some (.msg m), completed := insertSorted [] t.completed }
    else
      match m.level.reverse with
      | [] => pure t
      | k :: revPath => do
        let root := t.root.getD emptyAct
        let (root', newC) ← Node.addAt t.completed [] revPath.reverse (.addMsg k m) root
        pure { root := some root', completed := newC.foldl (fun acc l => insertSorted l acc) t.completed }

def Task.isComplete (t : Task) : Bool := t.completed.contains []

-- Canonical rendering
mutual
partial def Node.render : Node → String
  | .msg m => s!"m{m.body}"
  | .act s e ch => s!"A({(s.map (·.body))},{(e.map (·.body))},[{Kids.render ch}])"
partial def Kids.render : Kids → String
  | .nil => ""
  | .cons k n rest => s!"{k}:{Node.render n};" ++ Kids.render rest
end

def Task.render (t : Task) : String :=
  s!"{(t.root.map Node.render).getD "-"}|{t.completed}"

end PM

/-! ## `Parser`: tasks keyed by uuid (an unordered map in Python, an association list here) -/
namespace PM

abbrev Parser := List (String × Task)

/-- `Parser.add`: route by uuid, add, hand the task back and discard it when complete.
The handed-back task is tagged with its uuid (in Python the `Task` carries it inside its
messages; the tag is what lets theorems say *which* task was returned). -/
def Parser.add (p : Parser) (m : PMsg) : Except Err (List (String × Task) × Parser) := do
  let cur := (p.lookup m.uuid).getD {}
  let t ← cur.add m
  let rest := p.filter (fun e => e.1 != m.uuid)
  if t.isComplete then pure ([(m.uuid, t)], rest) else pure ([], (m.uuid, t) :: rest)

/-- `Parser.parse_stream` up to the point where the input ends: the tasks yielded so far (in
order) and the parser; the first error aborts, as the Python generator does. -/
def Parser.feed : Parser → List PMsg → Except Err (List (String × Task) × Parser)
  | p, [] => pure ([], p)
  | p, m :: ms => do
    let (done, p') ← p.add m
    let (done', p'') ← Parser.feed p' ms
    pure (done ++ done', p'')

/-- `parse_stream`: completed tasks as they complete, then the incomplete ones. -/
def parseStream (ms : List PMsg) : Except Err (List (String × Task)) := do
  let (done, p) ← Parser.feed [] ms
  pure (done ++ p)

end PM
