/-!
# String form of task levels and serialized task ids (`eliot/_action.py`), property C06

Transliterations, over `List Char` (a Python `str` is a sequence of code points):

* `Level.toChars`      — `TaskLevel.toString`:   `"/" + "/".join(map(str, self._level))`
* `Level.fromChars`    — `TaskLevel.fromString`: `[int(i) for i in string.split("/") if i]`
* `Level.serializeTaskId` — `Action.serialize_task_id` before `.encode("ascii")`:
  `"{}@{}".format(task_uuid, level.toString())`
* `Level.parseTaskId`  — the decoding half of `Action.continue_task`:
  `uuid, task_level = task_id.split("@")` + `TaskLevel.fromString(task_level)`
* `Level.encodeAscii` / `Level.decodeAscii` — `str.encode("ascii")` / `bytes.decode("ascii")`
  (`none` = `UnicodeEncodeError` / `UnicodeDecodeError`); bytes are numbers `< 256`.

Domain of `int(i)`: Python's `int()` accepts more than ASCII decimal digits (surrounding
whitespace, a sign, `_` between digits, non-ASCII decimal digits) and rejects literals longer than
`sys.get_int_max_str_digits()` (4300) digits.  The model parses non-empty runs of ASCII decimal
digits only (which is all `toString` ever produces): `fromChars s = none` means "Python raises
`ValueError` **or** the string is outside the model's domain"; `Level.rejects s = true` singles out
the strings on which Python raises `ValueError` for certain (some component contains a printable
ASCII character that is not a digit, sign or underscore).  `none` with `rejects = false` is
out-of-domain, never compared.

No Mathlib; everything is total, structurally (or well-foundedly, `natDigits`) recursive, executable.
-/
namespace Level

/-! ## decimal digits: `str(n)` and `int(s)` for `n : Nat` -/

def digitChar : Nat → Char
  | 0 => '0' | 1 => '1' | 2 => '2' | 3 => '3' | 4 => '4'
  | 5 => '5' | 6 => '6' | 7 => '7' | 8 => '8' | _ => '9'

def charDigit? (c : Char) : Option Nat :=
  if c = '0' then some 0 else if c = '1' then some 1 else if c = '2' then some 2
  else if c = '3' then some 3 else if c = '4' then some 4 else if c = '5' then some 5
  else if c = '6' then some 6 else if c = '7' then some 7 else if c = '8' then some 8
  else if c = '9' then some 9 else none

/-- `str(n)` for a non-negative `int` -/
def natDigits (n : Nat) : List Char :=
  if n < 10 then [digitChar n] else natDigits (n / 10) ++ [digitChar (n % 10)]
decreasing_by omega

def parseDigits : Nat → List Char → Option Nat
  | acc, [] => some acc
  | acc, c :: cs =>
    match charDigit? c with
    | some d => parseDigits (acc * 10 + d) cs
    | none => none

/-- `int(s)` on the model's domain (non-empty, ASCII decimal digits only; leading zeros allowed) -/
def parseNat? : List Char → Option Nat
  | [] => none
  | c :: cs => parseDigits 0 (c :: cs)

/-! ## `str.split(sep)` (one-character separator) and `sep.join` -/

/-- `s.split(sep)`: every occurrence splits, empty pieces are kept, `"".split(sep) == [""]` -/
def splitOn (sep : Char) : List Char → List (List Char)
  | [] => [[]]
  | c :: cs =>
    if c = sep then [] :: splitOn sep cs
    else
      match splitOn sep cs with
      | [] => [[c]]            -- unreachable: `splitOn` never returns `[]`
      | p :: ps => (c :: p) :: ps

/-- `sep.join(parts)` -/
def joinWith (sep : Char) : List (List Char) → List Char
  | [] => []
  | [x] => x
  | x :: y :: r => x ++ sep :: joinWith sep (y :: r)

/-! ## `TaskLevel.toString` / `TaskLevel.fromString` -/

/-- `"/" + "/".join(map(str, level))` -/
def toChars (l : List Nat) : List Char := '/' :: joinWith '/' (l.map natDigits)

/-- `[int(i) for ...]` -/
def mapNat? : List (List Char) → Option (List Nat)
  | [] => some []
  | c :: cs =>
    match parseNat? c with
    | none => none
    | some n =>
      match mapNat? cs with
      | none => none
      | some ns => some (n :: ns)

/-- the `... for i in string.split("/") if i` part -/
def components (s : List Char) : List (List Char) := (splitOn '/' s).filter (fun p => !p.isEmpty)

/-- `[int(i) for i in string.split("/") if i]` -/
def fromChars (s : List Char) : Option (List Nat) := mapNat? (components s)

/-- a printable ASCII character that `int()` can accept nowhere in a base-10 literal -/
def definitelyBad (c : Char) : Bool :=
  33 ≤ c.toNat && c.toNat < 127 && (charDigit? c).isNone && c != '+' && c != '-' && c != '_'

/-- Python's `fromString` raises `ValueError` for certain -/
def rejects (s : List Char) : Bool := (components s).any (fun p => p.any definitelyBad)

/-! ## task ids -/

/-- `"{}@{}".format(uuid, level.toString())` -/
def serializeTaskId (u : List Char) (l : List Nat) : List Char := u ++ '@' :: toChars l

/-- `uuid, task_level = task_id.split("@")`; `TaskLevel.fromString(task_level)`.
`none`: the unpacking raises `ValueError` (not exactly two parts), or `fromString` is `none`. -/
def parseTaskId (s : List Char) : Option (List Char × List Nat) :=
  match splitOn '@' s with
  | [u, l] =>
    match fromChars l with
    | some lv => some (u, lv)
    | none => none
  | _ => none

/-- the unpacking `uuid, task_level = task_id.split("@")` raises `ValueError`, or `fromString` does -/
def rejectsTaskId (s : List Char) : Bool :=
  match splitOn '@' s with
  | [_, l] => rejects l
  | _ => true

/-- `s.encode("ascii")` -/
def encodeAscii (s : List Char) : Option (List Nat) :=
  if s.all (fun c => c.toNat < 128) then some (s.map Char.toNat) else none

/-- `b.decode("ascii")` -/
def decodeAscii (b : List Nat) : Option (List Char) :=
  if b.all (fun n => n < 128) then some (b.map Char.ofNat) else none

/-- `Action.serialize_task_id()`: the bytes -/
def serializeTaskIdBytes (u : List Char) (l : List Nat) : Option (List Nat) := encodeAscii (serializeTaskId u l)

/-- `continue_task(task_id=<bytes>)`: `task_id.decode("ascii")` first -/
def parseTaskIdBytes (b : List Nat) : Option (List Char × List Nat) :=
  match decodeAscii b with
  | some s => parseTaskId s
  | none => none

end Level
