/-! Executable model of `eliot.json._dumps_bytes` / `_dumps_unicode` (orjson, compact format) with the
`json_default` dispatch of `eliot.json.json_default`, and of `json.loads` on whitespace-free input.

Text is a list of Unicode code points (`List Nat`); bytes are a list of `Nat < 256`.  Floats are
opaque decimal tokens (the text orjson prints for them, `nan`/`inf`/`-inf` for the non-finite ones):
no definition or theorem does float arithmetic.  No Mathlib. -/
namespace EJ

/-! ## Values -/

/-- What orjson serialises natively.  `num` carries the float's decimal token, `str` and the object
keys are code-point lists (a Python `str` may hold lone surrogates, a `JVal.str` may too). -/
inductive JVal where
  | null
  | bool (b : Bool)
  | int (i : Int)
  | num (tok : List Nat)
  | str (s : List Nat)
  | arr (xs : List JVal)
  | obj (kvs : List (List Nat × JVal))
deriving Repr, Inhabited

inductive EncErr where
  | intRange      -- "Integer exceeds 64-bit range"
  | surrogate     -- "str is not valid UTF-8: surrogates not allowed"
  | badFloat      -- (model only) a float token that is not a JSON number; never produced by Python
  | nonStrKey     -- "Dict key must be str"
  | unsupported   -- "Type is not JSON serializable: ..." (json_default raised TypeError)
  | timeTz        -- "datetime.time must not have tzinfo set"
  | depth         -- "Recursion limit reached": more than 254 nested containers
  | notUtf8       -- (model only) `bytes.decode` of the encoder's output failed; shown impossible
deriving DecidableEq, Repr

/-! ## Characters -/

/-- Unicode scalar value: a code point that is not a surrogate. -/
def Scalar (c : Nat) : Prop := c < 0xD800 ∨ (0xDFFF < c ∧ c ≤ 0x10FFFF)

instance (c : Nat) : Decidable (Scalar c) := by unfold Scalar; exact inferInstance

def isDigit (c : Nat) : Bool := 48 ≤ c && c ≤ 57

def hexDigit (n : Nat) : Nat := if n < 10 then 48 + n else 87 + n     -- '0'..'9','a'..'f'

def hexVal (c : Nat) : Option Nat :=
  if 48 ≤ c ∧ c ≤ 57 then some (c - 48)
  else if 97 ≤ c ∧ c ≤ 102 then some (c - 87)
  else if 65 ≤ c ∧ c ≤ 70 then some (c - 55)
  else none

/-! ## Strings (orjson escape rules)
'"'=34 '\\'=92 '/'=47 'n'=110 'r'=114 't'=116 'b'=98 'f'=102 'u'=117 '0'=48 -/

def escChar (c : Nat) : List Nat :=
  if c = 34 then [92, 34]
  else if c = 92 then [92, 92]
  else if c = 10 then [92, 110]
  else if c = 13 then [92, 114]
  else if c = 9 then [92, 116]
  else if c = 8 then [92, 98]
  else if c = 12 then [92, 102]
  else if c < 32 then [92, 117, 48, 48, hexDigit (c / 16), hexDigit (c % 16)]
  else [c]

def encBody (s : List Nat) : List Nat := s.flatMap escChar
def encStr (s : List Nat) : List Nat := 34 :: (encBody s ++ [34])

/-- orjson refuses a `str` that is not valid UTF-8, i.e. holds a surrogate. -/
def encStrE (s : List Nat) : Except EncErr (List Nat) :=
  if ∀ c ∈ s, Scalar c then .ok (encStr s) else .error .surrogate

/-! ## Numbers -/

/-- decimal digits of `n`, least significant first; `fuel > n` is always enough -/
def digitsRev : Nat → Nat → List Nat
  | 0, _ => []
  | f + 1, n => if n < 10 then [48 + n] else (48 + n % 10) :: digitsRev f (n / 10)

def natDigits (n : Nat) : List Nat := (digitsRev (n + 1) n).reverse

def encInt : Int → List Nat
  | .ofNat n => natDigits n
  | .negSucc n => 45 :: natDigits (n + 1)

def digitsVal (ds : List Nat) : Nat := ds.foldl (fun a d => a * 10 + (d - 48)) 0

/-- integer part of a JSON number: `0` or `[1-9][0-9]*`; (digits, rest) -/
def scanIntPart : List Nat → Option (List Nat × List Nat)
  | [] => none
  | d :: r =>
    if d = 48 then some ([48], r)
    else if 49 ≤ d ∧ d ≤ 57 then some (d :: r.takeWhile isDigit, r.dropWhile isDigit)
    else none

/-- optional fraction `\.[0-9]+`; (token or [], rest) -/
def scanFrac : List Nat → List Nat × List Nat
  | [] => ([], [])
  | c :: r =>
    if c = 46 ∧ r.takeWhile isDigit ≠ [] then (46 :: r.takeWhile isDigit, r.dropWhile isDigit)
    else ([], c :: r)

/-- optional sign of an exponent -/
def expSign : List Nat → List Nat
  | [] => []
  | s :: _ => if s = 43 ∨ s = 45 then [s] else []

/-- optional exponent `[eE][+-]?[0-9]+`; (token or [], rest) -/
def scanExp : List Nat → List Nat × List Nat
  | [] => ([], [])
  | e :: r =>
    if (e = 101 ∨ e = 69) ∧ (r.drop (expSign r).length).takeWhile isDigit ≠ [] then
      (e :: (expSign r ++ (r.drop (expSign r).length).takeWhile isDigit),
       (r.drop (expSign r).length).dropWhile isDigit)
    else ([], e :: r)

/-- `json.loads` number scanner `-?(0|[1-9]\d*)(\.\d+)?([eE][+-]?\d+)?`: an integer literal gives
`int`, anything with a fraction or an exponent gives `num` with the matched text as token. -/
def scanNumBody (neg : Bool) (r0 : List Nat) : Option (JVal × List Nat) :=
  match scanIntPart r0 with
  | none => none
  | some (ip, r1) =>
    if (scanFrac r1).1 = [] ∧ (scanExp (scanFrac r1).2).1 = [] then
      some (.int (if neg then - (digitsVal ip : Int) else (digitsVal ip : Int)), (scanExp (scanFrac r1).2).2)
    else
      some (.num ((if neg then [45] else []) ++ ip ++ (scanFrac r1).1 ++ (scanExp (scanFrac r1).2).1),
            (scanExp (scanFrac r1).2).2)

def scanNum : List Nat → Option (JVal × List Nat)
  | [] => none
  | c :: r => if c = 45 then scanNumBody true r else scanNumBody false (c :: r)

/-- Python `repr` of the three non-finite floats: `nan`, `inf`, `-inf` -/
def isNonFinite (tok : List Nat) : Bool :=
  tok == [110, 97, 110] || tok == [105, 110, 102] || tok == [45, 105, 110, 102]

/-- a finite float's token: a JSON number with a fraction or an exponent that scans back to itself -/
def isFloatTok (tok : List Nat) : Bool :=
  match scanNum tok with
  | some (.num t, []) => t == tok
  | _ => false

def inRange (i : Int) : Prop := -(2 ^ 63 : Int) ≤ i ∧ i ≤ (2 ^ 64 : Int) - 1

instance (i : Int) : Decidable (inRange i) := by unfold inRange; exact inferInstance

/-! ## Encoder: `orjson.dumps` on natively supported values, compact separators -/

def tNull : List Nat := [110, 117, 108, 108]
def tTrue : List Nat := [116, 114, 117, 101]
def tFalse : List Nat := [102, 97, 108, 115, 101]

mutual
/-- the serialisation proper, without orjson's nesting limit (see `encode`) -/
def encodeU : JVal → Except EncErr (List Nat)
  | .null => .ok tNull
  | .bool true => .ok tTrue
  | .bool false => .ok tFalse
  | .int i => if inRange i then .ok (encInt i) else .error .intRange
  | .num tok =>
    if isNonFinite tok then .ok tNull
    else if isFloatTok tok then .ok tok
    else .error .badFloat
  | .str s => encStrE s
  | .arr [] => .ok [91, 93]
  | .arr (x :: xs) =>
    match encodeU x with
    | .error e => .error e
    | .ok a => match encTail xs with
      | .error e => .error e
      | .ok b => .ok (91 :: (a ++ b))
  | .obj [] => .ok [123, 125]
  | .obj ((k, v) :: kvs) =>
    match encStrE k with
    | .error e => .error e
    | .ok a => match encodeU v with
      | .error e => .error e
      | .ok b => match encMembers kvs with
        | .error e => .error e
        | .ok c => .ok (123 :: (a ++ 58 :: (b ++ c)))
/-- the rest of an array after its first element: `,x,y]` -/
def encTail : List JVal → Except EncErr (List Nat)
  | [] => .ok [93]
  | x :: xs =>
    match encodeU x with
    | .error e => .error e
    | .ok a => match encTail xs with
      | .error e => .error e
      | .ok b => .ok (44 :: (a ++ b))
/-- the rest of an object after its first member: `,"k":v}` -/
def encMembers : List (List Nat × JVal) → Except EncErr (List Nat)
  | [] => .ok [125]
  | (k, v) :: kvs =>
    match encStrE k with
    | .error e => .error e
    | .ok a => match encodeU v with
      | .error e => .error e
      | .ok b => match encMembers kvs with
        | .error e => .error e
        | .ok c => .ok (44 :: (a ++ 58 :: (b ++ c)))
end

mutual
/-- nesting depth: number of containers around the innermost value -/
def JVal.depth : JVal → Nat
  | .null => 0
  | .bool _ => 0
  | .int _ => 0
  | .num _ => 0
  | .str _ => 0
  | .arr xs => depthList xs + 1
  | .obj kvs => depthMembers kvs + 1
def depthList : List JVal → Nat
  | [] => 0
  | x :: xs => max x.depth (depthList xs)
def depthMembers : List (List Nat × JVal) → Nat
  | [] => 0
  | (_, v) :: kvs => max v.depth (depthMembers kvs)
end

/-- orjson's recursion limit: a value nested in more than 254 containers is refused -/
def maxDepth : Nat := 254

/-- `orjson.dumps` on a natively supported value: refused with "Recursion limit reached" when it
is nested deeper than `maxDepth`, else `encodeU` -/
def encode (v : JVal) : Except EncErr (List Nat) :=
  if v.depth ≤ maxDepth then encodeU v else .error .depth

/-! ## Decoder: `json.loads` on whitespace-free text -/

def hex4 (a b c d : Nat) : Option Nat :=
  match hexVal a, hexVal b, hexVal c, hexVal d with
  | some x, some y, some z, some w => some (x * 4096 + y * 256 + z * 16 + w)
  | _, _, _, _ => none

def unescape (e : Nat) : Option Nat :=
  if e = 34 then some 34 else if e = 92 then some 92 else if e = 47 then some 47
  else if e = 110 then some 10 else if e = 114 then some 13 else if e = 116 then some 9
  else if e = 98 then some 8 else if e = 102 then some 12 else none

/-- body of a string after the opening quote: UTF-16 units of `\u` escapes are not yet joined;
returns (content, rest after the closing quote).  Raw control characters are rejected
(`strict=True`); so are raw non-scalar values, which a UTF-8 decoded input cannot contain. -/
def decBody : List Nat → Option (List Nat × List Nat)
  | [] => none
  | c :: rest =>
    if c = 34 then some ([], rest)
    else if c = 92 then
      match rest with
      | [] => none
      | e :: rest1 =>
        if e = 117 then
          match rest1 with
          | a :: b :: c' :: d :: rest2 =>
            match hex4 a b c' d, decBody rest2 with
            | some u, some (s, r) => some (u :: s, r)
            | _, _ => none
          | _ => none
        else
          match unescape e, decBody rest1 with
          | some u, some (s, r) => some (u :: s, r)
          | _, _ => none
    else if c < 32 ∨ ¬ Scalar c then none
    else
      match decBody rest with
      | some (s, r) => some (c :: s, r)
      | none => none

/-- `😀` → U+1F600: a high surrogate directly followed by a low one is one character
(both can only come from `\u` escapes, see `decBody`); unpaired ones stay, as in Python. -/
def joinSurr : List Nat → List Nat
  | [] => []
  | [c] => [c]
  | hi :: lo :: r =>
    if 0xD800 ≤ hi ∧ hi ≤ 0xDBFF ∧ 0xDC00 ≤ lo ∧ lo ≤ 0xDFFF then
      (0x10000 + (hi - 0xD800) * 1024 + (lo - 0xDC00)) :: joinSurr r
    else hi :: joinSurr (lo :: r)

def decStr (inp : List Nat) : Option (List Nat × List Nat) :=
  match decBody inp with
  | some (s, r) => some (joinSurr s, r)
  | none => none

mutual
/-- one JSON value at the head of the input; (value, rest).  Every call spends one unit of fuel. -/
def parseVal : Nat → List Nat → Option (JVal × List Nat)
  | 0, _ => none
  | _ + 1, [] => none
  | f + 1, c :: r =>
    if c = 110 then
      match r with
      | 117 :: 108 :: 108 :: r' => some (.null, r')
      | _ => none
    else if c = 116 then
      match r with
      | 114 :: 117 :: 101 :: r' => some (.bool true, r')
      | _ => none
    else if c = 102 then
      match r with
      | 97 :: 108 :: 115 :: 101 :: r' => some (.bool false, r')
      | _ => none
    else if c = 34 then
      match decStr r with
      | some (s, r') => some (.str s, r')
      | none => none
    else if c = 91 then
      match r with
      | [] => none
      | c1 :: r1 =>
        if c1 = 93 then some (.arr [], r1)
        else match parseVal f (c1 :: r1) with
          | none => none
          | some (v, r2) => match parseTail f r2 with
            | none => none
            | some (vs, r3) => some (.arr (v :: vs), r3)
    else if c = 123 then
      match r with
      | [] => none
      | c1 :: r1 =>
        if c1 = 125 then some (.obj [], r1)
        else match parseMember f (c1 :: r1) with
          | none => none
          | some (kv, r2) => match parseMembers f r2 with
            | none => none
            | some (kvs, r3) => some (.obj (kv :: kvs), r3)
    else scanNum (c :: r)
/-- `]` or `,value` then the same again -/
def parseTail : Nat → List Nat → Option (List JVal × List Nat)
  | 0, _ => none
  | _ + 1, [] => none
  | f + 1, c :: r =>
    if c = 93 then some ([], r)
    else if c = 44 then
      match parseVal f r with
      | none => none
      | some (v, r1) => match parseTail f r1 with
        | none => none
        | some (vs, r2) => some (v :: vs, r2)
    else none
/-- `"key":value` -/
def parseMember : Nat → List Nat → Option ((List Nat × JVal) × List Nat)
  | 0, _ => none
  | _ + 1, [] => none
  | f + 1, c :: r =>
    if c = 34 then
      match decStr r with
      | none => none
      | some (k, r1) => match r1 with
        | [] => none
        | c1 :: r2 =>
          if c1 = 58 then
            match parseVal f r2 with
            | none => none
            | some (v, r3) => some ((k, v), r3)
          else none
    else none
/-- `}` or `,"key":value` then the same again -/
def parseMembers : Nat → List Nat → Option (List (List Nat × JVal) × List Nat)
  | 0, _ => none
  | _ + 1, [] => none
  | f + 1, c :: r =>
    if c = 125 then some ([], r)
    else if c = 44 then
      match parseMember f r with
      | none => none
      | some (kv, r1) => match parseMembers f r1 with
        | none => none
        | some (kvs, r2) => some (kv :: kvs, r2)
    else none
end

/-- `json.loads(text)` (with `object_pairs_hook=list`, i.e. duplicate keys are all kept, in order):
`none` = `JSONDecodeError`.  Fuel = length of the input is always enough. -/
def decode (s : List Nat) : Option JVal :=
  match parseVal s.length s with
  | some (v, []) => some v
  | _ => none

/-! ### `json.loads` proper: objects become `dict`s -/

/-- `d[k] = v` on an insertion-ordered dict: a key already present keeps its position and takes
the new value -/
def dictSet (k : List Nat) (v : JVal) : List (List Nat × JVal) → List (List Nat × JVal)
  | [] => [(k, v)]
  | (k', v') :: r => if k' = k then (k', v) :: r else (k', v') :: dictSet k v r

/-- `dict(pairs)` -/
def dictOf (kvs : List (List Nat × JVal)) : List (List Nat × JVal) :=
  kvs.foldl (fun d kv => dictSet kv.1 kv.2 d) []

mutual
/-- every object's pair list turned into a `dict` (duplicate keys collapse, last value wins) -/
def JVal.norm : JVal → JVal
  | .null => .null
  | .bool b => .bool b
  | .int i => .int i
  | .num t => .num t
  | .str s => .str s
  | .arr xs => .arr (normList xs)
  | .obj kvs => .obj (dictOf (normMembers kvs))
def normList : List JVal → List JVal
  | [] => []
  | x :: xs => x.norm :: normList xs
def normMembers : List (List Nat × JVal) → List (List Nat × JVal)
  | [] => []
  | (k, v) :: kvs => (k, v.norm) :: normMembers kvs
end

/-- `json.loads(text)` (no hook): `none` = `JSONDecodeError` -/
def loads (s : List Nat) : Option JVal :=
  match decode s with
  | some v => some v.norm
  | none => none

/-! ## UTF-8 (what `str.encode("utf-8")` / `bytes.decode("utf-8")` do on scalar values) -/

def utf8enc1 (c : Nat) : List Nat :=
  if c < 0x80 then [c]
  else if c < 0x800 then [0xC0 + c / 64, 0x80 + c % 64]
  else if c < 0x10000 then [0xE0 + c / 4096, 0x80 + c / 64 % 64, 0x80 + c % 64]
  else [0xF0 + c / 262144, 0x80 + c / 4096 % 64, 0x80 + c / 64 % 64, 0x80 + c % 64]

def utf8enc (s : List Nat) : List Nat := s.flatMap utf8enc1

def isCont (b : Nat) : Bool := 0x80 ≤ b && b < 0xC0

/-- strict UTF-8 decoder: rejects stray / missing continuation bytes, overlong forms, surrogates,
values above U+10FFFF and bytes ≥ 0xF5 -/
def utf8dec : List Nat → Option (List Nat)
  | [] => some []
  | b0 :: r =>
    if b0 < 0x80 then
      match utf8dec r with
      | some s => some (b0 :: s)
      | none => none
    else if b0 < 0xC2 then none
    else if b0 < 0xE0 then
      match r with
      | b1 :: r1 =>
        if isCont b1 then
          match utf8dec r1 with
          | some s => some (((b0 - 0xC0) * 64 + (b1 - 0x80)) :: s)
          | none => none
        else none
      | _ => none
    else if b0 < 0xF0 then
      match r with
      | b1 :: b2 :: r1 =>
        if isCont b1 ∧ isCont b2 ∧ 0x800 ≤ (b0 - 0xE0) * 4096 + (b1 - 0x80) * 64 + (b2 - 0x80)
            ∧ Scalar ((b0 - 0xE0) * 4096 + (b1 - 0x80) * 64 + (b2 - 0x80)) then
          match utf8dec r1 with
          | some s => some (((b0 - 0xE0) * 4096 + (b1 - 0x80) * 64 + (b2 - 0x80)) :: s)
          | none => none
        else none
      | _ => none
    else if b0 < 0xF5 then
      match r with
      | b1 :: b2 :: b3 :: r1 =>
        if isCont b1 ∧ isCont b2 ∧ isCont b3
            ∧ 0x10000 ≤ (b0 - 0xF0) * 262144 + (b1 - 0x80) * 4096 + (b2 - 0x80) * 64 + (b3 - 0x80)
            ∧ (b0 - 0xF0) * 262144 + (b1 - 0x80) * 4096 + (b2 - 0x80) * 64 + (b3 - 0x80) ≤ 0x10FFFF then
          match utf8dec r1 with
          | some s => some (((b0 - 0xF0) * 262144 + (b1 - 0x80) * 4096 + (b2 - 0x80) * 64 + (b3 - 0x80)) :: s)
          | none => none
        else none
      | _ => none
    else none

/-! ## The Python-level value handed to `dumps`, and `json_default` -/

inductive PyKey where
  | str (s : List Nat)
  | other                       -- int, None, tuple ... : orjson refuses (no OPT_NON_STR_KEYS)
deriving Repr, Inhabited

/-- A Python object as far as `orjson.dumps(o, default=json_default)` distinguishes them. -/
inductive PyVal where
  | null
  | bool (b : Bool)
  | int (i : Int)
  | float (tok : List Nat)
  | str (s : List Nat)
  | list (xs : List PyVal)                 -- list or tuple
  | dict (kvs : List (PyKey × PyVal))
  | path (text : List Nat)                 -- pathlib.Path; `text` = str(o)
  | date (iso : List Nat)                  -- datetime.date / datetime.datetime; `iso` = o.isoformat()
  | time (iso : List Nat)                  -- naive datetime.time; `iso` = o.isoformat()
  | timeTz                                 -- datetime.time with tzinfo: refused by orjson itself
  | isoSub (iso : List Nat)                -- instance of a user SUBCLASS of date / datetime / time (naive or aware): orjson
                                           -- serialises only the exact classes itself and hands these to `default`;
                                           -- `iso` = o.isoformat()
  | set (xs : List PyVal)                  -- set; `xs` = list(o), in the set's iteration order
  | complex (re im : List Nat)             -- float tokens of o.real, o.imag
  | custom (payload : PyVal)               -- instance of a class only the caller's default knows; it returns `payload`
  | unsupported                            -- bytes, object(), frozenset, PurePath, timedelta ...
deriving Repr, Inhabited

def kReal : List Nat := [114, 101, 97, 108]
def kImag : List Nat := [105, 109, 97, 103]

mutual
/-- orjson's traversal with `default=` (`eliot.json.json_default`, optionally wrapped by a caller's
function that knows `custom` objects and otherwise calls `json_default` last): the JSON-native value
that is finally serialised, or the error. `ext = false`: plain `json_default`. -/
def lower (ext : Bool) : PyVal → Except EncErr JVal
  | .null => .ok .null
  | .bool b => .ok (.bool b)
  | .int i => .ok (.int i)
  | .float t => .ok (.num t)
  | .str s => .ok (.str s)
  | .list xs => match lowerList ext xs with
    | .ok ys => .ok (.arr ys)
    | .error e => .error e
  | .dict kvs => match lowerDict ext kvs with
    | .ok ys => .ok (.obj ys)
    | .error e => .error e
  | .path t => .ok (.str t)
  | .date iso => .ok (.str iso)
  | .time iso => .ok (.str iso)
  | .timeTz => .error .timeTz
  | .isoSub iso => .ok (.str iso)          -- json_default: isinstance(o, date) / isinstance(o, time) -> o.isoformat()
  | .set xs => match lowerList ext xs with
    | .ok ys => .ok (.arr ys)
    | .error e => .error e
  | .complex re im => .ok (.obj [(kReal, .num re), (kImag, .num im)])
  | .custom p => if ext then lower ext p else .error .unsupported
  | .unsupported => .error .unsupported
def lowerList (ext : Bool) : List PyVal → Except EncErr (List JVal)
  | [] => .ok []
  | x :: xs => match lower ext x with
    | .error e => .error e
    | .ok y => match lowerList ext xs with
      | .error e => .error e
      | .ok ys => .ok (y :: ys)
def lowerDict (ext : Bool) : List (PyKey × PyVal) → Except EncErr (List (List Nat × JVal))
  | [] => .ok []
  | (.other, _) :: _ => .error .nonStrKey
  | (.str k, v) :: kvs => match lower ext v with
    | .error e => .error e
    | .ok y => match lowerDict ext kvs with
      | .error e => .error e
      | .ok ys => .ok ((k, y) :: ys)
end

mutual
/-- What the objects are to a caller's `json_default` that does NOT end by calling
`eliot.json.json_default` (it knows its own `custom` objects and raises `TypeError` otherwise):
paths, sets, complex numbers and instances of subclasses of date / datetime / time are then
unsupported objects.  Exact dates and times are unaffected: orjson serialises them itself and never
hands them to `default`.
`lower true (ownView o)` is the traversal under such a function. -/
def ownView : PyVal → PyVal
  | .null => .null
  | .bool b => .bool b
  | .int i => .int i
  | .float t => .float t
  | .str s => .str s
  | .list xs => .list (ownViewList xs)
  | .dict kvs => .dict (ownViewDict kvs)
  | .path _ => .unsupported
  | .date iso => .date iso
  | .time iso => .time iso
  | .timeTz => .timeTz
  | .isoSub _ => .unsupported
  | .set _ => .unsupported
  | .complex _ _ => .unsupported
  | .custom p => .custom (ownView p)
  | .unsupported => .unsupported
def ownViewList : List PyVal → List PyVal
  | [] => []
  | x :: xs => ownView x :: ownViewList xs
def ownViewDict : List (PyKey × PyVal) → List (PyKey × PyVal)
  | [] => []
  | (k, v) :: kvs => (k, ownView v) :: ownViewDict kvs
end

/-- the compact JSON text of `o` as code points, before it is UTF-8 encoded -/
def dumpsCP (ext : Bool) (o : PyVal) : Except EncErr (List Nat) :=
  match lower ext o with
  | .error e => .error e
  | .ok v => encode v

/-- `_dumps_bytes(o, default=...)` = `orjson.dumps`: UTF-8 bytes -/
def dumpsBytes (ext : Bool) (o : PyVal) : Except EncErr (List Nat) :=
  match dumpsCP ext o with
  | .error e => .error e
  | .ok s => .ok (utf8enc s)

/-- `_dumps_unicode(o, default=...)` = `_dumps_bytes(o, default=...).decode("utf-8")` -/
def dumpsText (ext : Bool) (o : PyVal) : Except EncErr (List Nat) :=
  match dumpsBytes ext o with
  | .error e => .error e
  | .ok b => match utf8dec b with
    | some s => .ok s
    | none => .error .notUtf8

end EJ
