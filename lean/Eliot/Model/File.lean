import Eliot.Model.Json
/-! Model of `eliot._output.FileDestination` as the sequence of calls the file object receives, and
(C11) of what a crash leaves on disk.  No Mathlib. -/
namespace EJ

/-! ## Shape of `FileDestination.__call__` (regenerated from the source by extractor E2) -/

/-- argument of a `self.file.write(...)` call, up to names -/
inductive Arg where
  | dumpsPlusLinebreak     -- self._dumps(message, default=self._json_default) + self._linebreak
  | dumps                  -- self._dumps(message, default=self._json_default)
  | linebreak              -- self._linebreak
  | other
deriving DecidableEq, Repr

/-- one statement of `__call__`: a call on `self.file` -/
inductive CallShape where
  | write (a : Arg)
  | flush
  | unknown
deriving DecidableEq, Repr

/-- the shape every theorem below is about; `Generated.fileDestCall` must be equal to it -/
def stdShape : List CallShape := [.write .dumpsPlusLinebreak, .flush]

/-! ## The file object seen from outside -/

/-- a call received by the file object -/
inductive Call where
  | write (chunk : List Nat)
  | flush
deriving DecidableEq, Repr

/-- the calls received so far, oldest first -/
abbrev FileLog := List Call

/-- everything handed to `write`, in order -/
def content : FileLog → List Nat
  | [] => []
  | .write c :: r => c ++ content r
  | .flush :: r => content r

inductive Mode where
  | binary | text
deriving DecidableEq, Repr

/-- a `FileDestination`: the mode found by probing `file.write(b"")` (TypeError ⇒ text file) and
whether the caller passed an own `json_default` wrapper -/
structure FileDest where
  mode : Mode
  ext : Bool

/-- `self._dumps(message, default=self._json_default)`: `_dumps_bytes` or `_dumps_unicode` -/
def FileDest.dumps (d : FileDest) (m : PyVal) : Except EncErr (List Nat) :=
  match d.mode with
  | .binary => dumpsBytes d.ext m
  | .text => dumpsText d.ext m

/-- what one statement of shape `sh` hands to the file, given the serialised message -/
def CallShape.run (payload : List Nat) : CallShape → List Call
  | .write .dumpsPlusLinebreak => [.write (payload ++ [10])]
  | .write .dumps => [.write payload]
  | .write .linebreak => [.write [10]]
  | .write .other => []
  | .flush => [.flush]
  | .unknown => []

/-- `FileDestination.__new__`: the probe `file.write(b"")` -/
def FileDest.new (mode : Mode) (ext : Bool) (log : FileLog) : FileDest × FileLog :=
  ({ mode := mode, ext := ext }, log ++ [.write []])

/-- `FileDestination.__call__` for a body of shape `sh`: `dumps` is evaluated first and may raise,
then the file is not touched at all. -/
def FileDest.callWith (sh : List CallShape) (d : FileDest) (log : FileLog) (m : PyVal) : Except EncErr FileLog :=
  match d.dumps m with
  | .error e => .error e
  | .ok p => .ok (log ++ sh.flatMap (CallShape.run p))

def FileDest.call (d : FileDest) (log : FileLog) (m : PyVal) : Except EncErr FileLog :=
  d.callWith stdShape log m

/-- a sequence of logging calls; an exception of the destination is caught by `Destinations.send`
(C08) and that message is simply not in the file -/
def FileDest.feed (d : FileDest) : FileLog → List PyVal → FileLog
  | log, [] => log
  | log, m :: ms =>
    match d.call log m with
    | .ok log' => d.feed log' ms
    | .error _ => d.feed log ms

/-- all calls a fresh file object receives from `to_file(f)` followed by the messages `msgs` -/
def fileCalls (mode : Mode) (ext : Bool) (msgs : List PyVal) : FileLog :=
  (FileDest.new mode ext []).1.feed (FileDest.new mode ext []).2 msgs

/-- the line of one message (`none` when it cannot be serialised) -/
def FileDest.line (d : FileDest) (m : PyVal) : Option (List Nat) :=
  match d.dumps m with
  | .ok p => some (p ++ [10])
  | .error _ => none

/-! ## Crash layer (C11): what is on disk when the process dies

`write()` puts the line into a user-space buffer, the buffer reaches the disk (the kernel) in chunks
of any size at any time after that, `flush()` returns only when the buffer is empty, then the logging
call returns (= the message is acknowledged).  A crash (SIGKILL) keeps `disk` only. -/

structure FS where
  disk : List Nat := []
  buf : List Nat := []
  acked : Nat := 0
deriving Repr

inductive Step where
  | append (line : List Nat)     -- `file.write(line)`
  | spill (n : Nat)              -- the OS takes the first `n` buffered bytes (a chunk of a large write, a partial flush)
  | spillAll                     -- `file.flush()` completes
  | ack                          -- the logging call returns
deriving Repr

def Step.run (s : FS) : Step → FS
  | .append l => { s with buf := s.buf ++ l }
  | .spill n => { s with disk := s.disk ++ s.buf.take n, buf := s.buf.drop n }
  | .spillAll => { s with disk := s.disk ++ s.buf, buf := [] }
  | .ack => { s with acked := s.acked + 1 }

def runSteps (s : FS) (steps : List Step) : FS := steps.foldl Step.run s

/-- micro-steps of one logging call whose line is `l`, with chunking `cs` chosen by the OS / the buffer -/
def callSteps (l : List Nat) (cs : List Nat) : List Step :=
  .append l :: (cs.map Step.spill ++ [.spillAll, .ack])

/-- micro-steps of a whole run: `css` gives a chunking per call (missing ones: no early chunk) -/
def logAll : List (List Nat) → List (List Nat) → List Step
  | [], _ => []
  | l :: ls, css => callSteps l (css.headD []) ++ logAll ls css.tail

/-- state at the moment of a crash after `k` micro-steps -/
def crash (k : Nat) (steps : List Step) : FS := runSteps {} (steps.take k)

/-- the reader: split on newline, drop the unterminated tail (lines are returned without newline);
`cur` is the current line so far, last byte first -/
def readLinesAux : List Nat → List Nat → List (List Nat)
  | [], _ => []
  | c :: r, cur => if c = 10 then cur.reverse :: readLinesAux r [] else readLinesAux r (c :: cur)

def readLines (s : List Nat) : List (List Nat) := readLinesAux s []

end EJ
