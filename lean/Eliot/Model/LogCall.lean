/-! # Model of `eliot._action.log_call` (property C18).  Executable, no Mathlib.

Three layers, each a transliteration of a named piece of Python:

* `bind`        — what a *plain call* `f(*args, **kw)` does (CPython `initialize_locals`: slots indexed
                  by parameter, positional fill, keyword search that skips positional-only names,
                  `**kw` catch-all, too-many check, defaults, missing).
* `getcallargs` — `inspect.getcallargs` (3.12), which the wrapper uses: it works on
                  `getfullargspec`, i.e. positional-only and positional-or-keyword names are merged in
                  `args`; a growing dict `arg2value`.
* `wrapper`     — `logging_wrapper` inside `log_call`: getcallargs, pop `self`, `include_args`
                  selection (absent names skipped), `_start_action_with_fields(action_type, callargs)`
                  (the bound arguments travel as a dict, so `logger`/`action_type`/`_serializers` are
                  ordinary fields), `Action._start` overwriting the structural keys, the real call,
                  the `result` field, `Action.finish`.

Every place where Python raises is an explicit outcome; nothing is totalised. -/
namespace LC

/-- Argument / return values: only what the wrapper can distinguish (`None` vs anything else). -/
inductive Val where
  | none
  | int (n : Int)
  | str (s : String)
deriving DecidableEq, Repr, Inhabited

/-- A bound value: a plain value, the `*args` tuple, or the `**kwargs` dict. -/
inductive BVal where
  | one (v : Val)
  | tup (vs : List Val)
  | dict (kvs : List (String × Val))
deriving DecidableEq, Repr, Inhabited

inductive Kind where
  | posOnly | posOrKw | varPos | kwOnly | varKw
deriving DecidableEq, Repr, Inhabited

structure Param where
  name : String
  kind : Kind
  default : Option Val := Option.none
deriving DecidableEq, Repr, Inhabited

abbrev Sig := List Param

/-- Python dict with string keys, insertion ordered. -/
abbrev Dict (α : Type) := List (String × α)

def Dict.get? {α} (d : Dict α) (k : String) : Option α :=
  match d with
  | [] => Option.none
  | (k', v) :: rest => if k' = k then some v else Dict.get? rest k

def Dict.has {α} (d : Dict α) (k : String) : Bool := (Dict.get? d k).isSome

/-- `d[k] = v`: replace in place when present, else append. -/
def Dict.set {α} (d : Dict α) (k : String) (v : α) : Dict α :=
  match d with
  | [] => [(k, v)]
  | (k', v') :: rest => if k' = k then (k', v) :: rest else (k', v') :: Dict.set rest k v

/-- `d.pop(k)` / `del d[k]` when present. -/
def Dict.del {α} (d : Dict α) (k : String) : Dict α := d.filter (fun e => e.1 != k)

def Dict.keys {α} (d : Dict α) : List String := d.map (·.1)

abbrev Bound := Dict BVal

/-- Why a binding failed.  Python raises `TypeError` for every one of them. -/
inductive TypeErr where
  | tooManyPositional | multipleValues | unexpectedKeyword | posOnlyAsKeyword | missing
deriving DecidableEq, Repr, Inhabited

/-! ## Signatures -/

def Kind.rank : Kind → Nat
  | .posOnly => 0 | .posOrKw => 1 | .varPos => 2 | .kwOnly => 3 | .varKw => 4

def Kind.isPositional : Kind → Bool
  | .posOnly => true | .posOrKw => true | _ => false

def Sig.names (sig : Sig) : List String := sig.map (·.name)
def Sig.positional (sig : Sig) : List Param := sig.filter (·.kind.isPositional)
def Sig.kwOnly (sig : Sig) : List Param := sig.filter (·.kind == .kwOnly)
def Sig.varPos (sig : Sig) : Option String := (sig.find? (·.kind == .varPos)).map (·.name)
def Sig.varKw (sig : Sig) : Option String := (sig.find? (·.kind == .varKw)).map (·.name)

def sortedRanks : List Nat → Bool
  | [] => true
  | [_] => true
  | a :: b :: rest => a ≤ b && sortedRanks (b :: rest)

/-- positional defaults form a suffix ("non-default argument follows default argument") -/
def defaultsSuffix : List Param → Bool
  | [] => true
  | p :: rest => (p.default.isNone || rest.all (·.default.isSome)) && defaultsSuffix rest

/-- What the Python grammar / compiler guarantees about a `def`. -/
def Sig.WF (sig : Sig) : Bool :=
  sig.names.Nodup
  && sortedRanks (sig.map (·.kind.rank))
  && (sig.filter (·.kind == .varPos)).length ≤ 1
  && (sig.filter (·.kind == .varKw)).length ≤ 1
  && sig.all (fun p => (p.kind != .varPos && p.kind != .varKw) || p.default.isNone)
  && defaultsSuffix sig.positional

/-! ## `bind`: the plain call (CPython `initialize_locals`) -/

structure Slot where
  p : Param
  v : Option Val
deriving Repr

/-- step 1: copy positional arguments into the leading slots -/
def fillPos : List Param → List Val → List Slot
  | [], _ => []
  | p :: ps, [] => ⟨p, Option.none⟩ :: fillPos ps []
  | p :: ps, v :: vs => ⟨p, some v⟩ :: fillPos ps vs

inductive KwRes where
  | notFound | dup | set (slots : List Slot)

/-- step 2, one keyword: search the names from `co_posonlyargcount` on -/
def assignKw (k : String) (v : Val) : List Slot → KwRes
  | [] => .notFound
  | s :: rest =>
    if s.p.kind ≠ .posOnly ∧ s.p.name = k then
      match s.v with
      | some _ => .dup
      | Option.none => .set (⟨s.p, some v⟩ :: rest)
    else
      match assignKw k v rest with
      | .set r => .set (s :: r)
      | .dup => .dup
      | .notFound => .notFound

/-- step 2: all keywords, in call order; unknown names go to the `**kw` dict if there is one -/
def bindKws (hasVarKw : Bool) : List (String × Val) → List Slot → Dict Val → Except TypeErr (List Slot × Dict Val)
  | [], slots, kwd => .ok (slots, kwd)
  | (k, v) :: rest, slots, kwd =>
    match assignKw k v slots with
    | .set slots' => bindKws hasVarKw rest slots' kwd
    | .dup => .error .multipleValues
    | .notFound =>
      if hasVarKw then bindKws hasVarKw rest slots (Dict.set kwd k v)
      else if slots.any (fun s => s.p.kind == .posOnly && s.p.name == k) then .error .posOnlyAsKeyword
      else .error .unexpectedKeyword

def slotValue (slots : List Slot) (name : String) : Option Val :=
  match slots with
  | [] => Option.none
  | s :: rest => if s.p.name = name then s.v else slotValue rest name

/-- steps 4–6 and the final locals, parameter by parameter, in signature order -/
def finishParam (slots : List Slot) (extra : List Val) (kwd : Dict Val) (p : Param) : Except TypeErr (String × BVal) :=
  match p.kind with
  | .varPos => .ok (p.name, .tup extra)
  | .varKw => .ok (p.name, .dict kwd)
  | _ =>
    match slotValue slots p.name with
    | some v => .ok (p.name, .one v)
    | Option.none =>
      match p.default with
      | some d => .ok (p.name, .one d)
      | Option.none => .error .missing

def finishAll (slots : List Slot) (extra : List Val) (kwd : Dict Val) : List Param → Except TypeErr Bound
  | [] => .ok []
  | p :: ps =>
    match finishParam slots extra kwd p with
    | .error e => .error e
    | .ok b =>
      match finishAll slots extra kwd ps with
      | .error e => .error e
      | .ok bs => .ok (b :: bs)

/-- Python's binding of `f(*pos, **kw)` for `def f(<sig>)`; the result is in signature order. -/
def bind (sig : Sig) (pos : List Val) (kw : List (String × Val)) : Except TypeErr Bound :=
  let P := sig.positional
  let slots0 := fillPos P pos ++ (sig.kwOnly.map fun p => ⟨p, Option.none⟩)
  let extra := pos.drop P.length
  match bindKws sig.varKw.isSome kw slots0 [] with
  | .error e => .error e
  | .ok (slots, kwd) =>
    if pos.length > P.length ∧ sig.varPos = Option.none then .error .tooManyPositional
    else finishAll slots extra kwd sig

/-! ## `inspect.getcallargs` -/

/-- `for kw, value in named.items()` -/
def gcaNamed (possible : List String) (varkw : Option String) :
    List (String × Val) → Dict BVal → Except TypeErr (Dict BVal)
  | [], d => .ok d
  | (k, v) :: rest, d =>
    if ¬ possible.contains k then
      match varkw with
      | Option.none => .error .unexpectedKeyword
      | some vk =>
        -- arg2value[varkw][kw] = value
        match Dict.get? d vk with
        | some (.dict kvs) => gcaNamed possible varkw rest (Dict.set d vk (.dict (Dict.set kvs k v)))
        | _ => .error .unexpectedKeyword   -- unreachable: arg2value[varkw] was set to {} before the loop
    else if Dict.has d k then .error .multipleValues
    else gcaNamed possible varkw rest (Dict.set d k (.one v))

/-- `for i, arg in enumerate(args[num_args - num_defaults:]): if arg not in arg2value: arg2value[arg] = defaults[i]` -/
def gcaDefaults : List Param → Dict BVal → Dict BVal
  | [], d => d
  | p :: ps, d =>
    match p.default with
    | some dv => gcaDefaults ps (if Dict.has d p.name then d else Dict.set d p.name (.one dv))
    | Option.none => gcaDefaults ps d

/-- the keyword-only loop; `missing += 1` then `_missing_arguments` -/
def gcaKwOnly : List Param → Dict BVal → Except TypeErr (Dict BVal)
  | [], d => .ok d
  | p :: ps, d =>
    if Dict.has d p.name then gcaKwOnly ps d
    else match p.default with
      | some dv => gcaKwOnly ps (Dict.set d p.name (.one dv))
      | Option.none => .error .missing

def zipArgs : List Param → List Val → Dict BVal
  | p :: ps, v :: vs => (p.name, .one v) :: zipArgs ps vs
  | _, _ => []

def getcallargs (sig : Sig) (pos : List Val) (named : List (String × Val)) : Except TypeErr (Dict BVal) :=
  let args := sig.positional                 -- getfullargspec merges positional-only into `args`
  let n := min pos.length args.length
  let d0 : Dict BVal := zipArgs args pos
  let d1 := match sig.varPos with
    | some va => Dict.set d0 va (.tup (pos.drop n))
    | Option.none => d0
  let possible := args.map (·.name) ++ sig.kwOnly.map (·.name)
  let d2 := match sig.varKw with
    | some vk => Dict.set d1 vk (.dict [])
    | Option.none => d1
  match gcaNamed possible sig.varKw named d2 with
  | .error e => .error e
  | .ok d3 =>
    if pos.length > args.length ∧ sig.varPos = Option.none then .error .tooManyPositional
    else
      let d4? : Except TypeErr (Dict BVal) :=
        if pos.length < args.length then
          -- req = args[:num_args - num_defaults]; the parameters without default, by `defaultsSuffix`
          if (args.filter (·.default.isNone)).any (fun p => !Dict.has d3 p.name) then .error .missing
          else .ok (gcaDefaults args d3)
        else .ok d3
      match d4? with
      | .error e => .error e
      | .ok d4 => gcaKwOnly sig.kwOnly d4

/-! ## The wrapper -/

/-- Exceptions the model distinguishes: by class for those created by the machinery, by identity
(`body id`) for those the wrapped function raises itself. -/
inductive Exc where
  | typeError | attributeError | keyError | valueError
  | body (id : Nat)
deriving DecidableEq, Repr, Inhabited

inductive Outcome where
  | ret (v : Val)
  | raised (e : Exc)
deriving DecidableEq, Repr, Inhabited

/-- The wrapped function's body: from its bound locals to a return value or a raised exception. -/
abbrev Body := Bound → Outcome

/-- The undecorated call. -/
def callDirect (sig : Sig) (f : Body) (pos : List Val) (kw : List (String × Val)) : Outcome :=
  match bind sig pos kw with
  | .error _ => .raised .typeError
  | .ok b => f b

structure FnMeta where
  module : String
  qualname : String
deriving Repr

structure Opts where
  actionType : Option String := Option.none
  includeArgs : Option (List String) := Option.none
  includeResult : Bool := true
deriving Repr

/-- A message field value: a logged argument, the logged result, or something Eliot put there. -/
inductive FVal where
  | arg (v : BVal)
  | res (v : Val)
  | sys (tag : String)
deriving DecidableEq, Repr, Inhabited

abbrev Msg := Dict FVal

/-- decoration time: `if set(include_args) - set(sig.parameters): raise ValueError` -/
def decorate (sig : Sig) (opts : Opts) : Except Exc Unit :=
  match opts.includeArgs with
  | Option.none => .ok ()
  | some ks => if ks.all (fun k => sig.names.contains k) then .ok () else .error .valueError

def theActionType (m : FnMeta) (opts : Opts) : String :=
  match opts.actionType with
  | some t => t
  | Option.none => m.module ++ "." ++ m.qualname

/-- `callargs = {k: callargs[k] for k in include_args if k in callargs}` -/
def selectArgs (ca : Dict BVal) : List String → Dict BVal → Dict BVal
  | [], acc => acc
  | k :: ks, acc =>
    match Dict.get? ca k with
    | Option.none => selectArgs ca ks acc
    | some v => selectArgs ca ks (Dict.set acc k v)

/-- `if include_args is not None: callargs = {…}` -/
def applyInclude (opts : Opts) (ca : Dict BVal) : Dict BVal :=
  match opts.includeArgs with
  | Option.none => ca
  | some ks => selectArgs ca ks []

/-- `Action._start`: the user fields, then the structural keys written over them. -/
def startMessage (actionType : String) (fields : Dict BVal) : Msg :=
  let f0 : Msg := fields.map (fun (k, v) => (k, FVal.arg v))
  let f1 := Dict.set f0 "action_status" (.sys "started")
  let f2 := Dict.set f1 "timestamp" (.sys "<time>")
  let f3 := Dict.set f2 "task_uuid" (.sys "<uuid>")             -- fields.update(self._identification)
  let f4 := Dict.set f3 "action_type" (.sys actionType)
  Dict.set f4 "task_level" (.sys "<level>")

/-- `_start_action_with_fields(action_type, fields)`: a fresh top-level `Action` (or a child of the
current one) with the default logger and no serializers, then `Action._start(fields)`.  The bound
arguments arrive as a dictionary, so none of them is taken for a parameter of `start_action`; nothing
here can raise (logging itself does not raise: C07). -/
def startActionWithFields (actionType : String) (fields : Dict BVal) : Msg :=
  startMessage actionType fields

/-- `Action.finish` as reached from `__exit__` -/
def endMessage (actionType : String) (opts : Opts) : Outcome → Msg
  | .ret v =>
    let f0 : Msg := if opts.includeResult then [("result", .res v)] else []
    let f1 := Dict.set f0 "action_status" (.sys "succeeded")
    let f2 := Dict.set f1 "timestamp" (.sys "<time>")
    let f3 := Dict.set f2 "task_uuid" (.sys "<uuid>")
    let f4 := Dict.set f3 "action_type" (.sys actionType)
    Dict.set f4 "task_level" (.sys "<level>")
  | .raised _ =>
    let f0 : Msg := [("exception", .sys "<class>"), ("reason", .sys "<reason>")]
    let f1 := Dict.set f0 "action_status" (.sys "failed")
    let f2 := Dict.set f1 "timestamp" (.sys "<time>")
    let f3 := Dict.set f2 "task_uuid" (.sys "<uuid>")
    let f4 := Dict.set f3 "action_type" (.sys actionType)
    Dict.set f4 "task_level" (.sys "<level>")

structure Run where
  msgs : List Msg
  result : Outcome
deriving Repr

/-- `logging_wrapper(*args, **kwargs)` -/
def wrapper (m : FnMeta) (sig : Sig) (opts : Opts) (f : Body) (pos : List Val) (kw : List (String × Val)) : Run :=
  match getcallargs sig pos kw with
  | .error _ => ⟨[], .raised .typeError⟩
  | .ok ca0 =>
    let ca1 := Dict.del ca0 "self"
    let ca2 := applyInclude opts ca1
    let start := startActionWithFields (theActionType m opts) ca2
    let r := callDirect sig f pos kw
    ⟨[start, endMessage (theActionType m opts) opts r], r⟩

/-! ## The outer function generated by `boltons.funcutils.wraps`

`log_call` returns `wraps(wrapped_function)(logging_wrapper)`: a *new* function compiled from
`def name(<sig without the "/" marker>): return _call(<invocation>)` with the original defaults.
So a decorated call is first bound by Python against the demoted signature (positional-only
parameters become positional-or-keyword: `inspect_formatargspec` has no notion of "/"), then
`logging_wrapper` is invoked with every parameter passed explicitly
(`FunctionBuilder.get_invocation_str`). -/

def Param.demote (p : Param) : Param :=
  match p.kind with
  | .posOnly => { p with kind := .posOrKw }
  | _ => p

def Sig.demote (sig : Sig) : Sig := sig.map Param.demote

def oneOf (b : Bound) (name : String) : List Val :=
  match Dict.get? b name with
  | some (.one v) => [v]
  | _ => []          -- not reachable for a `b` produced by `bind`

/-- `get_invocation_str`: which arguments are forwarded positionally / by keyword -/
def Param.forwardedByKeyword (hasVarPos : Bool) (p : Param) : Bool :=
  p.default.isSome && !hasVarPos && p.kind != .posOnly

def invocation (sig : Sig) (b : Bound) : List Val × List (String × Val) :=
  let hv := sig.varPos.isSome
  let posPart := (sig.positional.filter (fun p => !p.forwardedByKeyword hv)).flatMap (fun p => oneOf b p.name)
  let star := match sig.varPos with
    | some va => (match Dict.get? b va with | some (.tup vs) => vs | _ => [])
    | Option.none => []
  let kwPart := (sig.positional.filter (fun p => p.forwardedByKeyword hv)).flatMap
      (fun p => (oneOf b p.name).map fun v => (p.name, v))
  let kwOnlyPart := sig.kwOnly.flatMap (fun p => (oneOf b p.name).map fun v => (p.name, v))
  let starstar := match sig.varKw with
    | some vk => (match Dict.get? b vk with | some (.dict kvs) => kvs | _ => [])
    | Option.none => []
  (posPart ++ star, kwPart ++ kwOnlyPart ++ starstar)

/-- binding of the call by the generated outer function, and what it hands to `logging_wrapper` -/
def outer (sig : Sig) (pos : List Val) (kw : List (String × Val)) : Except TypeErr (List Val × List (String × Val)) :=
  match bind sig.demote pos kw with
  | .error e => .error e
  | .ok b => .ok (invocation sig b)

/-- The generated function's body is `return _call(<invocation>)`, with `_call` (the `logging_wrapper`) a
global of the `exec` namespace (`execdict = dict(_call=wrapper, _func=func)`): a parameter called `_call`
hides it. (`_func` is not used by the body.) -/
def Sig.capturesCall (sig : Sig) : Bool := sig.names.contains "_call"

/-- A call of the decorated function. -/
def decorated (m : FnMeta) (sig : Sig) (opts : Opts) (f : Body) (pos : List Val) (kw : List (String × Val)) : Run :=
  match outer sig pos kw with
  | .error _ => ⟨[], .raised .typeError⟩
  | .ok (pos', kw') =>
    -- `return _call(<invocation>)`: a parameter of that name shadows the global; argument values are not callable
    if sig.capturesCall then ⟨[], .raised .typeError⟩ else wrapper m sig opts f pos' kw'

/-- Stacked decoration `log_call(**outer)(log_call(**inner)(f))`.  The function the outer `log_call`
wraps is the one boltons generated for the inner layer: its parameters are `sig.demote`, and calling it
is `decorated … sig inner …`.  The inner action runs inside the outer one. -/
def decoratedTwice (mOuter mInner : FnMeta) (sig : Sig) (optsOuter optsInner : Opts) (f : Body)
    (pos : List Val) (kw : List (String × Val)) : Run :=
  match outer sig.demote pos kw with
  | .error _ => ⟨[], .raised .typeError⟩
  | .ok (pos', kw') =>
    if sig.capturesCall then ⟨[], .raised .typeError⟩ else
    match getcallargs sig.demote pos' kw' with
    | .error _ => ⟨[], .raised .typeError⟩
    | .ok ca0 =>
      let ca2 := applyInclude optsOuter (Dict.del ca0 "self")
      let start := startActionWithFields (theActionType mOuter optsOuter) ca2
      let inner := decorated mInner sig optsInner f pos' kw'
      ⟨start :: inner.msgs ++ [endMessage (theActionType mOuter optsOuter) optsOuter inner.result], inner.result⟩

/-! ## Predicates used as hypotheses of the partial theorems -/

/-- the keys `Action._start` writes itself, over whatever argument has the same name -/
def structuralNames : List String := ["action_status", "timestamp", "task_uuid", "action_type", "task_level"]

/-- no parameter is called like a key `Action._start` writes itself -/
def Sig.noStructural (sig : Sig) : Bool := sig.all fun p => !structuralNames.contains p.name

def sameMap (g b : Dict BVal) : Bool :=
  g.all (fun e => Dict.get? b e.1 == some e.2) && b.all (fun e => Dict.get? g e.1 == some e.2)

/-- On this call `inspect.getcallargs` yields what the plain call binds (whenever the call binds). -/
def getcallargsAgrees (sig : Sig) (pos : List Val) (kw : List (String × Val)) : Bool :=
  match bind sig pos kw with
  | .error _ => true
  | .ok b =>
    match getcallargs sig pos kw with
    | .ok g => sameMap g b
    | .error _ => false

/-- On this call the three binders involved in a decorated call (the boltons outer function,
`inspect.getcallargs` on the forwarded arguments, the inner real call on the forwarded arguments)
all agree with the plain call: same locals when the plain call binds, `TypeError` when it does not. -/
def bindingAgrees (sig : Sig) (pos : List Val) (kw : List (String × Val)) : Bool :=
  match bind sig pos kw, outer sig pos kw with
  | .ok b, .ok (pos', kw') =>
    (match bind sig pos' kw' with
     | .ok b' => b' == b
     | .error _ => false)
    && (match getcallargs sig pos' kw' with
        | .ok g => sameMap g b
        | .error _ => false)
  | .error _, .error _ => true
  | _, _ => false

/-- no keyword of the call is spelled like a positional-only parameter -/
def posOnlyRespected (sig : Sig) (kw : List (String × Val)) : Bool :=
  kw.all fun e => sig.all fun p => !(p.kind == .posOnly && p.name == e.1)

end LC
