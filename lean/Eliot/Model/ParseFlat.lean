import Eliot.Model.Parse
/-!
# `eliot/parse.py` as it is written: the flat map `_nodes`

`Model/Parse.lean` keeps a task as one trie; `Task.add` there is a path update.  The code keeps
`Task._nodes : pmap TaskLevel -> WrittenAction | WrittenMessage`, in which **every action is stored
under its own level with full copies of its children inside**, and `Task.add` walks *upwards*:
it fetches the action the message belongs to from the map (or makes a placeholder), changes it,
stores it back (`_insert_action`), fetches the parent from the map, replaces the child copy inside
the parent (`_ensure_node_parents`), stores the parent back, and so on up to the root, re-evaluating
completeness at every level with the `_completed` set as it is at that moment.

This file is that algorithm, statement by statement, on the same `Node` type (a `WrittenAction` with
its `_children` map *is* a trie node; plain messages are never stored in `_nodes` themselves, except
for the single-message task at the root).  `Proofs/ParseFlat.lean` proves that it refines the trie
**where the trie's `add` succeeds and the message is inside the domain `PlainDom`**: if the map holds,
under every level, exactly the sub-trie at that level when that is an action, it does so again after
such an `add`, and `_completed` has the same members.  Outside that (a plain message arriving where an
action is known; anything arriving at or below a plain message, where the trie answers `underMessage`
while the code makes a placeholder action) nothing is proved; there this model, not the trie, is what
the correspondence compares with the code.  No Mathlib.
-/
namespace PM

/-- the sub-trie at a relative path (`WrittenAction._children[...]..._children[...]`) -/
def Node.lookup : List Nat → Node → Option Node
  | [], n => some n
  | k :: p, .act _ _ ch => (ch.get? k).bind (Node.lookup p)
  | _ :: _, .msg _ => none

def Node.isAct : Node → Bool
  | .act .. => true
  | .msg _ => false

/-- `Task` of `parse.py`: `_nodes` as an association list (`pmap.set` = put in front, `get` = first
match), `_completed` as a list read only through membership. -/
structure FTask where
  nodes : List (Level × Node) := []
  completed : List Level := []

def FTask.get (t : FTask) (l : Level) : Option Node := t.nodes.lookup l

/-- the first half of `Task._insert_action(node)`: the completeness test against `self._completed`
and `transform(["_nodes", node.task_level], node)` -/
def FTask.visit (t : FTask) (lvl : Level) (node : Node) : FTask :=
  { nodes := (lvl, node) :: t.nodes,
    completed := if node.completeNow t.completed lvl then lvl :: t.completed else t.completed }

/-- `Task._insert_action(node)` followed by `_ensure_node_parents(node)` and so on up to the root.
The level is passed reversed (last component first) so that the recursion is structural:
`task_level.parent()` is the tail. `parent._add_child(child)` on something that is not a
`WrittenAction` raises. -/
def FTask.upward (t : FTask) : List Nat → Node → Except Err FTask
  | [], node => .ok (t.visit [] node)
  | k :: rp, node =>
    let t' := t.visit (k :: rp).reverse node
    match (t'.get rp.reverse).getD emptyAct with
    | .msg _ => .error .underMessage
    | .act s e ch => FTask.upward t' rp (.act s e (ch.set k node))

/-- `Task.add(message_dict)` -/
def FTask.add (t : FTask) (m : PMsg) : Except Err FTask :=
  match m.atype with
  | some _ =>
    match m.level.reverse with
    | [] => .error .badLevel
    | _ :: revPath => do
      let op ← match m.status with
        | some "started" => pure (Op.setStart m)
        | some _ => pure (Op.setEnd m)
        | none => .error .missingStatus
      let action := (t.get revPath.reverse).getD emptyAct
      let action' ← op.apply action
      t.upward revPath action'
  | none =>
    if m.level = [1] then
      pure { nodes := ([], .msg m) :: t.nodes, completed := [] :: t.completed }
    else
      match m.level.reverse with
      | [] => pure t
      | k :: revPath => do
        let parent := (t.get revPath.reverse).getD emptyAct
        let parent' ← (Op.addMsg k m).apply parent
        t.upward revPath parent'

def FTask.isComplete (t : FTask) : Bool := t.completed.contains []

def FTask.root (t : FTask) : Option Node := t.get []

/-! ## `Parser` over flat tasks: same routing, handing back and discarding as `PM.Parser` -/

abbrev FParser := List (String × FTask)

def FParser.add (p : FParser) (m : PMsg) : Except Err (List (String × FTask) × FParser) := do
  let cur := (p.lookup m.uuid).getD {}
  let t ← cur.add m
  let rest := p.filter (fun e => e.1 != m.uuid)
  if t.isComplete then pure ([(m.uuid, t)], rest) else pure ([], (m.uuid, t) :: rest)

def FParser.feed : FParser → List PMsg → Except Err (List (String × FTask) × FParser)
  | p, [] => pure ([], p)
  | p, m :: ms => do
    let (done, p') ← p.add m
    let (done', p'') ← FParser.feed p' ms
    pure (done ++ done', p'')

def fparseStream (ms : List PMsg) : Except Err (List (String × FTask)) := do
  let (done, p) ← FParser.feed [] ms
  pure (done ++ p)

end PM
