/-! # Model of `eliot.prettyprint` (`pretty_format`, `compact_format`, the per-line body of `_main`)
and of `eliot.filter.EliotFilter.run` (property C20).  Executable, no Mathlib.

Text is a list of Unicode code points, bytes a list of `Nat < 256` (newline = 10 in both), so that a
Python `str` with lone surrogates (which `json.loads` can produce) is representable.

What is *not* Eliot's code is a parameter (`Env`): `pprint.pformat(·, width=40)`, `json.dumps(·,
separators=(",", ":"))`, `str(·)`, `datetime.(utc)fromtimestamp(·).isoformat()`, `json.loads`,
`repr` of a bytes object, the filter's `json.dumps(·, cls=_DatetimeJSONEncoder)`.  Everything Eliot
does with their results (escape replacement, re-indentation, field order, skip set, header, the
`Not JSON` / `Not an Eliot message` fallbacks, the two `try/except` of `_main` with exactly the classes
they catch, the writes to stdout and their one fallback, and every place where it would raise) is
transliterated (tree at 4ea2a53). -/
namespace PP

abbrev Text := List Nat
abbrev Bytes := List Nat

inductive JVal where
  | null
  | bool (b : Bool)
  | int (i : Int)
  | num (tok : Text)            -- a float, as the token Python prints for it
  | str (s : Text)
  | arr (xs : List JVal)
  | obj (kvs : List (Text × JVal))
deriving Repr, Inhabited

abbrev Fields := List (Text × JVal)

/-- Exception classes that can leave the readers. -/
inductive Exc where
  | attributeError | typeError | keyError | valueError | overflowError | osError | recursionError | unicodeEncodeError | other
deriving DecidableEq, Repr, Inhabited

/-- Result of `json.loads(line)`. -/
inductive Decoded where
  | value (v : JVal)
  | notJson                      -- raised `ValueError` (JSONDecodeError, UnicodeDecodeError, int-digit limit)
  | raises (e : Exc)             -- raised something that is not a `ValueError` (RecursionError on deep nesting)
deriving Inhabited

structure Env where
  pformat : JVal → Except Exc Text            -- pprint.pformat(value, width=40); RecursionError on very deep nesting
  dumps : JVal → Text                         -- json.dumps(value, separators=(",", ":"))
  pyStr : JVal → Text                         -- str(value)
  isoTime : JVal → Bool → Except Exc Text     -- _render_timestamp's datetime part; Bool = local timezone
  loads : Bytes → Decoded                     -- json.loads
  reprBytes : Bytes → Text                    -- "{}".format(b)
  filterDumps : JVal → Except Exc Text        -- json.dumps(result, cls=_DatetimeJSONEncoder)
  encodable : Text → Bool                     -- stdout's encoder accepts the text (UTF-8: no lone surrogate)
  backslashreplace : Text → Text              -- s.encode(enc, "backslashreplace").decode(enc)

/-! ## Text helpers (Python `str` methods used by the code) -/

def t (s : String) : Text := s.toList.map Char.toNat

/-- `s.replace(<two-character pattern a b>, rep)`: leftmost, non-overlapping -/
def replace2 (a b : Nat) (rep : Text) : Text → Text
  | [] => []
  | [x] => [x]
  | x :: y :: rest =>
    if x = a ∧ y = b then rep ++ replace2 a b rep rest
    else x :: replace2 a b rep (y :: rest)

/-- `s.split("\n")` -/
def splitNl : Text → List Text
  | [] => [[]]
  | c :: cs =>
    match splitNl cs with
    | [] => [[]]
    | l :: ls => if c = 10 then [] :: l :: ls else (c :: l) :: ls

/-- `sep.join(parts)` -/
def join (sep : Text) : List Text → Text
  | [] => []
  | [p] => p
  | p :: ps => p ++ sep ++ join sep ps

/-- `b.rstrip(b"\n")` -/
def rstripNl (b : Bytes) : Bytes := (b.reverse.dropWhile (· = 10)).reverse

/-! ## Dict access, ordering -/

def get? (m : Fields) (k : Text) : Option JVal :=
  match m with
  | [] => none
  | (k', v) :: rest => if k' = k then some v else get? rest k

def has (m : Fields) (k : Text) : Bool := (get? m k).isSome

/-- Python's `str <`: lexicographic by code point -/
def textLt : Text → Text → Bool
  | [], [] => false
  | [], _ :: _ => true
  | _ :: _, [] => false
  | a :: as, b :: bs => if a < b then true else if b < a then false else textLt as bs

def insertItem (e : Text × JVal) : Fields → Fields
  | [] => [e]
  | x :: xs => if textLt e.1 x.1 then e :: x :: xs else x :: insertItem e xs

/-- `sorted(message.items())` — decided by the keys alone since the keys of a dict are distinct -/
def sortItems : Fields → Fields
  | [] => []
  | e :: es => insertItem e (sortItems es)

def kTimestamp := t "timestamp"
def kTaskUuid := t "task_uuid"
def kTaskLevel := t "task_level"
def kMessageType := t "message_type"
def kActionType := t "action_type"
def kActionStatus := t "action_status"

def requiredFields : List Text := [kTaskLevel, kTaskUuid, kTimestamp]
def skipFields : List Text := [kTimestamp, kTaskUuid, kTaskLevel, kMessageType, kActionType, kActionStatus]
def firstFields : List Text := [kActionType, kMessageType, kActionStatus]

/-- the (key, value) pairs shown after the header, in order -/
def shown (m : Fields) : Fields :=
  firstFields.filterMap (fun f => (get? m f).map fun v => (f, v))
  ++ (sortItems m).filter (fun e => !skipFields.contains e.1)

/-! ## The header -/

/-- what `map(str, x)` iterates over; `none` = `TypeError: … object is not iterable` -/
def iterOf : JVal → Option (List JVal)
  | .arr xs => some xs
  | .str s => some (s.map fun c => .str [c])
  | .obj kvs => some (kvs.map fun e => .str e.1)
  | _ => none

/-- `"/" + "/".join(map(str, message["task_level"]))` -/
def levelText (E : Env) (m : Fields) : Except Exc Text :=
  match get? m kTaskLevel with
  | none => .error .keyError
  | some v =>
    match iterOf v with
    | none => .error .typeError
    | some xs => .ok (t "/" ++ join (t "/") (xs.map E.pyStr))

def uuidText (E : Env) (m : Fields) : Except Exc Text :=
  match get? m kTaskUuid with
  | none => .error .keyError
  | some v => .ok (E.pyStr v)

/-- `_render_timestamp` -/
def renderTimestamp (E : Env) (m : Fields) (localTz : Bool) : Except Exc Text :=
  match get? m kTimestamp with
  | none => .error .keyError
  | some v =>
    match E.isoTime v localTz with
    | .error e => .error e
    | .ok s => .ok (if localTz then s else s ++ t "Z")

/-! ## `pretty_format` -/

/-- the nested `add_field`, given the `pformat` text of the value -/
def addFieldText (key : Text) (p : Text) : Text :=
  let v := replace2 92 116 [9] (replace2 92 110 [10, 32] p)
  let indent := List.replicate (2 + key.length) 32 ++ t "| "
  let v' := match splitNl v with
    | [] => []
    | l :: ls => join [10] (l :: ls.map (indent ++ ·))
  t "  " ++ key ++ t ": " ++ v' ++ [10]

def addField (E : Env) (key : Text) (value : JVal) : Except Exc Text :=
  match E.pformat value with
  | .error e => .error e
  | .ok p => .ok (addFieldText key p)

/-- `remaining += add_field(...)` over the shown pairs, in order -/
def bodyOf (E : Env) : Fields → Except Exc Text
  | [] => .ok []
  | e :: es =>
    match addField E e.1 e.2 with
    | .error x => .error x
    | .ok a =>
      match bodyOf E es with
      | .error x => .error x
      | .ok r => .ok (a ++ r)

def prettyBody (E : Env) (m : Fields) : Except Exc Text := bodyOf E (shown m)

def prettyFormat (E : Env) (m : Fields) (localTz : Bool) : Except Exc Text :=
  -- `remaining` is built first; then `level`, then the `%` tuple left to right
  match prettyBody E m with
  | .error e => .error e
  | .ok body =>
    match levelText E m with
    | .error e => .error e
    | .ok level =>
      match uuidText E m with
      | .error e => .error e
      | .ok uuid =>
        match renderTimestamp E m localTz with
        | .error e => .error e
        | .ok ts => .ok (uuid ++ t " -> " ++ level ++ [10] ++ ts ++ [10] ++ body)

/-! ## `compact_format` -/

def compactPart (E : Env) (e : Text × JVal) : Text := e.1 ++ t "=" ++ E.dumps e.2

def compactBody (E : Env) (m : Fields) : Text := join (t " ") ((shown m).map (compactPart E))

def compactFormat (E : Env) (m : Fields) (localTz : Bool) : Except Exc Text :=
  -- `rendered` first (json.dumps of decoded JSON does not raise); then the `%` tuple left to right
  match uuidText E m with
  | .error e => .error e
  | .ok uuid =>
    match levelText E m with
    | .error e => .error e
    | .ok level =>
      match renderTimestamp E m localTz with
      | .error e => .error e
      | .ok ts => .ok (uuid ++ level ++ t " " ++ ts ++ t " " ++ compactBody E m)

/-! ## `_main`, one input line -/

inductive Out where
  | formatted (s : Text)
  | notJson (s : Text)
  | notEliot (s : Text)
  | aborts (e : Exc)        -- an exception leaves `_main`: the rest of the input is never read
deriving Inhabited

/-- `except (TypeError, ValueError, OverflowError, OSError)` around the formatter call -/
def caught (e : Exc) : Bool :=
  e == .typeError || e == .valueError || e == .unicodeEncodeError || e == .overflowError || e == .osError

/-- `stdout.write(s)`: the text written, or `UnicodeEncodeError` -/
def write (E : Env) (s : Text) : Except Exc Text :=
  if E.encodable s then .ok s else .error .unicodeEncodeError

/-- the two report lines are written without any guard -/
def report (E : Env) (mk : Text → Out) (s : Text) : Out :=
  match write E s with
  | .ok w => mk w
  | .error e => .aborts e

/-- `try: stdout.write(result)  except UnicodeEncodeError: stdout.write(<result with backslashreplace>)` (4ea2a53) -/
def writeResult (E : Env) (s : Text) : Out :=
  match write E s with
  | .ok w => .formatted w
  | .error _ =>
    match write E (E.backslashreplace s) with
    | .ok w => .formatted w
    | .error e => .aborts e

def cliLine (E : Env) (compact localTz : Bool) (line : Bytes) : Out :=
  let notEliot := report E Out.notEliot (t "Not an Eliot message: " ++ E.reprBytes (rstripNl line) ++ [10, 10])
  let notJson := report E Out.notJson (t "Not JSON: " ++ E.reprBytes (rstripNl line) ++ [10, 10])
  match E.loads line with
  | .notJson => notJson
  | .raises e =>
    -- `except (ValueError, RecursionError)`
    if e = .recursionError then notJson else .aborts e
  | .value (.obj m) =>
    -- `not isinstance(message, dict) or REQUIRED_FIELDS - set(message.keys())`
    if requiredFields.any (fun r => !has m r) then notEliot
    else
      match (if compact then compactFormat E m localTz else prettyFormat E m localTz) with
      | .ok s => writeResult E (s ++ [10])
      | .error e => if caught e then notEliot else .aborts e
  | .value _ => notEliot

/-- the loop: outputs so far, and the exception that ended it (if any) -/
def cliRun (E : Env) (compact localTz : Bool) : List Bytes → List Text × Option Exc
  | [] => ([], none)
  | l :: ls =>
    match cliLine E compact localTz l with
    | .aborts e => ([], some e)
    | .formatted s | .notJson s | .notEliot s =>
      let r := cliRun E compact localTz ls
      (s :: r.1, r.2)

/-! ## `EliotFilter.run` -/

inductive FOut where
  | wrote (s : Text)
  | skipped
  | aborts (e : Exc)
deriving Inhabited

/-- `expr`: the compiled expression; `none` = the `SKIP` sentinel -/
def filterLine (E : Env) (expr : JVal → Except Exc (Option JVal)) (line : Bytes) : FOut :=
  match E.loads line with
  | .notJson => .aborts .valueError
  | .raises e => .aborts e
  | .value v =>
    match expr v with
    | .error e => .aborts e
    | .ok none => .skipped
    | .ok (some r) =>
      match E.filterDumps r with
      | .error e => .aborts e
      | .ok s => .wrote (s ++ [10])

def filterRun (E : Env) (expr : JVal → Except Exc (Option JVal)) : List Bytes → List Text × Option Exc
  | [] => ([], none)
  | l :: ls =>
    match filterLine E expr l with
    | .aborts e => ([], some e)
    | .skipped => filterRun E expr ls
    | .wrote s =>
      let r := filterRun E expr ls
      (s :: r.1, r.2)

end PP
