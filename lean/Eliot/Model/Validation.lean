/-! # Model of Eliot's test-time validation (property C14).  Executable, no Mathlib.

* `Field.validate`, `Field.forTypes`, `Field.forValue`              — `fieldValidate`, `accepts`
* `_MessageSerializer.validate` / `.serialize`                       — `validate`, `serializeAll`
* `MessageType`, `ActionType`, `TRACEBACK_MESSAGE` serializer set-up  — `messageTypeSerializer`, `actionTypeSerializers`, `tracebackSerializer`
* `MemoryLogger._validate_message`, `.write`, `.validate`            — `memValidate`, `MemLogger.write`, `MemLogger.validateAll`
* `eliot.testing.check_for_errors`                                   — `checkForErrors`
* `swap_logger` + `capture_logging`'s cleanups under `unittest`       — section "default logger"

User callbacks (custom serializers, extra validators) and the JSON encoder are oracles (`Env`).
Values are flat: a container is abstracted to its class and to whether its content is
JSON-encodable, which is all the validation code looks at. -/
namespace VM

inductive PyClass where
  | noneType | bool | int | float | str | list | dict | bytes | type | other
deriving DecidableEq, Repr, Inhabited

inductive Val where
  | none
  | bool (b : Bool)
  | int (i : Int)
  | flt (n : Int) (k : Nat)          -- the float n / 2^k
  | str (s : String)
  | bytes (id : Nat)
  | list (id : Nat) (enc : Bool)     -- enc: every element is JSON-encodable
  | dict (id : Nat) (enc : Bool)
  | cls (id : Nat)                   -- a class object (what `write_traceback` passes as `exception`)
  | obj (id : Nat) (enc : Bool)      -- any other object; enc: `json_default` knows how to encode it
deriving DecidableEq, Repr, Inhabited

def Val.classOf : Val → PyClass
  | .none => .noneType | .bool _ => .bool | .int _ => .int | .flt .. => .float | .str _ => .str
  | .bytes _ => .bytes | .list .. => .list | .dict .. => .dict | .cls _ => .type | .obj .. => .other

/-- `isinstance(v, c)` on the classes `Field.forTypes` admits (`bool` is a subclass of `int`) -/
def isInstance (v : Val) (c : PyClass) : Bool :=
  v.classOf == c || (v.classOf == .bool && c == .int)

/-- The values `Field.forValue` is used with. -/
inductive Scalar where
  | none | bool (b : Bool) | int (i : Int) | flt (n : Int) (k : Nat) | str (s : String)
deriving DecidableEq, Repr, Inhabited

def boolInt (b : Bool) : Int := if b then 1 else 0

/-- the number a value denotes, as numerator over 2^k (Python compares `bool`/`int`/`float` by value) -/
def Val.num? : Val → Option (Int × Nat)
  | .bool b => some (boolInt b, 0) | .int i => some (i, 0) | .flt n k => some (n, k) | _ => Option.none
def Scalar.num? : Scalar → Option (Int × Nat)
  | .bool b => some (boolInt b, 0) | .int i => some (i, 0) | .flt n k => some (n, k) | _ => Option.none

/-- Python `checked == value` -/
def pyEq (v : Val) (s : Scalar) : Bool :=
  match v.num?, s.num? with
  | some (a, j), some (b, k) => a * (2 : Int) ^ k == b * (2 : Int) ^ j
  | _, _ =>
    match v, s with
    | .none, .none => true
    | .str a, .str b => a == b
    | _, _ => false

/-- orjson (+ `json_default`) can encode the value -/
def Val.encodable : Val → Bool
  | .none => true | .bool _ => true
  | .int i => decide (-(2 : Int) ^ 63 ≤ i) && decide (i ≤ (2 : Int) ^ 64 - 1)
  | .flt .. => true | .str _ => true
  | .bytes _ => false | .cls _ => false
  | .list _ e => e | .dict _ e => e | .obj _ e => e

/-- Exception classes. -/
inductive Exc where
  | validationError | typeError | unicodeDecodeError | unflushedTracebacks
  | other (name : String)
deriving DecidableEq, Repr, Inhabited

/-- User callbacks: custom serializers and extra validators, by id.  Deterministic. -/
structure Env where
  serialize : Nat → Val → Except Exc Val
  extra : Nat → Val → Except Exc Unit

inductive FieldSpec where
  | forTypes (key : String) (classes : List PyClass) (extra : Option Nat)
  | forValue (key : String) (value : Scalar)
  | custom (key : String) (ser : Nat) (extra : Option Nat)
deriving Repr, Inhabited

def FieldSpec.key : FieldSpec → String
  | .forTypes k .. => k | .forValue k _ => k | .custom k .. => k

def scalarVal : Scalar → Val
  | .none => .none | .bool b => .bool b | .int i => .int i | .flt n k => .flt n k | .str s => .str s

def runExtra (E : Env) : Option Nat → Val → Except Exc Unit
  | Option.none, _ => .ok ()
  | some id, v => E.extra id v

/-- `Field.serialize` -/
def fieldSerialize (E : Env) : FieldSpec → Val → Except Exc Val
  | .forTypes .., v => .ok v                       -- lambda v: v
  | .forValue _ value, _ => .ok (scalarVal value)  -- lambda _: value
  | .custom _ ser _, v => E.serialize ser v

/-- `Field.validate`: the serializer must accept the input, then the extra validator -/
def fieldValidate (E : Env) (f : FieldSpec) (v : Val) : Except Exc Unit :=
  match fieldSerialize E f v with
  | .error e => .error e
  | .ok _ =>
    match f with
    | .forTypes _ classes extra =>
      if classes.any (isInstance v) then runExtra E extra v else .error .validationError
    | .forValue _ value => if pyEq v value then .ok () else .error .validationError
    | .custom _ _ extra => runExtra E extra v

/-- "the field accepts the value" -/
def accepts (E : Env) (f : FieldSpec) (v : Val) : Bool :=
  match fieldValidate E f v with
  | .ok _ => true
  | .error _ => false

/-! ## Messages and serializers -/

inductive Key where
  | s (k : String)
  | b (id : Nat) (utf8 : Bool)     -- a bytes key
  | o (id : Nat)                   -- any other key object
deriving DecidableEq, Repr, Inhabited

abbrev Msg := List (Key × Val)

def Msg.get? (m : Msg) (k : String) : Option Val :=
  match m with
  | [] => Option.none
  | (k', v) :: rest => if k' = Key.s k then some v else Msg.get? rest k

def Msg.set (m : Msg) (k : String) (v : Val) : Msg :=
  match m with
  | [] => [(Key.s k, v)]
  | (k', v') :: rest => if k' = Key.s k then (k', v) :: rest else (k', v') :: Msg.set rest k v

structure Serializer where
  fields : List FieldSpec
  allowExtra : Bool := false
deriving Repr, Inhabited

def reserved : List String := ["task_level", "task_uuid", "timestamp"]

def Serializer.declared (ser : Serializer) : List String := ser.fields.map (·.key)

/-- the first loop of `_MessageSerializer.validate` -/
def validateFields (E : Env) (m : Msg) : List FieldSpec → Except Exc Unit
  | [] => .ok ()
  | f :: fs =>
    match m.get? f.key with
    | Option.none => .error .validationError            -- Field %r is missing
    | some v =>
      match fieldValidate E f v with
      | .error e => .error e
      | .ok _ => validateFields E m fs

def keyAllowed (ser : Serializer) : Key → Bool
  | .s k => ser.declared.contains k || reserved.contains k
  | _ => false

/-- `_MessageSerializer.validate` -/
def validate (E : Env) (ser : Serializer) (m : Msg) : Except Exc Unit :=
  match validateFields E m ser.fields with
  | .error e => .error e
  | .ok _ =>
    if ser.allowExtra then .ok ()
    else if m.all (fun e => keyAllowed ser e.1) then .ok () else .error .validationError   -- Unexpected field %r

/-- `_MessageSerializer.serialize` (in place in Python) -/
def serializeAll (E : Env) : List FieldSpec → Msg → Except Exc Msg
  | [], m => .ok m
  | f :: fs, m =>
    match m.get? f.key with
    | Option.none => .error (.other "KeyError")
    | some v =>
      match fieldSerialize E f v with
      | .error e => .error e
      | .ok v' => serializeAll E fs (m.set f.key v')

/-- the key loop of `_validate_message` -/
def checkKeys : Msg → Except Exc Unit
  | [] => .ok ()
  | (.s _, _) :: rest => checkKeys rest
  | (.b _ true, _) :: rest => checkKeys rest           -- key.decode("utf-8") succeeds; the key stays bytes
  | (.b _ false, _) :: _ => .error .unicodeDecodeError
  | (.o _, _) :: _ => .error .typeError

/-- `_dumps_unicode(dictionary, default=…)` succeeds -/
def jsonEncodable (m : Msg) : Bool :=
  m.all fun e => (match e.1 with | .s _ => true | _ => false) && e.2.encodable

/-- `MemoryLogger._validate_message(dictionary, serializer)` -/
def memValidate (E : Env) (ser : Option Serializer) (m : Msg) : Except Exc Unit :=
  match (match ser with | some s => validate E s m | Option.none => .ok ()) with
  | .error e => .error e
  | .ok _ =>
    match checkKeys m with
    | .error e => .error e
    | .ok _ =>
      match (match ser with | some s => serializeAll E s.fields m | Option.none => .ok m) with
      | .error e => .error e
      | .ok m' => if jsonEncodable m' then .ok () else .error .typeError

/-! ## Serializers of the declared types -/

def messageTypeSerializer (messageType : String) (fields : List FieldSpec) : Serializer :=
  { fields := fields ++ [.forValue "message_type" (.str messageType)] }

structure ActionSerializers where
  start : Serializer
  success : Serializer
  failure : Serializer

def reasonField : FieldSpec := .forTypes "reason" [.str] Option.none
def exceptionField : FieldSpec := .forTypes "exception" [.str] Option.none

def actionTypeSerializers (actionType : String) (startFields successFields : List FieldSpec) : ActionSerializers :=
  let atf := FieldSpec.forValue "action_type" (.str actionType)
  let st (v : String) := FieldSpec.forValue "action_status" (.str v)
  { start := { fields := startFields ++ [atf, st "started"] }
    success := { fields := successFields ++ [atf, st "succeeded"] }
    failure := { fields := [atf, st "failed", reasonField, exceptionField], allowExtra := true } }

/-- `TRACEBACK_MESSAGE._serializer`; serializer ids 0/1 stand for `safeunicode` and the class-name lambda -/
def tracebackSerializer : Serializer :=
  { fields := [.custom "reason" 0 Option.none, .custom "traceback" 0 Option.none, .custom "exception" 1 Option.none,
               .forValue "message_type" (.str "eliot:traceback")]
    allowExtra := true }

/-! ## `MemoryLogger` and `check_for_errors` -/

structure Written where
  msg : Msg
  ser : Option Serializer
  isTraceback : Bool             -- `serializer is TRACEBACK_MESSAGE._serializer`

structure MemLogger where
  messages : List Written := []
  tracebacks : List Msg := []
  failed : Nat := 0               -- len(_failed_validations)

/-- `MemoryLogger.write`: never raises, records -/
def MemLogger.write (E : Env) (l : MemLogger) (w : Written) : MemLogger :=
  { messages := l.messages ++ [w]
    tracebacks := if w.isTraceback then l.tracebacks ++ [w.msg] else l.tracebacks
    failed := match memValidate E w.ser w.msg with | .ok _ => l.failed | .error _ => l.failed + 1 }

/-- `MemoryLogger.validate`: the first message that does not validate decides what is raised
(`TypeError`/`ValidationError` re-created, anything else propagates as it is) -/
def validateAll (E : Env) : List Written → Except Exc Unit
  | [] => .ok ()
  | w :: ws =>
    match memValidate E w.ser w.msg with
    | .error e => .error e
    | .ok _ => validateAll E ws

/-- `eliot.testing.check_for_errors` -/
def checkForErrors (E : Env) (l : MemLogger) : Except Exc Unit :=
  if l.tracebacks ≠ [] then .error .unflushedTracebacks else validateAll E l.messages

/-! ### A logger's history: writes, `validate()`, `reset()`, `check_for_errors`

`validate()` works *in place*: a stored message that gets as far as the serialization step is replaced
by its serialized contents (`write` validates a copy and leaves the stored message alone). -/

/-- `_validate_message` together with what it leaves in the dictionary it was given -/
def memValidateS (E : Env) (ser : Option Serializer) (m : Msg) : Except Exc Unit × Msg :=
  match (match ser with | some s => validate E s m | Option.none => .ok ()) with
  | .error e => (.error e, m)
  | .ok _ =>
    match checkKeys m with
    | .error e => (.error e, m)
    | .ok _ =>
      match (match ser with | some s => serializeAll E s.fields m | Option.none => .ok m) with
      | .error e => (.error e, m)     -- (a serializer failing on an input it has just accepted: not reachable for deterministic callbacks)
      | .ok m' => (if jsonEncodable m' then .ok () else .error .typeError, m')

/-- `MemoryLogger.validate` with its effect on the stored messages; stops at the first failure -/
def validateAllS (E : Env) : List Written → Except Exc Unit × List Written
  | [] => (.ok (), [])
  | w :: ws =>
    let r := memValidateS E w.ser w.msg
    match r.1 with
    | .error e => (.error e, { w with msg := r.2 } :: ws)
    | .ok _ =>
      let rs := validateAllS E ws
      (rs.1, { w with msg := r.2 } :: rs.2)

/-- `MemoryLogger.reset` -/
def MemLogger.reset (_ : MemLogger) : MemLogger := {}

inductive Op where
  | write (w : Written)
  | validate
  | reset
  | check                        -- `check_for_errors(logger)`

/-- one operation: the logger afterwards and, for `validate` / `check`, what the call did -/
def MemLogger.step (E : Env) (l : MemLogger) : Op → MemLogger × Option (Except Exc Unit)
  | .write w => (l.write E w, Option.none)
  | .reset => (l.reset, Option.none)
  | .validate =>
    let r := validateAllS E l.messages
    ({ l with messages := r.2 }, some r.1)
  | .check =>
    if l.tracebacks ≠ [] then (l, some (.error .unflushedTracebacks))
    else
      let r := validateAllS E l.messages
      ({ l with messages := r.2 }, some r.1)

def MemLogger.run (E : Env) : MemLogger → List Op → MemLogger × List (Except Exc Unit)
  | l, [] => (l, [])
  | l, op :: ops =>
    let r := l.step E op
    let rs := MemLogger.run E r.1 ops
    (rs.1, (match r.2 with | some x => [x] | Option.none => []) ++ rs.2)

/-! ## The default logger under `capture_logging`

`swap_logger(logger)` is `prev = _DEFAULT_LOGGER; _DEFAULT_LOGGER = logger; return prev`; the wrapper
registers `lambda: swap_logger(prev)` with `addCleanup`; `unittest` runs the cleanups of a test case
last-in-first-out after the test method, whatever its outcome, and a cleanup that raises does not stop
the others. -/

inductive Outcome where
  | pass | fail | error | skip
deriving DecidableEq, Repr, Inhabited

inductive Cleanup where
  | restore (logger : Nat)      -- swap_logger(previous_logger)
  | check (logger : Nat)        -- check_for_errors(logger) / the assertion: may raise, does not touch the default
deriving DecidableEq, Repr

/-- A test method: its body ends with an outcome; it may be wrapped by `@capture_logging` (any number
of times); the body may first run complete inner test cases (which have their own cleanup stacks), and
it may replace the default logger on its own account. -/
inductive Test where
  | body (o : Outcome)
  | logsBad (rest : Test)        -- the body logs an entry that must be reported (deviating from its type, not JSON, a traceback); goes on as `rest`
  | swaps (rest : Test)          -- the body calls `swap_logger(MemoryLogger())` itself and never puts the old one back; then goes on as `rest`
  | captured (t : Test)
  | inner (t : Test) (rest : Test)
deriving Repr, Inhabited

structure St where
  default : Nat                 -- identity of `_output._DEFAULT_LOGGER`
  fresh : Nat                   -- next MemoryLogger identity
  cleanups : List Cleanup       -- this test case's stack, most recent first
  seen : List Nat := []         -- the default logger each test body found, in execution order
  bad : List Nat := []          -- loggers that received an entry `check_for_errors` must report
  reported : List Nat := []     -- loggers whose `check_for_errors` cleanup has raised, in order
deriving Repr

/-- the `check_for_errors` cleanups of a finished test method, in the order they run, that find something -/
def reportsOf (cleanups : List Cleanup) (bad : List Nat) : List Nat :=
  cleanups.filterMap fun c => match c with
    | .check l => if bad.contains l then some l else none
    | .restore _ => none

def runCleanups : List Cleanup → Nat → Nat
  | [], d => d
  | .restore p :: cs, _ => runCleanups cs p
  | .check _ :: cs, d => runCleanups cs d

mutual
/-- run the (possibly wrapped) test method inside a test case whose state is `s` -/
def exec : Test → St → St
  | .body _, s => { s with seen := s.seen ++ [s.default] }   -- whatever the outcome, the exception just propagates
  | .logsBad rest, s => exec rest { s with bad := s.default :: s.bad }
  | .swaps rest, s => exec rest { s with default := s.fresh, fresh := s.fresh + 1 }
  | .captured t, s =>
    -- validate_logging: logger = MemoryLogger(); addCleanup(check_for_errors, logger)
    -- capture_logging:  previous = swap_logger(logger); addCleanup(cleanup)
    let logger := s.fresh
    exec t { s with default := logger, fresh := s.fresh + 1, cleanups := .restore s.default :: .check logger :: s.cleanups }
  | .inner t rest, s =>
    let r := runCase t s.default s.fresh s.seen s.bad s.reported
    exec rest { s with default := r.default, fresh := r.fresh, seen := r.seen, bad := r.bad, reported := r.reported }
/-- `TestCase.run`: method, then `doCleanups()` — every cleanup, whatever the method's outcome; the state
afterwards (its own cleanup stack is used up) -/
def runCase : Test → Nat → Nat → List Nat → List Nat → List Nat → St
  | t, d, fresh, seen, bad, reported =>
    let s := exec t { default := d, fresh := fresh, cleanups := [], seen := seen, bad := bad, reported := reported }
    { s with default := runCleanups s.cleanups s.default, cleanups := [], reported := s.reported ++ reportsOf s.cleanups s.bad }
end

end VM
