import Eliot.Proofs.Writer
import Eliot.Generated.Writer
/-! # C19 - the threaded writer passes every message to its destination in order, off-thread

Model: `Eliot.Conc.Writer` (hand-written for the skeleton `Writer.assumed`; extractor E4 regenerates
the skeleton of `eliot/logwriter.py` on every check and `Generated.writer = assumed` is `decide`d).
`∀ sched` = every interleaving of any number of producers, the controller running start/stop
cycles statement by statement, the reader thread of each cycle and the thread joining it;
`∀ fails` = every failure mask of the wrapped destination.
Trusted: `queue.SimpleQueue` (unbounded FIFO, atomic put/get), `threading.Thread` start/join, the
Twisted `Service` / `deferToThreadPool` stand-ins.  "Logging does not block on slow output" is the
structural fact `callIsSinglePut` (the caller only does one non-blocking `put`), not a timing claim. -/
namespace Eliot.C19
open Eliot.Conc Eliot.Conc.Writer

/-- generated obligation: the current source has the shape the model is written for -/
example : Eliot.Generated.writer = Writer.assumed := by decide

/-- FIFO, exactly once - an invariant of every reachable state: everything ever put (messages and
STOP markers, in put order) is what has been taken out followed by what is still queued; and the
messages taken out are exactly the destination calls made so far, in the same order, each made by
the reader thread of its own cycle (tag = number of STOPs taken out before it), followed by the
message the reader currently holds.  Hence no message is passed twice, none is skipped, none
overtakes another. -/
theorem fifo_exactly_once (fails : Nat → Bool) (prog : Nat → List Nat) (cycles : Nat) (sched : List Tid) :
    let s := run fails (init prog cycles) sched
    s.puts = s.consumed ++ s.queue ∧
    tagged s.consumed 0 = s.attempted ++ held s ∧
    msgsOf s.puts = s.attempted.map (·.1) ++ (held s).map (·.1) ++ msgsOf s.queue := by
  intro s
  have hi : Writer.Inv fails s := inv_run fails prog cycles sched
  clear_value s
  refine ⟨hi.fifo, hi.tag, ?_⟩
  have h1 : msgsOf s.puts = msgsOf s.consumed ++ msgsOf s.queue := by
    rw [hi.fifo, msgsOf_append]
  have h2 : msgsOf s.consumed = (s.attempted ++ held s).map (·.1) := by
    rw [← hi.tag, tagged_fst]
  rw [h1, h2, List.map_append]

/-- stopService completes only after everything offered before it has been written: whenever the
stop result of the current cycle has completed, the queue history is `c ++ [STOP] ++ queue` and the
destination calls made so far are exactly the messages of `c` (everything put before that STOP),
each once, in put order, each on the reader thread of its cycle; nothing is held back. -/
theorem stop_drains (fails : Nat → Bool) (prog : Nat → List Nat) (cycles : Nat) (sched : List Tid) :
    let s := run fails (init prog cycles) sched
    s.joinDone = true →
      ∃ c, s.puts = c ++ [.stop] ++ s.queue ∧ s.attempted = tagged c 0 ∧ stops c + 1 = s.cycle ∧ held s = [] := by
  intro s
  have hi : Writer.Inv fails s := inv_run fails prog cycles sched
  clear_value s
  intro hj
  have hr := hi.jd hj
  have hc := hi.cyc
  have ht := hi.tag
  rw [hr] at hc
  obtain ⟨hst, c, hcons⟩ := hc
  have hh : held s = [] := by simp [held, hr]
  refine ⟨c, ?_, ?_, ?_, hh⟩
  · have := hi.fifo; rw [hcons] at this; exact this
  · rw [hh, List.append_nil, hcons, tagged_append] at ht
    simpa [tagged] using ht.symm
  · rw [hcons, stops_append] at hst
    simp [stops] at hst
    omega

/-- ... and no destination call of cycle `k` is ever recorded after the stop result of cycle `k`. -/
theorem calls_before_stop_result (fails : Nat → Bool) (prog : Nat → List Nat) (cycles : Nat) (sched : List Tid) :
    Ordered (run fails (init prog cycles) sched).events :=
  (inv_run fails prog cycles sched).ord

/-- An exception from the wrapped destination loses only that message and does not stop the writer:
`written` is `attempted` without the failing messages, and from "holding m" the reader's next step
always exists and leads back to `get`, whether or not the destination raises on `m`. -/
theorem dest_failure_loses_one (fails : Nat → Bool) (prog : Nat → List Nat) (cycles : Nat) (sched : List Tid) :
    let s := run fails (init prog cycles) sched
    s.written = s.attempted.filter (fun a => !fails a.1) ∧
    ∀ m k, s.reader = .holding m → k + 1 = s.cycle →
      ∃ s', step fails s (.reader k) = some s' ∧ s'.reader = .atGet ∧ s'.queue = s.queue ∧
        s'.attempted = s.attempted ++ [(m, k)] := by
  intro s
  have hi : Writer.Inv fails s := inv_run fails prog cycles sched
  clear_value s
  refine ⟨hi.wr, ?_⟩
  intro m k hr hk
  simp only [step, hk, ↓reduceIte, hr]
  exact ⟨_, rfl, rfl, rfl, rfl⟩

theorem tagged_ge (l : List Item) (n : Nat) : ∀ p ∈ tagged l n, n ≤ p.2 := by
  induction l generalizing n with
  | nil => intro p hp; simp [tagged] at hp
  | cons x r ih =>
    cases x with
    | msg m =>
      intro p hp
      simp only [tagged, List.mem_cons] at hp
      rcases hp with hp | hp
      · subst hp; exact Nat.le_refl _
      · exact ih n p hp
    | stop =>
      intro p hp
      simp only [tagged] at hp
      have := ih (n + 1) p hp
      omega

theorem tagged_sorted (l : List Item) (n : Nat) : List.Pairwise (fun a b => a.2 ≤ b.2) (tagged l n) := by
  induction l generalizing n with
  | nil => simp [tagged]
  | cons x r ih =>
    cases x with
    | msg m =>
      simp only [tagged, List.pairwise_cons]
      exact ⟨fun p hp => tagged_ge r n p hp, ih n⟩
    | stop => simpa [tagged] using ih (n + 1)

/-- The destination is called on a single thread other than the callers', one per cycle: a step
that makes a destination call is a step of the current reader thread (never of a producer, the
controller or a joiner); and in every reachable state the reader index attached to each call is
the number of STOPs taken out before its message (so all calls of one start/stop cycle are made by
that cycle's one reader thread, and reader indices never decrease along the call sequence). -/
theorem single_reader_thread (fails : Nat → Bool) (prog : Nat → List Nat) (cycles : Nat) (sched : List Tid) :
    let s := run fails (init prog cycles) sched
    (∀ t s', step fails s t = some s' → s'.attempted ≠ s.attempted → ∃ k, t = .reader k ∧ k + 1 = s.cycle) ∧
    s.attempted ++ held s = tagged s.consumed 0 ∧
    List.Pairwise (fun a b => a.2 ≤ b.2) s.attempted := by
  intro s
  have hi : Writer.Inv fails s := inv_run fails prog cycles sched
  clear_value s
  refine ⟨?_, hi.tag.symm, ?_⟩
  · intro t s' hs hne
    cases t with
    | prod i =>
      simp only [step] at hs
      cases hp : s.prod i with
      | nil => simp [hp] at hs
      | cons m r => simp only [hp] at hs; injection hs with hs; subst hs; exact absurd rfl hne
    | ctl =>
      simp only [step, ctlStep] at hs
      split at hs
      · split at hs
        · cases hs
        · injection hs with hs; subst hs; exact absurd rfl hne
      · split at hs <;> first
          | (injection hs with hs; subst hs; exact absurd rfl hne)
          | (split at hs <;> first | (injection hs with hs; subst hs; exact absurd rfl hne) | cases hs)
          | cases hs
    | reader k =>
      simp only [step] at hs
      by_cases hk : k + 1 = s.cycle
      · exact ⟨k, rfl, hk⟩
      · simp [hk] at hs
    | joiner k =>
      simp only [step] at hs
      split at hs
      · injection hs with hs; subst hs; exact absurd rfl hne
      · cases hs
  · have h := tagged_sorted s.consumed 0
    rw [hi.tag] at h
    exact (List.pairwise_append.mp h).1

/-- Repeated start/stop cycles: the invariants above hold in every reachable state for any number
of cycles (they are re-established by `startService` after `stopService`); in particular whenever
the controller is between two cycles, either no cycle has run yet or the last stop result has
completed and everything put before that cycle's STOP - in all cycles so far - has been passed on
exactly once, in order, by the reader of its own cycle, and what was put later is still queued for
the next cycle. -/
theorem cycles (fails : Nat → Bool) (prog : Nat → List Nat) (n : Nat) (sched : List Tid) :
    let s := run fails (init prog n) sched
    s.ops = [] → s.cycle = 0 ∨
      ∃ c, s.puts = c ++ [.stop] ++ s.queue ∧ s.attempted = tagged c 0 ∧ stops c + 1 = s.cycle := by
  intro s ho
  rcases (inv_run fails prog n sched).fin ho with h | h
  · exact Or.inl h
  · obtain ⟨c, h1, h2, h3, _⟩ := stop_drains fails prog n sched h
    exact Or.inr ⟨c, h1, h2, h3⟩

/-! ## Non-vacuity: two producers, two cycles, the destination raises on message 2 -/
def demoProg : Nat → List Nat
  | 0 => [1, 2, 3]
  | 1 => [4]
  | _ => []
def demoFails (m : Nat) : Bool := m == 2
/-- 1, 2, 4 are offered before the service starts, 3 after the first STOP; then round-robin over all
threads (picks of blocked / finished threads stutter) -/
def demoSched : List Tid :=
  [.prod 0, .prod 0, .prod 1] ++ List.replicate 9 Tid.ctl ++ [.prod 0] ++
  (List.replicate 24 [Tid.ctl, .prod 0, .reader 0, .prod 1, .joiner 0, .reader 1, .joiner 1]).flatten

example : (run demoFails (init demoProg 2) demoSched).ops = [] ∧ (run demoFails (init demoProg 2) demoSched).cyclesLeft = 0 := by decide
example : (run demoFails (init demoProg 2) demoSched).joinDone = true := by decide
example : (run demoFails (init demoProg 2) demoSched).attempted = [(1, 0), (2, 0), (4, 0), (3, 1)] := by decide
example : (run demoFails (init demoProg 2) demoSched).written = [(1, 0), (4, 0), (3, 1)] := by decide
example : (run demoFails (init demoProg 2) demoSched).puts = [.msg 1, .msg 2, .msg 4, .stop, .msg 3, .stop] := by decide

end Eliot.C19
