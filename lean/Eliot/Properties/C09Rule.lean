import Eliot.Generated.ParseRule
import Eliot.Model.ParseFlat
/-!
# C09 — the decisions of `parse.py`, translated from the current source, are the ones the models take

`lean/Eliot/Generated/ParseRule.lean` is regenerated from `eliot/parse.py` on every run (extractor E12).  Here the hand-written
models are shown to compute exactly the translated test (`completeNow_is_translated`, `visit_is_translated`), and the
recognised shapes of the loop, the order of effects, `_ensure_node_parents` and the dispatch of `Task.add` are the ones
`Model/ParseFlat.lean` follows (`shapes`, by `decide`).  A change of the source that alters a decision changes the generated
definitions and breaks a proof here.
-/
namespace PM.C09Rule
open PM Eliot.Generated

/-- `node.end_message.task_level.level[-1]` (an integer; irrelevant when there is no end message) -/
def endLast (e : Option PMsg) : Int :=
  match e.bind (·.level.getLast?) with
  | some n => Int.ofNat n
  | none => 0

/-- **The completeness rule of both models is the translated `if` test of `Task._insert_action` followed by the recognised loop.** -/
theorem completeNow_is_translated (c : List Level) (pre : Level) (s e : Option PMsg) (ch : Kids) :
    Node.completeNow c pre (.act s e ch) =
      (ParseRule.candidate e.isSome s.isSome ch.length (endLast e) && ch.allActsIn c pre) := by
  cases s with
  | none => cases e <;> simp [Node.completeNow, ParseRule.candidate]
  | some sm =>
    cases e with
    | none => simp [Node.completeNow, ParseRule.candidate]
    | some em =>
      simp only [Node.completeNow, ParseRule.candidate, endLast, Option.isSome_some, Bool.true_and, Option.bind_some]
      cases hl : em.level.getLast? with
      | none => simp
      | some n =>
        have : (ch.length + 2 == n) = (Int.ofNat ch.length == Int.ofNat n - 2) := by
          rw [Bool.eq_iff_iff, beq_iff_eq, beq_iff_eq]; simp only [Int.ofNat_eq_natCast]; omega
        simp [this]

/-- a plain message is never complete (`_insert_action` is only ever handed actions) -/
theorem completeNow_msg (c : List Level) (pre : Level) (m : PMsg) : Node.completeNow c pre (.msg m) = false := rfl

/-- **`FTask.visit` = the first two effects of `_insert_action`, with the translated test.** -/
theorem visit_is_translated (t : FTask) (lvl : Level) (s e : Option PMsg) (ch : Kids) :
    (t.visit lvl (.act s e ch)).completed =
      (if (ParseRule.candidate e.isSome s.isSome ch.length (endLast e) && ch.allActsIn t.completed lvl) = true
        then lvl :: t.completed else t.completed) ∧
    (t.visit lvl (.act s e ch)).get lvl = some (.act s e ch) := by
  constructor
  · simp only [FTask.visit, completeNow_is_translated]
  · simp [FTask.visit, FTask.get]

/-- the shapes the extractor recognised in the current source are the ones `Model/ParseFlat.lean` is written after -/
theorem shapes :
    ParseRule.loopShape = "all-action-children-in-completed" ∧
    ParseRule.insertOrder = ["complete?", "set-node", "ensure-parents"] ∧
    ParseRule.parents = "root-returns;missing-parent-is-fresh-action;add-child;insert-parent" ∧
    ParseRule.isAction = "get(action_type) is not None" ∧
    ParseRule.actionDefault = "missing-action-is-fresh-action" ∧
    ParseRule.startTest = "status == started -> _start else _end" ∧
    ParseRule.rootTest = "level == [1]" ∧
    ParseRule.plainElse = "ensure-parents" ∧
    ParseRule.writtenMessageHasTruthHooks = false := by decide

/-- non-vacuity: an action with start, end at position 4 and two children of which the action child is completed -/
example : ParseRule.candidate true true 2 4 = true ∧ ParseRule.candidate true true 2 5 = false ∧
    ParseRule.candidate false true 0 2 = false := by decide

end PM.C09Rule
