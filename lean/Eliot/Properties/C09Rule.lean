import Eliot.Generated.ParseRule
import Eliot.Model.ParseFlat
/-!
# C09 — the decisions of `parse.py`, translated from the current source, are the ones the models take

`lean/Eliot/Generated/ParseRule.lean` is regenerated from `eliot/parse.py` on every run (extractor E12).  Here the hand-written
models are shown to compute exactly the translated test (`completeNow_is_translated`, `visit_is_translated`), and the
recognised shapes of the loop, the order of effects, `_ensure_node_parents` and the dispatch of `Task.add` are the ones
`Model/ParseFlat.lean` follows (`shapes`, by `decide`).  A change of the source that alters a decision changes the generated
definitions and breaks a proof here.
-/
namespace PM.C09Rule
open PM Eliot.Generated

/-- `node.end_message.task_level.level[-1]` (an integer; irrelevant when there is no end message) -/
def endLast (e : Option PMsg) : Int :=
  match e.bind (·.level.getLast?) with
  | some n => Int.ofNat n
  | none => 0

/-- **The completeness rule of both models is the translated `if` test of `Task._insert_action` followed by the recognised loop.** -/
theorem completeNow_is_translated (c : List Level) (pre : Level) (s e : Option PMsg) (ch : Kids) :
    Node.completeNow c pre (.act s e ch) =
      (ParseRule.candidate e.isSome s.isSome ch.length (endLast e) && ch.allActsIn c pre) := by
  cases s with
  | none => cases e <;> simp [Node.completeNow, ParseRule.candidate]
  | some sm =>
    cases e with
    | none => simp [Node.completeNow, ParseRule.candidate]
    | some em =>
      simp only [Node.completeNow, ParseRule.candidate, endLast, Option.isSome_some, Bool.true_and, Option.bind_some]
      cases hl : em.level.getLast? with
      | none => simp
      | some n =>
        have : (ch.length + 2 == n) = (Int.ofNat ch.length == Int.ofNat n - 2) := by
          rw [Bool.eq_iff_iff, beq_iff_eq, beq_iff_eq]; simp only [Int.ofNat_eq_natCast]; omega
        simp [this]

/-- a plain message is never complete (`_insert_action` is only ever handed actions) -/
theorem completeNow_msg (c : List Level) (pre : Level) (m : PMsg) : Node.completeNow c pre (.msg m) = false := rfl

/-- **`FTask.visit` = the first two effects of `_insert_action`, with the translated test.** -/
theorem visit_is_translated (t : FTask) (lvl : Level) (s e : Option PMsg) (ch : Kids) :
    (t.visit lvl (.act s e ch)).completed =
      (if (ParseRule.candidate e.isSome s.isSome ch.length (endLast e) && ch.allActsIn t.completed lvl) = true
        then lvl :: t.completed else t.completed) ∧
    (t.visit lvl (.act s e ch)).get lvl = some (.act s e ch) := by
  constructor
  · simp only [FTask.visit, completeNow_is_translated]
  · simp [FTask.visit, FTask.get]

/-- **The dispatch of `FTask.add` is `Task.add`'s, with the translated tests.**  A message that is not an action message
(`isActionTest`) and sits at `[1]` (`isRootMessageTest`) becomes the task's root and completes it; an action message goes to `_start`
exactly when `isStartTest` holds of its status, to `_end` otherwise. -/
theorem add_single_message_task (t : FTask) (m : PMsg) (h1 : ParseRule.isActionTest m.atype = false)
    (h2 : ParseRule.isRootMessageTest m.level = true) :
    t.add m = .ok { nodes := ([], .msg m) :: t.nodes, completed := [] :: t.completed } := by
  have hat : m.atype = none := by
    cases h : m.atype with
    | none => rfl
    | some x => simp [ParseRule.isActionTest, h] at h1
  have hl : m.level = [1] := by simpa [ParseRule.isRootMessageTest] using h2
  simp [FTask.add, hat, hl, pure, Except.pure]

theorem add_action_message (t : FTask) (m : PMsg) (k : Nat) (rp : List Nat) (st : String)
    (h1 : ParseRule.isActionTest m.atype = true) (hrev : m.level.reverse = k :: rp) (hs : m.status = some st) :
    t.add m = (do
      let action' ← (if ParseRule.isStartTest st then Op.setStart m else Op.setEnd m).apply ((t.get rp.reverse).getD emptyAct)
      t.upward rp action') := by
  obtain ⟨ty, hat⟩ : ∃ ty, m.atype = some ty := by
    cases h : m.atype with
    | none => simp [ParseRule.isActionTest, h] at h1
    | some x => exact ⟨x, rfl⟩
  unfold FTask.add
  simp only [hat, hrev, hs]
  by_cases hv : st = "started"
  · subst hv
    simp only [ParseRule.isStartTest, beq_self_eq_true, if_true]
    rfl
  · have hb : ParseRule.isStartTest st = false := by simpa [ParseRule.isStartTest] using hv
    simp only [hb, Bool.false_eq_true, if_false]
    rfl

/-- the shapes the extractor recognised in the current source are the ones `Model/ParseFlat.lean` is written after -/
theorem shapes :
    ParseRule.loopShape = "all-action-children-in-completed" ∧
    ParseRule.insertOrder = ["complete?", "set-node", "ensure-parents"] ∧
    ParseRule.parents = "root-returns;missing-parent-is-fresh-action;add-child;insert-parent" ∧
    ParseRule.isAction = "get(action_type) is not None" ∧
    ParseRule.actionDefault = "missing-action-is-fresh-action" ∧
    ParseRule.startTest = "status == started -> _start else _end" ∧
    ParseRule.rootTest = "level == [1]" ∧
    ParseRule.plainElse = "ensure-parents" ∧
    ParseRule.writtenMessageHasTruthHooks = false := by decide

/-- non-vacuity: an action with start, end at position 4 and two children of which the action child is completed -/
example : ParseRule.candidate true true 2 4 = true ∧ ParseRule.candidate true true 2 5 = false ∧
    ParseRule.candidate false true 0 2 = false := by decide

end PM.C09Rule
