import Eliot.Generated.LevelStr
import Eliot.Properties.C06
/-!
# C06 — the string forms translated from the current source are the functions the round-trip theorems are about

`lean/Eliot/Generated/LevelStr.lean` is regenerated from `eliot/_action.py` on every run (extractor E13).  The translated
`fromString`, `toString`, `serializeTaskId`, `parseText`, `parseBytes` are shown equal to `Level.fromChars`, `Level.toChars`,
`Level.serializeTaskIdBytes`, `Level.parseTaskId`, `Level.parseTaskIdBytes`; C06's round trips therefore hold of the translation.
-/
namespace Level.C06TL
open Eliot.Generated

theorem fromString_eq : LevelStr.fromString = Level.fromChars := rfl
theorem toString_eq : LevelStr.toString = Level.toChars := rfl
theorem serializeTaskId_eq (u : List Char) (l : List Nat) : LevelStr.serializeTaskId u l = Level.serializeTaskIdBytes u l := rfl

theorem parseText_eq (s : List Char) : LevelStr.parseText s = Level.parseTaskId s := by
  unfold LevelStr.parseText Level.parseTaskId
  rw [fromString_eq]
  generalize Level.splitOn '@' s = ps
  match ps with
  | [] => rfl
  | [_] => rfl
  | [_, _] => rfl
  | _ :: _ :: _ :: _ => rfl

theorem parseBytes_eq (b : List Nat) : LevelStr.parseBytes b = Level.parseTaskIdBytes b := by
  unfold LevelStr.parseBytes Level.parseTaskIdBytes
  cases Level.decodeAscii b with
  | none => rfl
  | some s => exact parseText_eq s

/-- **`fromString(toString(l)) == l` for the functions as the source has them now** -/
theorem translated_level_roundtrip (l : List Nat) : LevelStr.fromString (LevelStr.toString l) = some l := by
  rw [fromString_eq, toString_eq]; exact _root_.C06.level_string_roundtrip l

/-- **`continue_task(serialize_task_id())` decodes to the origin's uuid and the reserved level, bytes form** -/
theorem translated_task_id_roundtrip (u : List Char) (l : List Nat) (hu : '@' ∉ u) (ha : ∀ c ∈ u, c.toNat < 128) :
    ∃ b, LevelStr.serializeTaskId u l = some b ∧ LevelStr.parseBytes b = some (u, l) := by
  obtain ⟨h1, h2, _⟩ := _root_.C06.task_id_roundtrip_bytes u l hu ha
  exact ⟨_, by rw [serializeTaskId_eq]; exact h1, by rw [parseBytes_eq]; exact h2⟩

example : LevelStr.toString [2, 13, 1] = ['/', '2', '/', '1', '3', '/', '1'] ∧
    LevelStr.fromString ['/', '2', '/', '1', '3', '/', '1'] = some [2, 13, 1] := by decide +kernel

end Level.C06TL
