import Eliot.Properties.C13
import Eliot.Proofs.SysCtxPlace
import Eliot.Proofs.SysAction
/-!
# C04, second half — what is logged or started inside a block belongs to the block's action

`Properties/C04.lean` proves that the context is scoped and restored.  This file proves what being
the current action *means* for what is logged:

* `log_untyped_in_action` / `log_typed_in_action`: in **every** world in which action `h` is current
  (`w.ctx = some h`, `w.acts[h]? = some a` — finished or not: `log_message` does not look at the flag),
  the dict that `log_message` / `MessageType.log` stages carries `h`'s `task_uuid` and `h`'s level
  extended by `h`'s next position: it is a direct item of `h`.
* `child_of_current`: `start_action` (entered with `with` or not) in such a world creates an action
  with `h`'s uuid at `h`'s level extended by `h`'s next position, and its start message sits at `… ++ [1]`.
  (`start_task`: `Sys.C04.start_task_fresh` — fresh uuid, level `[]`.)
* `body_statement_context` (the lifted form): a block body of **any** shape — nested actions,
  handlers, explicit handles, `context()`/`run()` of other actions, exceptions, destination changes —
  leaves, after each of its statements, `h` current again and `h`'s identity untouched; so, with the
  two theorems above, *every* `log_message` / `start_action` statement of the body of a `with` block,
  however far down the body, produces a direct item / direct child of the block's action
  (`logged_in_block_is_direct_item`, `started_in_block_is_child`).
-/
namespace Sys.C04
open Sys Sys.C13

theorem send_stage_head (env : Env) (w : World) (m : Msg) :
    ∃ rest, (w.send env m).stage = w.stage ++ Fields.update m w.globals :: rest := by
  unfold World.send
  obtain ⟨rest, h⟩ := (frame_reportAll env (w.deliver env m).2.1 (w.deliver env m).2.2 (w.deliver env m).1).stage
  refine ⟨rest, ?_⟩
  simp only
  rw [← h, C08.deliver_stage]
  simp

theorem buildLog_counters (w : World) (h : Nat) (t : String) (f : Fields) :
    (w.buildLog h t f).1.serCalls = w.serCalls ∧ (w.buildLog h t f).1.stage = w.stage ∧
    (w.buildLog h t f).1.globals = w.globals := by
  simp only [World.buildLog, World.nextLevel, World.clock]
  cases w.acts[h]? <;> exact ⟨rfl, rfl, rfl⟩

/-- **log_untyped_in_action**: `log_message(t, **fields)` while `h` is current stages, next, a dict with
`h`'s uuid at `h`'s level extended by `h`'s next position (whatever is staged after it — failure
reports of destinations — comes later). -/
theorem log_untyped_in_action (env : Env) (cur : Option Exc) (w : World) (h : Nat) (a : Act)
    (hc : w.ctx = some h) (ha : w.acts[h]? = some a) (ms : MSpec) (hs : ms.sers = none)
    (hgu : w.globals.get? "task_uuid" = none) (hgl : w.globals.get? "task_level" = none) :
    ∃ s rest, (execS env cur w (.log ms)).1.stage = w.stage ++ s :: rest ∧
      s.get? "task_uuid" = some (.uuid a.uuid) ∧ s.get? "task_level" = some (.lvl (a.level ++ [a.last + 1])) := by
  have ec : w.currentOrFresh = (w, h) := by simp only [World.currentOrFresh, hc]
  obtain ⟨_, t1, t2, _⟩ := buildLog_in_current w h a hc ha ms.mtype ms.fields
  simp only [ec] at t1 t2
  obtain ⟨_, b2, b3⟩ := buildLog_counters w h ms.mtype ms.fields
  obtain ⟨rest, hr⟩ := send_stage_head env (w.buildLog h ms.mtype ms.fields).1 (w.buildLog h ms.mtype ms.fields).2
  refine ⟨Fields.update (w.buildLog h ms.mtype ms.fields).2 w.globals, rest, ?_, ?_, ?_⟩
  · simp only [execS, World.logMessage, hs, World.loggerWrite, ec]
    rw [hr, b2, b3]
  · rw [C08.Fields.get?_update_none _ _ _ hgu]; exact t1
  · rw [C08.Fields.get?_update_none _ _ _ hgl]; exact t2

/-- **log_typed_in_action**: the same for a typed message whose serializers do not fail (`hok`: the
serialization of the built dict succeeds) and, as `_MessageSerializer.__init__` enforces, do not
declare the structural keys. -/
theorem log_typed_in_action (env : Env) (cur : Option Exc) (w : World) (h : Nat) (a : Act)
    (hc : w.ctx = some h) (ha : w.acts[h]? = some a) (ms : MSpec) (ss : List (String × Nat)) (hs : ms.sers = some ss)
    (hk1 : "task_uuid" ∉ ss.map (·.1)) (hk2 : "task_level" ∉ ss.map (·.1)) (m' : Msg)
    (hok : applySers env w.serCalls ss (w.buildLog h ms.mtype ms.fields).2 = .ok m')
    (hgu : w.globals.get? "task_uuid" = none) (hgl : w.globals.get? "task_level" = none) :
    ∃ s rest, (execS env cur w (.log ms)).1.stage = w.stage ++ s :: rest ∧
      s.get? "task_uuid" = some (.uuid a.uuid) ∧ s.get? "task_level" = some (.lvl (a.level ++ [a.last + 1])) := by
  have ec : w.currentOrFresh = (w, h) := by simp only [World.currentOrFresh, hc]
  obtain ⟨_, t1, t2, _⟩ := buildLog_in_current w h a hc ha ms.mtype ms.fields
  simp only [ec] at t1 t2
  obtain ⟨b1, b2, b3⟩ := buildLog_counters w h ms.mtype ms.fields
  obtain ⟨rest, hr⟩ := success_stages_serialized env (w.buildLog h ms.mtype ms.fields).1 (w.buildLog h ms.mtype ms.fields).2 m' ss
    (by rw [b1]; exact hok)
  refine ⟨Fields.update m' w.globals, rest, ?_, ?_, ?_⟩
  · simp only [execS, World.logMessage, hs, ec]
    rw [hr, b2, b3]
    simp
  · rw [C08.Fields.get?_update_none _ _ _ hgu, applySers_other env ss _ _ m' _ hk1 hok]; exact t1
  · rw [C08.Fields.get?_update_none _ _ _ hgl, applySers_other env ss _ _ m' _ hk2 hok]; exact t2

/-- **child_of_current**: `start_action(..)` while `h` is current (entered with `with` or kept as a
handle): the new action has `h`'s uuid and sits at `h`'s level extended by `h`'s next position; that
position of `h` is consumed; for an untyped action the start message is staged next, at the child's
level extended by `1`. -/
theorem child_of_current (env : Env) (w : World) (h : Nat) (a : Act) (hc : w.ctx = some h) (ha : w.acts[h]? = some a)
    (sp : Spec) :
    (w.startAction env false sp).2 = w.acts.length ∧
    (∃ c, (w.startAction env false sp).1.acts[(w.startAction env false sp).2]? = some c ∧
      c.uuid = a.uuid ∧ c.level = a.level ++ [a.last + 1]) ∧
    (∃ a', (w.startAction env false sp).1.acts[h]? = some a' ∧ a'.uuid = a.uuid ∧ a'.level = a.level ∧ a.last + 1 ≤ a'.last) ∧
    (sp.sers = none → w.globals.get? "task_uuid" = none → w.globals.get? "task_level" = none →
      ∃ s rest, (w.startAction env false sp).1.stage = w.stage ++ s :: rest ∧
        s.get? "task_uuid" = some (.uuid a.uuid) ∧ s.get? "task_level" = some (.lvl (a.level ++ [a.last + 1] ++ [1]))) := by
  have hlt : h < w.acts.length := lt_of_get ha
  -- the world in which `_start` runs: `h`'s position handed out, the child appended
  generalize hw1 : ({ (w.nextLevel h).1 with acts := (w.nextLevel h).1.acts ++
      [({ uuid := a.uuid, level := (w.nextLevel h).2, atype := sp.atype, sers := sp.sers } : Act)] } : World) = w1
  have e : w.startAction env false sp = (w1.startRec env w.acts.length sp.fields, w.acts.length) := by
    subst hw1
    simp only [World.startAction, Bool.false_eq_true, if_false, hc, ha]
    simp [nextLevel_eq ha]
  have hchild : w1.acts[w.acts.length]? =
      some ({ uuid := a.uuid, level := a.level ++ [a.last + 1], atype := sp.atype, sers := sp.sers } : Act) := by
    subst hw1
    simp [nextLevel_eq ha]
  have hpar : w1.acts[h]? = some { a with last := a.last + 1 } := by
    subst hw1
    simp [nextLevel_eq ha, List.getElem?_append_left, hlt]
  have hst : w1.stage = w.stage ∧ w1.globals = w.globals := by
    subst hw1
    simp [nextLevel_eq ha]
  have f := frame_startRec env w1 w.acts.length sp.fields
  rw [e]
  refine ⟨rfl, ?_, ?_, fun hs hgu hgl => ?_⟩
  · obtain ⟨c, h1, h2, h3, _⟩ := f.keep _ _ hchild
    exact ⟨c, h1, h2, h3⟩
  · obtain ⟨a', h1, h2, h3, h4, _⟩ := f.keep _ _ hpar
    exact ⟨a', h1, h2, h3, h4⟩
  · simp only
    rw [startRec_eq env w1 _ _ sp.fields hchild]
    simp only [hs, Option.map_none, World.loggerWrite]
    obtain ⟨rest, hr⟩ := send_stage_head env (w1.clock.1.nextLevel w.acts.length).1
      (startDict { uuid := a.uuid, level := a.level ++ [a.last + 1], atype := sp.atype, sers := none } (.ts w1.tick) sp.fields)
    have q := (quiet_clock w1).trans (quiet_nextLevel w1.clock.1 w.acts.length)
    refine ⟨_, rest, by rw [hr, q.stage, hst.1], ?_, ?_⟩
    · rw [q.frame.globals, hst.2, C08.Fields.get?_update_none _ _ _ hgu]
      simp only [startDict]
      rw [Fields.get?_set_ne _ _ _ _ (by decide), Fields.get?_set_ne _ _ _ _ (by decide), Fields.get?_set_self]
    · rw [q.frame.globals, hst.2, C08.Fields.get?_update_none _ _ _ hgl]
      simp only [startDict]
      rw [Fields.get?_set_self]

/-- `with action:` / `with action.context():` / `action.run(f)` run their body in the entry world
with that action made current — by definition of the block constructs -/
theorem block_body_world (env : Env) (w : World) (h : Nat) (run : World → World × Outcome) :
    (withBlock env w h run).1 =
      World.finishRec env { (run { w with ctx := some h }).1 with ctx := w.ctx } h (outcomeExc (run { w with ctx := some h }).2) ∧
    (scopedBlock w h run).1 = { (run { w with ctx := some h }).1 with ctx := w.ctx } := ⟨rfl, rfl⟩

/-- **body_statement_context** (lifted form): run *any* statements `pre` — nested blocks, handlers,
other actions' `context()`/`run()`, raising or not, (un)registering destinations — in a world where
`h` is current: afterwards `h` is current again and still the same action (uuid, level; its position
counter only grows).  So the next statement of the body starts in a world to which
`log_untyped_in_action` / `log_typed_in_action` / `child_of_current` apply. -/
theorem body_statement_context (env : Env) (cur : Option Exc) (w : World) (h : Nat) (a : Act)
    (hc : w.ctx = some h) (ha : w.acts[h]? = some a) (hw : WInv w) (pre : Block) :
    (execB env cur w pre).1.ctx = some h ∧ WInv (execB env cur w pre).1 ∧
    ∃ a', (execB env cur w pre).1.acts[h]? = some a' ∧ a'.uuid = a.uuid ∧ a'.level = a.level := by
  have g := execB_good env cur w pre hw
  obtain ⟨a', h1, h2, h3, _⟩ := keeps_execB env cur w pre h a ha
  exact ⟨g.1.trans hc, g.2, a', h1, h2, h3⟩

/-- sequential composition of statement lists -/
def Block.append : Block → Block → Block
  | .nil, q => q
  | .cons s r, q => .cons s (Block.append r q)

/-- running `pre ++ post`: `post` runs, in the world `pre` left, iff `pre` ended normally -/
theorem execB_append (env : Env) (cur : Option Exc) (w : World) (pre post : Block) :
    execB env cur w (Block.append pre post) =
      if (execB env cur w pre).2 = .ok then execB env cur (execB env cur w pre).1 post else execB env cur w pre := by
  match pre with
  | .nil => simp [Block.append, execB]
  | .cons s r =>
    have ih : ∀ w1, execB env cur w1 (Block.append r post) =
        if (execB env cur w1 r).2 = .ok then execB env cur (execB env cur w1 r).1 post else execB env cur w1 r :=
      fun w1 => execB_append env cur w1 r post
    have hx : ∃ x, execS env cur w s = x := ⟨_, rfl⟩
    obtain ⟨⟨w1, o⟩, hs⟩ := hx
    cases o with
    | ok => simp only [Block.append, execB, hs]; exact ih w1
    | raised e => simp [Block.append, execB, hs]
    | stuck => simp [Block.append, execB, hs]

/-- **logged_in_block_is_direct_item**: in the body `pre ++ [log_message(..)] ++ post` of a block whose
action is `h` (any `pre`, any `post`), if control reaches the `log_message` its dict is staged with
`h`'s uuid at `h`'s level extended by one position — a direct item of `h`, not of any action that
`pre` opened and closed, and not of the enclosing context. -/
theorem logged_in_block_is_direct_item (env : Env) (cur : Option Exc) (w : World) (h : Nat) (a : Act)
    (hc : w.ctx = some h) (ha : w.acts[h]? = some a) (hw : WInv w) (pre post : Block) (ms : MSpec) (hs : ms.sers = none)
    (hpre : (execB env cur w pre).2 = .ok)
    (hgu : (execB env cur w pre).1.globals.get? "task_uuid" = none)
    (hgl : (execB env cur w pre).1.globals.get? "task_level" = none) :
    execB env cur w (Block.append pre (.cons (.log ms) post)) =
      execB env cur (execS env cur (execB env cur w pre).1 (.log ms)).1 post ∧
    ∃ k s rest, (execS env cur (execB env cur w pre).1 (.log ms)).1.stage = (execB env cur w pre).1.stage ++ s :: rest ∧
      s.get? "task_uuid" = some (.uuid a.uuid) ∧ s.get? "task_level" = some (.lvl (a.level ++ [k])) := by
  obtain ⟨c1, _, a', h1, h2, h3⟩ := body_statement_context env cur w h a hc ha hw pre
  obtain ⟨s, rest, e1, e2, e3⟩ := log_untyped_in_action env cur (execB env cur w pre).1 h a' c1 h1 ms hs hgu hgl
  refine ⟨?_, a'.last + 1, s, rest, e1, by rw [e2, h2], by rw [e3, h3]⟩
  rw [execB_append, if_pos hpre]
  simp only [execB, execS]

/-- **started_in_block_is_child**: the same for `with start_action(..):` / `x = start_action(..)`
anywhere in the body: the new action is a direct child of `h`. -/
theorem started_in_block_is_child (env : Env) (cur : Option Exc) (w : World) (h : Nat) (a : Act)
    (hc : w.ctx = some h) (ha : w.acts[h]? = some a) (hw : WInv w) (pre : Block) (sp : Spec) :
    let w1 := (execB env cur w pre).1
    ∃ k c, (w1.startAction env false sp).1.acts[(w1.startAction env false sp).2]? = some c ∧
      c.uuid = a.uuid ∧ c.level = a.level ++ [k] := by
  intro w1
  obtain ⟨c1, _, a', h1, h2, h3⟩ := body_statement_context env cur w h a hc ha hw pre
  obtain ⟨_, ⟨c, e1, e2, e3⟩, _⟩ := child_of_current env w1 h a' c1 h1 sp
  exact ⟨a'.last + 1, c, e1, by rw [e2, h2], by rw [e3, h3]⟩

/-! ## Non-vacuity
Inside `with start_action("a")`: a nested block that raises into a handler, a message logged in another
action's `context()`, then the message `m`: it is item `[4]` of `a` (after the start message `[1]`, the
nested action `[2]`, the handle `x` `[3]`), the child `b` started next is `[5]` with its start message at
`[5, 1]`. -/
def placeProg : Block :=
  .cons (.addDests [1]) <| .cons (.withAction false { atype := "a" }
    (.cons (.tryCatch (.cons (.withAction false { atype := "n" } (.cons (.raise 3) .nil)) .nil) .nil) <|
     .cons (.startAs 7 false { atype := "x" }) <|
     .cons (.inContext 7 (.cons (.log { mtype := "inner" }) .nil)) <|
     .cons (.log { mtype := "m" }) <|
     .cons (.withAction false { atype := "b" } .nil) .nil)) .nil

example : let w' := (execB exEnv none {} placeProg).1
    w'.stage.map (fun m => (m.get? "message_type", m.get? "action_type", m.get? "task_level")) =
      [(none, some (.str "a"), some (.lvl [1])),
       (none, some (.str "n"), some (.lvl [2, 1])), (none, some (.str "n"), some (.lvl [2, 2])),
       (none, some (.str "x"), some (.lvl [3, 1])),
       (some (.str "inner"), none, some (.lvl [3, 2])),
       (some (.str "m"), none, some (.lvl [4])),
       (none, some (.str "b"), some (.lvl [5, 1])), (none, some (.str "b"), some (.lvl [5, 2])),
       (none, some (.str "a"), some (.lvl [6]))] := by
  decide +kernel

end Sys.C04
