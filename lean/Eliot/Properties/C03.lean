import Eliot.Proofs.SysAction
import Eliot.Properties.C07
import Eliot.Properties.C13
/-!
# C03 — each action logs exactly one start and one truthful end; errors pass through

Model: `Eliot/Model/Sys.lean` — `World.startRec` = `Action._start`, `World.finishRec` = `Action.finish`
(the `_finished` guard, success fields vs. `get_fields_for_exception` + `exception`/`reason`),
`withBlock` = `Action.__enter__/__exit__` (`__exit__` returns `None`), `World.getFields` /
`firstExtractor` = `ErrorExtraction.get_fields_for_exception` (walk of `inspect.getmro`, a raising
extractor → `write_traceback` + `{}`), `Exc.safeStr` = `safeunicode`.  Exception classes are data
(`env.classOf`, `env.mro`): `KeyboardInterrupt`, `GeneratorExit`, `CancelledError` subclasses are
ordinary `Exc` values, nothing in the model distinguishes `Exception` from `BaseException`.

All statements are about the observable output `stage` (the dicts that reached `Destinations.send`).
`startDict` / `succDict` / `failDict` (`Eliot/Proofs/SysAction.lean`) are the dicts `_start` / `finish`
hand to `Logger.write`; what is staged is that dict with the global fields merged in
(`Fields.update m w.globals`, i.e. `message.update(self._globalFields)`).

Quantifier: every world, every action handle, every environment.  Listed hypotheses:
`Healthy env` (no destination raises: otherwise `eliot:destination_failure` reports follow the
message — see the `…_any_env` variants, which need no such hypothesis), `a.sers = none` (no typed
serializers for start / success messages: C13 covers them), and in `extractor_raise_contained` that
global fields do not override `message_type` / `reason` / `exception`.

How "exactly one" is stated.  Per call: every `_start` stages exactly one start dict
(`one_start_message`, `…_any_env`); `finish` on an unfinished action stages exactly one end dict, on a
finished one it is the identity on the whole state (`one_end_message`, `finish_idempotent`); `finish`
always leaves the action finished and no program ever un-finishes it (`finished_stays_finished`,
`no_second_end`, `finish_program_finish`, `withBlock_finishes`).  NOT proved as one theorem is the
counting formulation over a whole run,

    theorem one_start_one_end (p : Block) : ∀ action a finished during `execB env none {} p`,
      |{m ∈ stage | m is a start message at a's place}| = 1 ∧ |{m ∈ stage | m is an end message at a's place}| = 1

Missing for it: the stage does not record which handle a dict was written for, so the count has to
go through the place (uuid, level) — i.e. it needs C02's `actions_unique` / `levels_unique` plus the
side condition that no user field of any message is named `action_status` — in an invariant that is
not a relation of the `Basic` kind (`stagePush` of an arbitrary dict does not preserve a count).  The
counting form is what the model-free oracle of `harness/props/C03.py` checks on the real code.
-/
namespace Sys.C03
open Sys Sys.C04 Sys.C08 Sys.C13

/-- no destination ever raises -/
def Healthy (env : Env) : Prop := ∀ d k, env.destFails d k = none

/-! ### dictionaries -/
theorem get?_isSome_keys (d : Fields) (k : String) (h : d.get? k ≠ none) : k ∈ d.keys := by
  induction d with
  | nil => exact absurd rfl h
  | cons x xs ih =>
    obtain ⟨k', v'⟩ := x
    simp only [Fields.get?] at h
    simp only [Fields.keys, List.map_cons, List.mem_cons]
    split at h
    · rename_i hk; exact Or.inl hk.symm
    · exact Or.inr (ih h)

theorem get?_none_of_not_keys (d : Fields) (k : String) (h : k ∉ d.keys) : d.get? k = none := by
  cases hg : d.get? k with
  | none => rfl
  | some v => exact absurd (get?_isSome_keys d k (by rw [hg]; exact Option.some_ne_none v)) h

theorem not_struct {k : String} (hk : k ∉ STRUCT) :
    k ≠ "action_status" ∧ k ≠ "timestamp" ∧ k ≠ "task_uuid" ∧ k ≠ "action_type" ∧ k ≠ "task_level" := by
  simp only [STRUCT, List.mem_cons, List.not_mem_nil, or_false, not_or] at hk
  exact hk

/-- what the start dict holds: the four identifying entries, and under every other key exactly the
start field the caller passed (nothing else) -/
theorem startDict_spec (a : Act) (ts : FV) (f : Fields) :
    (startDict a ts f).get? "action_status" = some (.str "started") ∧
    (startDict a ts f).get? "task_uuid" = some (.uuid a.uuid) ∧
    (startDict a ts f).get? "task_level" = some (.lvl (a.level ++ [a.last + 1])) ∧
    (startDict a ts f).get? "action_type" = some (.str a.atype) ∧
    (startDict a ts f).get? "timestamp" = some ts ∧
    ∀ k, k ∉ STRUCT → (startDict a ts f).get? k = f.get? k := by
  refine ⟨?_, ?_, ?_, ?_, ?_, fun k hk => ?_⟩
  · simp only [startDict]
    rw [Fields.get?_set_ne _ _ _ _ (by decide), Fields.get?_set_ne _ _ _ _ (by decide), Fields.get?_set_ne _ _ _ _ (by decide),
      Fields.get?_set_ne _ _ _ _ (by decide), Fields.get?_set_self]
  · simp only [startDict]
    rw [Fields.get?_set_ne _ _ _ _ (by decide), Fields.get?_set_ne _ _ _ _ (by decide), Fields.get?_set_self]
  · simp only [startDict]
    rw [Fields.get?_set_self]
  · simp only [startDict]
    rw [Fields.get?_set_ne _ _ _ _ (by decide), Fields.get?_set_self]
  · simp only [startDict]
    rw [Fields.get?_set_ne _ _ _ _ (by decide), Fields.get?_set_ne _ _ _ _ (by decide), Fields.get?_set_ne _ _ _ _ (by decide),
      Fields.get?_set_self]
  · obtain ⟨h1, h2, h3, h4, h5⟩ := not_struct hk
    simp only [startDict]
    rw [Fields.get?_set_ne _ _ _ _ h5, Fields.get?_set_ne _ _ _ _ h4, Fields.get?_set_ne _ _ _ _ h3,
      Fields.get?_set_ne _ _ _ _ h2, Fields.get?_set_ne _ _ _ _ h1]

theorem succDict_spec (a : Act) (ts : FV) :
    (succDict a ts).get? "action_status" = some (.str "succeeded") ∧
    (succDict a ts).get? "task_uuid" = some (.uuid a.uuid) ∧
    (succDict a ts).get? "task_level" = some (.lvl (a.level ++ [a.last + 1])) ∧
    (succDict a ts).get? "action_type" = some (.str a.atype) ∧
    ∀ k, k ∉ STRUCT → (succDict a ts).get? k = a.succ.get? k := by
  refine ⟨?_, ?_, ?_, ?_, fun k hk => ?_⟩
  · simp only [succDict]
    rw [Fields.get?_set_ne _ _ _ _ (by decide), Fields.get?_set_ne _ _ _ _ (by decide), Fields.get?_set_ne _ _ _ _ (by decide),
      Fields.get?_set_ne _ _ _ _ (by decide), Fields.get?_set_self]
  · simp only [succDict]
    rw [Fields.get?_set_ne _ _ _ _ (by decide), Fields.get?_set_ne _ _ _ _ (by decide), Fields.get?_set_self]
  · simp only [succDict]
    rw [Fields.get?_set_self]
  · simp only [succDict]
    rw [Fields.get?_set_ne _ _ _ _ (by decide), Fields.get?_set_self]
  · obtain ⟨h1, h2, h3, h4, h5⟩ := not_struct hk
    simp only [succDict]
    rw [Fields.get?_set_ne _ _ _ _ h5, Fields.get?_set_ne _ _ _ _ h4, Fields.get?_set_ne _ _ _ _ h3,
      Fields.get?_set_ne _ _ _ _ h2, Fields.get?_set_ne _ _ _ _ h1]

theorem failDict_spec (env : Env) (a : Act) (ts : FV) (e : Exc) (fs : Fields) :
    (failDict env a ts e fs).get? "action_status" = some (.str "failed") ∧
    (failDict env a ts e fs).get? "exception" = some (.str (e.qual env)) ∧
    (failDict env a ts e fs).get? "reason" = some (.str (e.safeStr env)) ∧
    (failDict env a ts e fs).get? "task_uuid" = some (.uuid a.uuid) ∧
    (failDict env a ts e fs).get? "task_level" = some (.lvl (a.level ++ [a.last + 1])) ∧
    (failDict env a ts e fs).get? "action_type" = some (.str a.atype) ∧
    ∀ k, k ∉ STRUCT → k ≠ "exception" → k ≠ "reason" → (failDict env a ts e fs).get? k = fs.get? k := by
  refine ⟨?_, ?_, ?_, ?_, ?_, ?_, fun k hk he hr => ?_⟩
  · simp only [failDict]
    rw [Fields.get?_set_ne _ _ _ _ (by decide), Fields.get?_set_ne _ _ _ _ (by decide), Fields.get?_set_ne _ _ _ _ (by decide),
      Fields.get?_set_ne _ _ _ _ (by decide), Fields.get?_set_self]
  · simp only [failDict]
    rw [Fields.get?_set_ne _ _ _ _ (by decide), Fields.get?_set_ne _ _ _ _ (by decide), Fields.get?_set_ne _ _ _ _ (by decide),
      Fields.get?_set_ne _ _ _ _ (by decide), Fields.get?_set_ne _ _ _ _ (by decide), Fields.get?_set_ne _ _ _ _ (by decide),
      Fields.get?_set_self]
  · simp only [failDict]
    rw [Fields.get?_set_ne _ _ _ _ (by decide), Fields.get?_set_ne _ _ _ _ (by decide), Fields.get?_set_ne _ _ _ _ (by decide),
      Fields.get?_set_ne _ _ _ _ (by decide), Fields.get?_set_ne _ _ _ _ (by decide), Fields.get?_set_self]
  · simp only [failDict]
    rw [Fields.get?_set_ne _ _ _ _ (by decide), Fields.get?_set_ne _ _ _ _ (by decide), Fields.get?_set_self]
  · simp only [failDict]
    rw [Fields.get?_set_self]
  · simp only [failDict]
    rw [Fields.get?_set_ne _ _ _ _ (by decide), Fields.get?_set_self]
  · obtain ⟨h1, h2, h3, h4, h5⟩ := not_struct hk
    simp only [failDict]
    rw [Fields.get?_set_ne _ _ _ _ h5, Fields.get?_set_ne _ _ _ _ h4, Fields.get?_set_ne _ _ _ _ h3,
      Fields.get?_set_ne _ _ _ _ h2, Fields.get?_set_ne _ _ _ _ h1, Fields.get?_set_ne _ _ _ _ hr,
      Fields.get?_set_ne _ _ _ _ he]

/-- merging the global fields leaves every key they do not mention alone -/
theorem staged_get (m g : Fields) (k : String) (h : g.get? k = none) : (Fields.update m g).get? k = m.get? k :=
  Fields.get?_update_none m g k h

/-! ### what `_start` and `finish` stage -/
theorem loggerWrite_none (env : Env) (w : World) (m : Msg) : w.loggerWrite env m none = w.send env m := rfl

/-- the failure serializer declares no user field: it cannot fail -/
theorem loggerWrite_nil (env : Env) (w : World) (m : Msg) : w.loggerWrite env m (some []) = w.send env m := rfl

theorem startRec_stage (env : Env) (hh : Healthy env) (w : World) (h : Nat) (a : Act) (f : Fields)
    (ha : w.acts[h]? = some a) (hs : a.sers = none) :
    (w.startRec env h f).stage = w.stage ++ [Fields.update (startDict a (.ts w.tick) f) w.globals] := by
  rw [startRec_eq env w h a f ha, hs]
  simp only [Option.map_none, loggerWrite_none]
  have q := (quiet_clock w).trans (quiet_nextLevel w.clock.1 h)
  rw [send_healthy_stage env hh, q.stage, q.frame.globals]

theorem finish_ok_stage (env : Env) (hh : Healthy env) (w : World) (h : Nat) (a : Act)
    (ha : w.acts[h]? = some a) (hf : a.finished = false) (hs : a.sers = none) :
    (w.finishRec env h none).stage = w.stage ++ [Fields.update (succDict a (.ts w.tick)) w.globals] := by
  rw [finishRec_ok_eq env w h a ha hf, hs]
  simp only [Option.map_none, loggerWrite_none]
  have q : Quiet w ((w.setFin h a).clock.1.nextLevel h).1 :=
    (quiet_setFinished w h a ha).trans ((quiet_clock (w.setFin h a)).trans (quiet_nextLevel _ h))
  rw [send_healthy_stage env hh, q.stage, q.frame.globals]

theorem sers_fail_cases (s : Option (List (String × Nat) × List (String × Nat))) :
    s.map (fun _ => ([] : List (String × Nat))) = none ∨ s.map (fun _ => ([] : List (String × Nat))) = some [] := by
  cases s with
  | none => exact Or.inl rfl
  | some _ => exact Or.inr rfl

/-- The failed end, for every extractor behaviour and whether or not the action has typed
serializers: everything `get_fields_for_exception` logged comes first (`g.1.stage`), then exactly the
failure dict built from what it returned.  `a'` is the action as `get_fields_for_exception` left it
(a traceback logged in this action's own context has taken a position). -/
theorem finish_err_stage (env : Env) (hh : Healthy env) (w : World) (h : Nat) (a : Act) (e : Exc)
    (ha : w.acts[h]? = some a) (hf : a.finished = false) :
    ∃ a' : Act, (World.getFields env (w.setFin h a) e).1.acts[h]? = some a' ∧
      a'.uuid = a.uuid ∧ a'.level = a.level ∧ a'.atype = a.atype ∧ a.last ≤ a'.last ∧
      (w.finishRec env h (some e)).stage = (World.getFields env (w.setFin h a) e).1.stage ++
        [Fields.update (failDict env a' (.ts (World.getFields env (w.setFin h a) e).1.tick) e
          (World.getFields env (w.setFin h a) e).2) w.globals] := by
  have fg := frame_getFields env (w.setFin h a) e
  obtain ⟨a', h1, h2, h3, h4, _, _, h7, _⟩ := fg.keep h _ (setFin_get w h a ha)
  refine ⟨a', h1, h2, h3, h7, h4, ?_⟩
  rw [finishRec_err_eq env w h a e ha hf]
  have hc : (World.getFields env (w.setFin h a) e).1.clock.1.acts[h]? = some a' := h1
  have q := (quiet_clock (World.getFields env (w.setFin h a) e).1).trans
    (quiet_nextLevel (World.getFields env (w.setFin h a) e).1.clock.1 h)
  have hgl : (World.getFields env (w.setFin h a) e).1.globals = w.globals := fg.globals
  have key : ∀ s, s = none ∨ s = some [] → ∀ m, (World.loggerWrite env
      ((World.getFields env (w.setFin h a) e).1.clock.1.nextLevel h).1 m s).stage =
      (World.getFields env (w.setFin h a) e).1.stage ++ [Fields.update m w.globals] := by
    intro s hs m
    rcases hs with hs | hs <;> subst hs
    · rw [loggerWrite_none, send_healthy_stage env hh, q.stage, q.frame.globals, hgl]
    · rw [loggerWrite_nil, send_healthy_stage env hh, q.stage, q.frame.globals, hgl]
  rw [key _ (sers_fail_cases a.sers), nextLevel_of_get hc]
  simp only [failDict, h2, h3, h7]

theorem getFields_noext (env : Env) (w : World) (e : Exc) (hx : firstExtractor env (env.mro (e.cls env)) = none) :
    World.getFields env w e = (w, []) := by
  simp [World.getFields, hx]

theorem getFields_ok (env : Env) (w : World) (e : Exc) (f : Exc → Nat → Except Exc Fields) (fs : Fields)
    (hx : firstExtractor env (env.mro (e.cls env)) = some f) (hr : f e w.extCalls = .ok fs) :
    World.getFields env w e = ({ w with extCalls := w.extCalls + 1 }, fs) := by
  simp [World.getFields, hx, hr]

theorem getFields_raise (env : Env) (w : World) (e e' : Exc) (f : Exc → Nat → Except Exc Fields)
    (hx : firstExtractor env (env.mro (e.cls env)) = some f) (hr : f e w.extCalls = .error e') :
    World.getFields env w e =
      (({ w with extCalls := w.extCalls + 1 } : World).logNoSer env "eliot:traceback" (tracebackFields env e' []), []) := by
  simp [World.getFields, hx, hr]

/-! ## finishing again emits nothing and changes nothing -/

/-- **finish_idempotent**: for every environment, world, handle and pair of arguments, a second
`finish` is the identity on the whole state (so in particular it stages, offers and delivers
nothing).  No hypothesis: if the handle is not an action both calls are the identity. -/
theorem finish_idempotent (env : Env) (w : World) (h : Nat) (x y : Option Exc) :
    (w.finishRec env h x).finishRec env h y = w.finishRec env h x := by
  cases ha : w.acts[h]? with
  | none => rw [finishRec_none env w h x ha, finishRec_none env w h y ha]
  | some a =>
    obtain ⟨a', h1, h2, _⟩ := finishRec_sets_finished env w h x a ha
    exact finishRec_finished env _ h y a' h1 h2

/-- **finished_stays_finished**: once an action is finished it stays finished (same uuid, level, type)
through every program — any statements, any environment, any handled exception — … -/
theorem finished_stays_finished (env : Env) (cur : Option Exc) (w : World) (p : Block) (h : Nat) (a : Act)
    (ha : w.acts[h]? = some a) (hf : a.finished = true) :
    ∃ a' : Act, (execB env cur w p).1.acts[h]? = some a' ∧ a'.finished = true ∧ a'.uuid = a.uuid ∧ a'.level = a.level := by
  obtain ⟨a', h1, h2, h3, _, _, h6⟩ := keeps_execB env cur w p h a ha
  exact ⟨a', h1, h6 hf, h2, h3⟩

/-- … hence no later `finish` of that action, after any program, builds (or stages) anything:
**no second end message**. -/
theorem no_second_end (env : Env) (cur : Option Exc) (w : World) (p : Block) (h : Nat) (a : Act)
    (ha : w.acts[h]? = some a) (hf : a.finished = true) (exc : Option Exc) :
    (execB env cur w p).1.finishRec env h exc = (execB env cur w p).1 := by
  obtain ⟨a', h1, h2, _⟩ := finished_stays_finished env cur w p h a ha hf
  exact finishRec_finished env _ h exc a' h1 h2

/-- `finish`, then any program, then `finish` again (with anything): the second call is the identity. -/
theorem finish_program_finish (env : Env) (cur : Option Exc) (w : World) (p : Block) (h : Nat) (a : Act)
    (ha : w.acts[h]? = some a) (x y : Option Exc) :
    (execB env cur (w.finishRec env h x) p).1.finishRec env h y = (execB env cur (w.finishRec env h x) p).1 := by
  obtain ⟨a', h1, h2, _⟩ := finishRec_sets_finished env w h x a ha
  exact no_second_end env cur _ p h a' h1 h2 y

/-! ## exactly one start message -/

/-- **one_start_message**: `_start` stages exactly one dict — `m` with the global fields merged —
and `m` says `started`, carries the action's uuid, the action's level extended by its next position,
its type, and under every non-structural key exactly the caller's start field. -/
theorem one_start_message (env : Env) (hh : Healthy env) (w : World) (h : Nat) (a : Act) (f : Fields)
    (ha : w.acts[h]? = some a) (hs : a.sers = none) :
    ∃ m : Msg, (w.startRec env h f).stage = w.stage ++ [Fields.update m w.globals] ∧
      m.get? "action_status" = some (.str "started") ∧ m.get? "task_uuid" = some (.uuid a.uuid) ∧
      m.get? "task_level" = some (.lvl (a.level ++ [a.last + 1])) ∧ m.get? "action_type" = some (.str a.atype) ∧
      (∀ k, k ∉ STRUCT → m.get? k = f.get? k) ∧
      (∀ k, w.globals.get? k = none → (Fields.update m w.globals).get? k = m.get? k) := by
  obtain ⟨s1, s2, s3, s4, _, s6⟩ := startDict_spec a (.ts w.tick) f
  exact ⟨_, startRec_stage env hh w h a f ha hs, s1, s2, s3, s4, s6, fun k hk => staged_get _ _ k hk⟩

/-! ## exactly one, truthful, end message -/

/-- what `get_fields_for_exception` returns, for every environment: the fields of the extractor
registered for the nearest class in the MRO, `{}` when there is none or when it raises -/
theorem getFields_fields (env : Env) (w : World) (e : Exc) :
    (World.getFields env w e).2 =
      (match firstExtractor env (env.mro (e.cls env)) with
       | none => []
       | some f => match f e w.extCalls with
         | .ok fs => fs
         | .error _ => []) := by
  simp only [World.getFields]
  cases firstExtractor env (env.mro (e.cls env)) with
  | none => rfl
  | some f =>
    simp only
    cases f e w.extCalls <;> rfl

/-- The end message in general form (every extractor behaviour): `finish` on an unfinished action
stages `pre ++ [m + globals]` where `pre` is whatever `get_fields_for_exception` logged (nothing
unless an extractor raised), and `m` is `succeeded` iff no exception was given, `failed` iff one
was — then with its module-qualified class name and `safeunicode` text. -/
theorem end_message (env : Env) (hh : Healthy env) (w : World) (h : Nat) (a : Act) (exc : Option Exc)
    (ha : w.acts[h]? = some a) (hf : a.finished = false) (hs : exc = none → a.sers = none) :
    ∃ (pre : List Msg) (m : Msg),
      (w.finishRec env h exc).stage = w.stage ++ pre ++ [Fields.update m w.globals] ∧
      (m.get? "action_status" = some (.str "failed") ↔ exc ≠ none) ∧
      (m.get? "action_status" = some (.str "succeeded") ↔ exc = none) ∧
      (∀ e, exc = some e → m.get? "exception" = some (.str (e.qual env)) ∧ m.get? "reason" = some (.str (e.safeStr env)) ∧
        ∀ k, k ∉ STRUCT → k ≠ "exception" → k ≠ "reason" → m.get? k = (World.getFields env (w.setFin h a) e).2.get? k) ∧
      (exc = none → ∀ k, k ∉ STRUCT → m.get? k = a.succ.get? k) ∧
      m.get? "task_uuid" = some (.uuid a.uuid) ∧ m.get? "action_type" = some (.str a.atype) ∧
      (∃ n, a.last ≤ n ∧ m.get? "task_level" = some (.lvl (a.level ++ [n + 1]))) ∧
      ((∀ e, exc = some e → firstExtractor env (env.mro (e.cls env)) = none ∨
          ∃ f fs, firstExtractor env (env.mro (e.cls env)) = some f ∧ f e w.extCalls = .ok fs) →
        pre = [] ∧ m.get? "task_level" = some (.lvl (a.level ++ [a.last + 1]))) := by
  cases exc with
  | none =>
    obtain ⟨s1, s2, s3, s4, s5⟩ := succDict_spec a (.ts w.tick)
    refine ⟨[], succDict a (.ts w.tick), ?_, ?_, ?_, ?_, fun _ => s5, s2, s4, ⟨a.last, Nat.le_refl _, s3⟩, fun _ => ⟨rfl, s3⟩⟩
    · rw [finish_ok_stage env hh w h a ha hf (hs rfl)]; simp
    · rw [s1]; simp
    · rw [s1]; simp
    · intro e he; cases he
  | some e =>
    obtain ⟨a', h1, h2, h3, h4, h5, h6⟩ := finish_err_stage env hh w h a e ha hf
    obtain ⟨pre, hpre⟩ := (frame_getFields env (w.setFin h a) e).stage
    have hpre' : (World.getFields env (w.setFin h a) e).1.stage = w.stage ++ pre := hpre.symm
    obtain ⟨s1, s2, s3, s4, s5, s6, s7⟩ := failDict_spec env a' (.ts (World.getFields env (w.setFin h a) e).1.tick) e
      (World.getFields env (w.setFin h a) e).2
    refine ⟨pre, _, by rw [h6, hpre'], ?_, ?_, ?_, ?_, by rw [s4, h2], by rw [s6, h4], ⟨a'.last, h5, by rw [s5, h3]⟩, ?_⟩
    · rw [s1]; simp
    · rw [s1]; simp
    · intro e' he
      cases he
      exact ⟨s2, s3, s7⟩
    · intro he; cases he
    · intro hx
      have hq : (World.getFields env (w.setFin h a) e).1.stage = w.stage ∧ a'.last = a.last := by
        rcases hx e rfl with hx | ⟨f, fs, hx, hr⟩
        · rw [getFields_noext env _ e hx] at h1 ⊢
          rw [setFin_get w h a ha] at h1
          cases h1
          exact ⟨rfl, rfl⟩
        · have hr' : f e (w.setFin h a).extCalls = .ok fs := hr
          rw [getFields_ok env _ e f fs hx hr'] at h1 ⊢
          have h1' : (w.setFin h a).acts[h]? = some a' := h1
          rw [setFin_get w h a ha] at h1'
          cases h1'
          exact ⟨rfl, rfl⟩
      refine ⟨?_, by rw [s5, h3, hq.2]⟩
      have := hq.1
      rw [hpre'] at this
      exact List.append_right_eq_self.mp this

/-- **one_end_message**: on a finished action `finish` is the identity (nothing staged); on an
unfinished one exactly one dict is staged: `succeeded` with exactly the success fields when no
exception is given; `failed` with `exception` = module-qualified class name and `reason` =
`safeunicode(e)` (the fixed fallback text when `str()` raises) and nothing else when `e`'s MRO has no
extractor (with an extractor: `extractor_mro`, `extractor_raise_contained`). -/
theorem one_end_message (env : Env) (hh : Healthy env) (w : World) (h : Nat) (a : Act) (ha : w.acts[h]? = some a) :
    (a.finished = true → ∀ exc, w.finishRec env h exc = w) ∧
    (a.finished = false → a.sers = none →
      ∃ m : Msg, (w.finishRec env h none).stage = w.stage ++ [Fields.update m w.globals] ∧
        m.get? "action_status" = some (.str "succeeded") ∧ m.get? "task_uuid" = some (.uuid a.uuid) ∧
        m.get? "task_level" = some (.lvl (a.level ++ [a.last + 1])) ∧ m.get? "action_type" = some (.str a.atype) ∧
        ∀ k, k ∉ STRUCT → m.get? k = a.succ.get? k) ∧
    (a.finished = false → ∀ e : Exc, firstExtractor env (env.mro (e.cls env)) = none →
      ∃ m : Msg, (w.finishRec env h (some e)).stage = w.stage ++ [Fields.update m w.globals] ∧
        m.get? "action_status" = some (.str "failed") ∧
        m.get? "exception" = some (.str (e.qual env)) ∧ m.get? "reason" = some (.str (e.safeStr env)) ∧
        m.get? "task_uuid" = some (.uuid a.uuid) ∧
        m.get? "task_level" = some (.lvl (a.level ++ [a.last + 1])) ∧ m.get? "action_type" = some (.str a.atype) ∧
        ∀ k, k ∉ STRUCT → k ≠ "exception" → k ≠ "reason" → m.get? k = none) := by
  refine ⟨fun hf exc => finishRec_finished env w h exc a ha hf, fun hf hs => ?_, fun hf e hx => ?_⟩
  · obtain ⟨s1, s2, s3, s4, s5⟩ := succDict_spec a (.ts w.tick)
    exact ⟨_, finish_ok_stage env hh w h a ha hf hs, s1, s2, s3, s4, s5⟩
  · obtain ⟨pre, m, e1, e2, _, e4, _, e6, e7, _, e9⟩ := end_message env hh w h a (some e) ha hf (fun he => by cases he)
    obtain ⟨p1, p2⟩ := e9 (fun e' he => by cases he; exact Or.inl hx)
    obtain ⟨x1, x2, x3⟩ := e4 e rfl
    subst p1
    refine ⟨m, by simpa using e1, e2.mpr (by simp), x1, x2, e6, p2, e7, fun k k1 k2 k3 => ?_⟩
    rw [x3 k k1 k2 k3, getFields_noext env _ e hx]
    rfl

/-! ## truthful status; the exception passes through -/

theorem outcomeExc_some (o : Outcome) (e : Exc) : outcomeExc o = some e ↔ o = .raised e := by
  cases o <;> simp [outcomeExc]

theorem outcomeExc_ne_none (o : Outcome) : outcomeExc o ≠ none ↔ ∃ e, o = .raised e := by
  cases o <;> simp [outcomeExc]

/-- **failed_iff_raised**: for `with action:` around any body (`run`), the end message — the last
dict the block stages — says `failed` exactly when the body's outcome is `raised e`, for `e` of any
class whatsoever, and then carries that `e`'s class name and text; otherwise it says `succeeded`.
The outcome of the block is the body's outcome: the same exception value (same identity) keeps
propagating.  `pre` = what `get_fields_for_exception` logged (empty unless an extractor raised). -/
theorem failed_iff_raised (env : Env) (hh : Healthy env) (w : World) (h : Nat) (run : World → World × Outcome) (a : Act)
    (ha : (run { w with ctx := some h }).1.acts[h]? = some a) (hf : a.finished = false) (hs : a.sers = none) :
    ∃ (pre : List Msg) (m : Msg),
      (withBlock env w h run).1.stage =
        (run { w with ctx := some h }).1.stage ++ pre ++ [Fields.update m (run { w with ctx := some h }).1.globals] ∧
      (m.get? "action_status" = some (.str "failed") ↔ ∃ e, (run { w with ctx := some h }).2 = .raised e) ∧
      (m.get? "action_status" = some (.str "succeeded") ↔ ¬ ∃ e, (run { w with ctx := some h }).2 = .raised e) ∧
      (∀ e, (run { w with ctx := some h }).2 = .raised e →
        m.get? "exception" = some (.str (e.qual env)) ∧ m.get? "reason" = some (.str (e.safeStr env))) ∧
      m.get? "task_uuid" = some (.uuid a.uuid) ∧ m.get? "action_type" = some (.str a.atype) ∧
      ((∀ e, (run { w with ctx := some h }).2 = .raised e → firstExtractor env (env.mro (e.cls env)) = none) → pre = []) ∧
      (withBlock env w h run).2 = (run { w with ctx := some h }).2 := by
  have ha' : ({ (run { w with ctx := some h }).1 with ctx := w.ctx } : World).acts[h]? = some a := ha
  obtain ⟨pre, m, e1, e2, e3, e4, _, e6, e7, _, e9⟩ := end_message env hh _ h a (outcomeExc (run { w with ctx := some h }).2)
    ha' hf (fun _ => hs)
  refine ⟨pre, m, e1, e2.trans (outcomeExc_ne_none _), ?_, fun e he => ?_, e6, e7, fun hx => ?_, rfl⟩
  · rw [e3, ← outcomeExc_ne_none]
    exact ⟨fun h1 h2 => h2 h1, fun h1 => Classical.byContradiction fun h2 => h1 h2⟩
  · obtain ⟨x1, x2, _⟩ := e4 e ((outcomeExc_some _ e).mpr he)
    exact ⟨x1, x2⟩
  · exact (e9 (fun e he => Or.inl (hx e ((outcomeExc_some _ e).mp he)))).1

/-- **exc_identity** (re-export of `Sys.C07.exc_identity`): `__exit__` returns `None`; the exception
leaving the block is the very one the body raised. -/
theorem exc_identity (env : Env) (w : World) (h : Nat) (run : World → World × Outcome) :
    (withBlock env w h run).2 = (run { w with ctx := some h }).2 := Sys.C07.exc_identity env w h run

/-- …and for whole programs: the outcome is the outcome of the program's own control flow (any
environment): no exception is swallowed, replaced or invented by an action's exit. -/
theorem program_outcome (env : Env) (p : Block) :
    (execB env none {} p).2 = .stuck ∨ (execB env none {} p).2 = Sys.C07.pureB p := Sys.C07.app_outcome_unchanged env p

/-- a `with` block always leaves its action finished -/
theorem withBlock_finishes (env : Env) (w : World) (h : Nat) (run : World → World × Outcome) (a : Act)
    (ha : (run { w with ctx := some h }).1.acts[h]? = some a) :
    ∃ a' : Act, (withBlock env w h run).1.acts[h]? = some a' ∧ a'.finished = true ∧ a'.uuid = a.uuid ∧ a'.level = a.level :=
  finishRec_sets_finished env _ h _ a ha

/-! ## which fields go where -/

/-- **fields_placement**: (1) a successful end carries success fields only: every key of the staged
dict (before the global fields are merged) is a key of `a.succ` or structural, with `a.succ`'s value;
(2) a failed end carries extractor fields only: every key is a key of what
`get_fields_for_exception` returned, `exception`, `reason`, or structural — so a success field (any
key at all) that the extractor did not produce is *absent* from a failed end.  Start fields are not
part of the action's state at all (`Act` has no such component: `_start` passes them to
`Logger.write` and drops them), so neither end dict can contain them; the start dict in turn holds
the start fields and nothing of `a.succ` (`one_start_message`). -/
theorem fields_placement (env : Env) (hh : Healthy env) (w : World) (h : Nat) (a : Act)
    (ha : w.acts[h]? = some a) (hf : a.finished = false) :
    (a.sers = none → ∃ m : Msg, (w.finishRec env h none).stage = w.stage ++ [Fields.update m w.globals] ∧
      (∀ k, m.get? k ≠ none → k ∈ a.succ.keys ∨ k ∈ STRUCT) ∧ (∀ k, k ∉ STRUCT → m.get? k = a.succ.get? k)) ∧
    (∀ e : Exc, ∃ (pre : List Msg) (m : Msg),
      (w.finishRec env h (some e)).stage = w.stage ++ pre ++ [Fields.update m w.globals] ∧
      (∀ k, m.get? k ≠ none →
        k ∈ (World.getFields env (w.setFin h a) e).2.keys ∨ k = "exception" ∨ k = "reason" ∨ k ∈ STRUCT) ∧
      (∀ k, k ∉ STRUCT → k ≠ "exception" → k ≠ "reason" → k ∉ (World.getFields env (w.setFin h a) e).2.keys →
        m.get? k = none)) := by
  refine ⟨fun hs => ?_, fun e => ?_⟩
  · obtain ⟨_, _, _, _, s5⟩ := succDict_spec a (.ts w.tick)
    refine ⟨_, finish_ok_stage env hh w h a ha hf hs, fun k hk => ?_, s5⟩
    by_cases hst : k ∈ STRUCT
    · exact Or.inr hst
    · rw [s5 k hst] at hk
      exact Or.inl (get?_isSome_keys _ _ hk)
  · obtain ⟨pre, m, e1, _, _, e4, _⟩ := end_message env hh w h a (some e) ha hf (fun he => by cases he)
    obtain ⟨_, _, x3⟩ := e4 e rfl
    refine ⟨pre, m, e1, fun k hk => ?_, fun k k1 k2 k3 k4 => ?_⟩
    · by_cases hst : k ∈ STRUCT
      · exact Or.inr (Or.inr (Or.inr hst))
      · by_cases k2 : k = "exception"
        · exact Or.inr (Or.inl k2)
        · by_cases k3 : k = "reason"
          · exact Or.inr (Or.inr (Or.inl k3))
          · rw [x3 k hst k2 k3] at hk
            exact Or.inl (get?_isSome_keys _ _ hk)
    · rw [x3 k k1 k2 k3]
      exact get?_none_of_not_keys _ _ k4

/-! ## extractors: nearest class in the MRO; a raising extractor is contained -/

/-- the class whose extractor is used: the first class, in MRO order, that has one registered -/
def nearest (env : Env) (l : List Nat) : Option Nat := l.find? (fun c => (env.extractor c).isSome)

theorem firstExtractor_nearest (env : Env) (l : List Nat) : firstExtractor env l = (nearest env l).bind env.extractor := by
  induction l with
  | nil => rfl
  | cons c cs ih =>
    simp only [firstExtractor, nearest, List.find?_cons]
    cases hc : env.extractor c with
    | some f => simp [hc]
    | none => simp only [Option.isSome_none]; exact ih

/-- **extractor_mro**: the extractor used for `e` is the one registered for the nearest class of
`e`'s MRO — `c` with every class before it in `inspect.getmro(type(e))` unregistered —; when it
returns `fs`, `finish(e)` stages exactly one dict, and that dict holds `fs` under every key that is
not structural / `exception` / `reason` (those are set after, as in the source). -/
theorem extractor_mro (env : Env) (hh : Healthy env) (w : World) (h : Nat) (a : Act) (e : Exc)
    (ha : w.acts[h]? = some a) (hf : a.finished = false) :
    firstExtractor env (env.mro (e.cls env)) = (nearest env (env.mro (e.cls env))).bind env.extractor ∧
    (∀ c, nearest env (env.mro (e.cls env)) = some c ↔
      (env.extractor c).isSome = true ∧ ∃ as bs, env.mro (e.cls env) = as ++ c :: bs ∧ ∀ c' ∈ as, env.extractor c' = none) ∧
    (∀ c f fs, nearest env (env.mro (e.cls env)) = some c → env.extractor c = some f → f e w.extCalls = .ok fs →
      ∃ m : Msg, (w.finishRec env h (some e)).stage = w.stage ++ [Fields.update m w.globals] ∧
        m.get? "action_status" = some (.str "failed") ∧
        m.get? "exception" = some (.str (e.qual env)) ∧ m.get? "reason" = some (.str (e.safeStr env)) ∧
        ∀ k, k ∉ STRUCT → k ≠ "exception" → k ≠ "reason" → m.get? k = fs.get? k) := by
  refine ⟨firstExtractor_nearest env _, fun c => ?_, fun c f fs hc hfx hr => ?_⟩
  · simp only [nearest, List.find?_eq_some_iff_append]
    constructor
    · rintro ⟨h1, as, bs, h2, h3⟩
      refine ⟨h1, as, bs, h2, fun c' hc' => ?_⟩
      have := h3 c' hc'
      cases hx : env.extractor c' with
      | none => rfl
      | some _ => simp [hx] at this
    · rintro ⟨h1, as, bs, h2, h3⟩
      exact ⟨h1, as, bs, h2, fun c' hc' => by simp [h3 c' hc']⟩
  · have hx : firstExtractor env (env.mro (e.cls env)) = some f := by
      rw [firstExtractor_nearest, hc]; exact hfx
    obtain ⟨pre, m, e1, e2, _, e4, _, _, _, _, e9⟩ := end_message env hh w h a (some e) ha hf (fun he => by cases he)
    obtain ⟨p1, _⟩ := e9 (fun e' he => by cases he; exact Or.inr ⟨f, fs, hx, hr⟩)
    obtain ⟨x1, x2, x3⟩ := e4 e rfl
    subst p1
    refine ⟨m, by simpa using e1, e2.mpr (by simp), x1, x2, fun k k1 k2 k3 => ?_⟩
    have hr' : f e (w.setFin h a).extCalls = .ok fs := hr
    rw [x3 k k1 k2 k3, getFields_ok env _ e f fs hx hr']

theorem logNoSer_stage_eq (env : Env) (hh : Healthy env) (w : World) (t : String) (f : Fields) :
    (w.logNoSer env t f).stage =
      w.stage ++ [Fields.update (w.currentOrFresh.1.buildLog w.currentOrFresh.2 t f).2 w.globals] := by
  unfold World.logNoSer
  simp only
  have q := (quiet_currentOrFresh w).trans (quiet_buildLog w.currentOrFresh.1 w.currentOrFresh.2 t f)
  rw [send_healthy_stage env hh, q.stage, q.frame.globals]

theorem buildLog_get (w : World) (h : Nat) (t : String) (f : Fields) :
    (w.buildLog h t f).2.get? "message_type" = some (.str t) ∧
    ∀ k, k ≠ "timestamp" → k ≠ "task_uuid" → k ≠ "task_level" → k ≠ "message_type" → (w.buildLog h t f).2.get? k = f.get? k := by
  refine ⟨?_, fun k k1 k2 k3 k4 => ?_⟩
  · simp only [World.buildLog]
    exact Fields.get?_set_self _ _ _
  · simp only [World.buildLog]
    rw [Fields.get?_set_ne _ _ _ _ k4, Fields.get?_set_ne _ _ _ _ k3, Fields.get?_set_ne _ _ _ _ k2,
      Fields.get?_set_ne _ _ _ _ k1]

/-- `finish(e)` when the extractor for `e` raises `e'` (whatever `e'` is — while that failure is being
logged no extractor is consulted): exactly one `eliot:traceback` for `e'`, then the failed end without
any extractor field. -/
theorem finish_extractor_raises (env : Env) (hh : Healthy env) (w : World) (h : Nat) (a : Act) (e e' : Exc)
    (f : Exc → Nat → Except Exc Fields) (ha : w.acts[h]? = some a) (hf : a.finished = false)
    (hx : firstExtractor env (env.mro (e.cls env)) = some f) (hr : f e w.extCalls = .error e')
    (hg1 : w.globals.get? "message_type" = none) (hg2 : w.globals.get? "reason" = none)
    (hg3 : w.globals.get? "exception" = none) :
    ∃ (tb m : Msg), (w.finishRec env h (some e)).stage = w.stage ++ [tb, Fields.update m w.globals] ∧
      tb.get? "message_type" = some (.str "eliot:traceback") ∧
      tb.get? "reason" = some (.str (e'.safeStr env)) ∧ tb.get? "exception" = some (.str (e'.qual env)) ∧
      m.get? "action_status" = some (.str "failed") ∧
      m.get? "exception" = some (.str (e.qual env)) ∧ m.get? "reason" = some (.str (e.safeStr env)) ∧
      m.get? "task_uuid" = some (.uuid a.uuid) ∧ m.get? "action_type" = some (.str a.atype) ∧
      ∀ k, k ∉ STRUCT → k ≠ "exception" → k ≠ "reason" → m.get? k = none := by
  obtain ⟨a', _, h2, _, h4, _, h6⟩ := finish_err_stage env hh w h a e ha hf
  have hr' : f e (w.setFin h a).extCalls = .error e' := hr
  rw [getFields_raise env _ e e' f hx hr'] at h6
  simp only at h6
  rw [logNoSer_stage_eq env hh] at h6
  obtain ⟨s1, s2, s3, s4, _, s6, s7⟩ := failDict_spec env a'
    (.ts (({ w.setFin h a with extCalls := (w.setFin h a).extCalls + 1 } : World).logNoSer env "eliot:traceback"
      (tracebackFields env e' [])).tick) e []
  obtain ⟨b1, b2⟩ := buildLog_get ({ w.setFin h a with extCalls := (w.setFin h a).extCalls + 1 } : World).currentOrFresh.1
    ({ w.setFin h a with extCalls := (w.setFin h a).extCalls + 1 } : World).currentOrFresh.2 "eliot:traceback"
    (tracebackFields env e' [])
  refine ⟨_, _, by rw [h6]; simp; rfl, ?_, ?_, ?_, s1, s2, s3, by rw [s4, h2], by rw [s6, h4], fun k k1 k2 k3 => ?_⟩
  · exact (staged_get _ _ _ hg1).trans b1
  · refine (staged_get _ _ _ hg2).trans ?_
    rw [b2 _ (by decide) (by decide) (by decide) (by decide)]
    simp [tracebackFields, Fields.update, Fields.get?, Fields.set]
  · refine (staged_get _ _ _ hg3).trans ?_
    rw [b2 _ (by decide) (by decide) (by decide) (by decide)]
    simp [tracebackFields, Fields.update, Fields.get?, Fields.set]
  · rw [s7 k k1 k2 k3]; rfl

/-- **extractor_raise_contained**: the body of `with action:` raised `e`, the extractor registered for
the nearest class of `e`'s MRO raises `e'` (any exception: extractors are not consulted while the
failure is being logged).  Then the block stages
exactly one `eliot:traceback` describing `e'`, followed by the `failed` end message of `e` with *no*
extractor field at all (`get_fields_for_exception` returned `{}`), and the block's outcome is still
`raised e`: the extractor's exception neither escapes nor replaces `e`.  (Global fields must not
override `message_type` / `reason` / `exception`, or the traceback would not be recognisable.) -/
theorem extractor_raise_contained (env : Env) (hh : Healthy env) (w : World) (h : Nat) (run : World → World × Outcome)
    (a : Act) (e e' : Exc) (f : Exc → Nat → Except Exc Fields)
    (hr0 : (run { w with ctx := some h }).2 = .raised e)
    (ha : (run { w with ctx := some h }).1.acts[h]? = some a) (hf : a.finished = false)
    (hx : firstExtractor env (env.mro (e.cls env)) = some f) (hr : f e (run { w with ctx := some h }).1.extCalls = .error e')
    (hg1 : (run { w with ctx := some h }).1.globals.get? "message_type" = none)
    (hg2 : (run { w with ctx := some h }).1.globals.get? "reason" = none)
    (hg3 : (run { w with ctx := some h }).1.globals.get? "exception" = none) :
    ∃ (tb m : Msg),
      (withBlock env w h run).1.stage =
        (run { w with ctx := some h }).1.stage ++ [tb, Fields.update m (run { w with ctx := some h }).1.globals] ∧
      tb.get? "message_type" = some (.str "eliot:traceback") ∧
      tb.get? "reason" = some (.str (e'.safeStr env)) ∧ tb.get? "exception" = some (.str (e'.qual env)) ∧
      m.get? "action_status" = some (.str "failed") ∧
      m.get? "exception" = some (.str (e.qual env)) ∧ m.get? "reason" = some (.str (e.safeStr env)) ∧
      m.get? "task_uuid" = some (.uuid a.uuid) ∧ m.get? "action_type" = some (.str a.atype) ∧
      (∀ k, k ∉ STRUCT → k ≠ "exception" → k ≠ "reason" → m.get? k = none) ∧
      (withBlock env w h run).2 = .raised e := by
  have ha' : ({ (run { w with ctx := some h }).1 with ctx := w.ctx } : World).acts[h]? = some a := ha
  obtain ⟨tb, m, e1, e2, e3, e4, e5, e6, e7, e8, e9, e10⟩ := finish_extractor_raises env hh
    ({ (run { w with ctx := some h }).1 with ctx := w.ctx } : World) h a e e' f ha' hf hx hr hg1 hg2 hg3
  refine ⟨tb, m, ?_, e2, e3, e4, e5, e6, e7, e8, e9, e10, hr0⟩
  simp only [withBlock, hr0, outcomeExc]
  exact e1

/-! ## every environment: failing destinations only append failure reports -/

theorem reportFields_no_status (env : Env) (e : Exc) (m : Msg) : (reportFields env e m).get? "action_status" = none := by
  simp [reportFields, Fields.get?]

/-- what the report loop stages: one dict per error, each of the report type and none an action message -/
theorem reportAll_stage (env : Env) (m : Msg) (es : List Exc) (w : World) :
    ∃ rest : List Msg, (World.reportAll env w m es).stage = w.stage ++ rest ∧ rest.length = es.length ∧
      ∀ r ∈ rest, (w.globals.get? "message_type" = none → r.get? "message_type" = some (.str DESTINATION_FAILURE)) ∧
        (w.globals.get? "action_status" = none → r.get? "action_status" = none) := by
  induction es generalizing w with
  | nil => exact ⟨[], by simp [World.reportAll], rfl, by simp⟩
  | cons e es ih =>
    simp only [World.reportAll]
    have hst : (w.logReport env (reportFields env e m)).stage = w.stage ++
        [Fields.update (w.currentOrFresh.1.buildLog w.currentOrFresh.2 DESTINATION_FAILURE (reportFields env e m)).2 w.globals] := by
      unfold World.logReport
      have q := (quiet_currentOrFresh w).trans (quiet_buildLog w.currentOrFresh.1 w.currentOrFresh.2 DESTINATION_FAILURE
        (reportFields env e m))
      simp only
      rw [deliver_stage, q.stage, q.frame.globals]
    have hgl : (w.logReport env (reportFields env e m)).globals = w.globals := (frame_logReport env w _).globals
    obtain ⟨rest, h1, h2, h3⟩ := ih (w.logReport env (reportFields env e m))
    obtain ⟨b1, b2⟩ := buildLog_get w.currentOrFresh.1 w.currentOrFresh.2 DESTINATION_FAILURE (reportFields env e m)
    refine ⟨Fields.update (w.currentOrFresh.1.buildLog w.currentOrFresh.2 DESTINATION_FAILURE (reportFields env e m)).2 w.globals :: rest,
      by rw [h1, hst]; simp, by simp [h2], fun r hr => ?_⟩
    rcases List.mem_cons.mp hr with hr | hr
    · subst hr
      refine ⟨fun hg => by rw [staged_get _ _ _ hg]; exact b1, fun hg => ?_⟩
      rw [staged_get _ _ _ hg, b2 _ (by decide) (by decide) (by decide) (by decide)]
      exact reportFields_no_status env e m
    · rw [hgl] at h3
      exact h3 r hr

/-- `Destinations.send` in every environment: the message (with globals) is staged exactly once,
followed only by `eliot:destination_failure` reports -/
theorem send_stage_any (env : Env) (w : World) (m : Msg) :
    ∃ rest : List Msg, (w.send env m).stage = w.stage ++ [Fields.update m w.globals] ++ rest ∧
      ∀ r ∈ rest, (w.globals.get? "message_type" = none → r.get? "message_type" = some (.str DESTINATION_FAILURE)) ∧
        (w.globals.get? "action_status" = none → r.get? "action_status" = none) := by
  unfold World.send
  simp only
  obtain ⟨rest, h1, _, h3⟩ := reportAll_stage env (w.deliver env m).2.1 (w.deliver env m).2.2 (w.deliver env m).1
  rw [(frame_deliver env w m).globals] at h3
  exact ⟨rest, by rw [h1, deliver_stage], h3⟩

/-- **one_start_message_any_env**: no hypothesis on the destinations — whatever subset of calls of
whatever destinations raise, `_start` stages its dict exactly once; everything else it stages is a
`eliot:destination_failure` report, and no report is an action message (given that global fields do
not set `message_type` / `action_status`). -/
theorem one_start_message_any_env (env : Env) (w : World) (h : Nat) (a : Act) (f : Fields)
    (ha : w.acts[h]? = some a) (hs : a.sers = none) :
    ∃ rest : List Msg,
      (w.startRec env h f).stage = w.stage ++ [Fields.update (startDict a (.ts w.tick) f) w.globals] ++ rest ∧
      ∀ r ∈ rest, (w.globals.get? "message_type" = none → r.get? "message_type" = some (.str DESTINATION_FAILURE)) ∧
        (w.globals.get? "action_status" = none → r.get? "action_status" = none) := by
  rw [startRec_eq env w h a f ha, hs]
  simp only [Option.map_none, loggerWrite_none]
  have q := (quiet_clock w).trans (quiet_nextLevel w.clock.1 h)
  obtain ⟨rest, h1, h2⟩ := send_stage_any env (w.clock.1.nextLevel h).1 (startDict a (.ts w.tick) f)
  rw [q.stage, q.frame.globals] at h1
  rw [q.frame.globals] at h2
  exact ⟨rest, h1, h2⟩

/-- **one_end_message_any_env**: likewise for the end message — a successful end (no typed
serializers) and a failed end whose exception has no extractor (typed or not). -/
theorem one_end_message_any_env (env : Env) (w : World) (h : Nat) (a : Act)
    (ha : w.acts[h]? = some a) (hf : a.finished = false) :
    (a.sers = none → ∃ rest : List Msg,
      (w.finishRec env h none).stage = w.stage ++ [Fields.update (succDict a (.ts w.tick)) w.globals] ++ rest ∧
      ∀ r ∈ rest, (w.globals.get? "message_type" = none → r.get? "message_type" = some (.str DESTINATION_FAILURE)) ∧
        (w.globals.get? "action_status" = none → r.get? "action_status" = none)) ∧
    (∀ e : Exc, firstExtractor env (env.mro (e.cls env)) = none → ∃ rest : List Msg,
      (w.finishRec env h (some e)).stage = w.stage ++ [Fields.update (failDict env a (.ts w.tick) e []) w.globals] ++ rest ∧
      ∀ r ∈ rest, (w.globals.get? "message_type" = none → r.get? "message_type" = some (.str DESTINATION_FAILURE)) ∧
        (w.globals.get? "action_status" = none → r.get? "action_status" = none)) := by
  refine ⟨fun hs => ?_, fun e hx => ?_⟩
  · rw [finishRec_ok_eq env w h a ha hf, hs]
    simp only [Option.map_none, loggerWrite_none]
    have q : Quiet w ((w.setFin h a).clock.1.nextLevel h).1 :=
      (quiet_setFinished w h a ha).trans ((quiet_clock (w.setFin h a)).trans (quiet_nextLevel _ h))
    obtain ⟨rest, h1, h2⟩ := send_stage_any env ((w.setFin h a).clock.1.nextLevel h).1 (succDict a (.ts w.tick))
    rw [q.stage, q.frame.globals] at h1
    rw [q.frame.globals] at h2
    exact ⟨rest, h1, h2⟩
  · rw [finishRec_err_eq env w h a e ha hf, getFields_noext env _ e hx]
    have hc : (w.setFin h a).clock.1.acts[h]? = some { a with finished := true } := setFin_get w h a ha
    have q : Quiet w ((w.setFin h a).clock.1.nextLevel h).1 :=
      (quiet_setFinished w h a ha).trans ((quiet_clock (w.setFin h a)).trans (quiet_nextLevel _ h))
    have key : ∀ s, s = none ∨ s = some [] → ∀ m, ∃ rest : List Msg,
        (World.loggerWrite env ((w.setFin h a).clock.1.nextLevel h).1 m s).stage = w.stage ++ [Fields.update m w.globals] ++ rest ∧
        ∀ r ∈ rest, (w.globals.get? "message_type" = none → r.get? "message_type" = some (.str DESTINATION_FAILURE)) ∧
          (w.globals.get? "action_status" = none → r.get? "action_status" = none) := by
      intro s hs m
      obtain ⟨rest, h1, h2⟩ := send_stage_any env ((w.setFin h a).clock.1.nextLevel h).1 m
      rw [q.stage, q.frame.globals] at h1
      rw [q.frame.globals] at h2
      rcases hs with hs | hs <;> subst hs
      · exact ⟨rest, h1, h2⟩
      · exact ⟨rest, h1, h2⟩
    have hn : ((w.setFin h a).clock.1.nextLevel h).2 = a.level ++ [a.last + 1] := by rw [nextLevel_of_get hc]
    simp only []
    rw [hn]
    exact key _ (sers_fail_cases a.sers) _

/-! ## Non-vacuity
Exception `i` has class `i`.  Class 3 has the diamond MRO `[3, 2, 1, 0]`; extractors are registered for
1 (→ `code`) and 0 (→ `root`): the nearest one for an instance of 3 is class 1's, not class 0's.
Class 5's extractor raises exception 3 (whose class does have an extractor: it must not be consulted).  `str()` of exception 4 raises.
Classes 7 (think `KeyboardInterrupt`) and 8 are bare. -/
def exEnv : Env where
  classOf := fun i => i
  mro := fun c => if c = 3 then [3, 2, 1, 0] else if c = 2 then [2, 0] else if c = 1 then [1, 0] else [c]
  qualname := fun c => if c = 3 then "vmod.C3" else if c = 7 then "builtins.KeyboardInterrupt" else "vmod.C"
  strOf := fun i => if i = 4 then none else some "boom"
  keyErrorClass := 9
  extractor := fun c =>
    if c = 1 then some (fun _ _ => .ok [("code", .nat 7)])
    else if c = 0 then some (fun _ _ => .ok [("root", .nat 0)])
    else if c = 5 then some (fun _ _ => .error (.user 3))
    else none
  serialize := fun s v k => .ok (.serOut s k v)
  destFails := fun _ _ => none

theorem exEnv_healthy : Healthy exEnv := fun _ _ => rfl

/-- an unfinished action `a` (uuid 0, level [2], one position used, success fields y, z) that is current -/
def exW : World :=
  { acts := [{ uuid := 0, level := [2], last := 1, succ := [("y", .nat 2), ("z", .nat 3)], atype := "app:a" }],
    ctx := some 0, nextUuid := 1, anyAdded := true, dests := [0], tick := 5 }

/-- the observable part of a staged dict -/
def view (m : Msg) : List (Option FV) :=
  ["action_status", "task_level", "exception", "reason", "code", "root", "x", "y", "message_type"].map m.get?

/-- finish_idempotent / one_end_message: one end is staged; finishing again (success, another failure) adds nothing -/
example : ((exW.finishRec exEnv 0 (some (.user 7))).stage.map view =
      [[some (.str "failed"), some (.lvl [2, 2]), some (.str "builtins.KeyboardInterrupt"), some (.str "boom"), none, none, none, none, none]]) ∧
    (((exW.finishRec exEnv 0 (some (.user 7))).finishRec exEnv 0 none).stage = (exW.finishRec exEnv 0 (some (.user 7))).stage) ∧
    (((exW.finishRec exEnv 0 none).finishRec exEnv 0 (some (.user 3))).stage.map view =
      [[some (.str "succeeded"), some (.lvl [2, 2]), none, none, none, none, none, some (.nat 2), none]]) := by decide +kernel

/-- one_start_message: exactly one dict, status started, the next position, the start field `x` and no success field -/
example : (exW.startRec exEnv 0 [("x", .nat 1)]).stage.map view =
    [[some (.str "started"), some (.lvl [2, 2]), none, none, none, none, some (.nat 1), none, none]] := by decide +kernel

/-- the hypotheses of `one_end_message` / `extractor_mro` / `extractor_raise_contained` are satisfiable together -/
example : exW.acts[0]? = some { uuid := 0, level := [2], last := 1, succ := [("y", .nat 2), ("z", .nat 3)], atype := "app:a" } ∧
    firstExtractor exEnv (exEnv.mro ((Exc.user 7).cls exEnv)) = none ∧
    nearest exEnv (exEnv.mro ((Exc.user 3).cls exEnv)) = some 1 ∧
    (∃ f, firstExtractor exEnv (exEnv.mro ((Exc.user 5).cls exEnv)) = some f ∧ f (.user 5) 0 = .error (.user 3)) :=
  ⟨rfl, rfl, rfl, ⟨_, rfl, rfl⟩⟩

/-- failed_iff_raised / fields_placement / extractor_mro / exc_identity on a program: three nested
blocks; the innermost raises exception 3 (diamond MRO → class 1's extractor, field `code`, not `root`),
it is caught one level further out, the outer block then raises exception 4 whose `str()` raises and
that propagates to the top.  Start field `x` only on starts, success field `y` only on the succeeded
end (the middle block succeeded: the exception was caught inside it). -/
def exProg : Block :=
  .cons (.addDests [0]) <|
  .cons (.withAction false { atype := "outer", fields := [("x", .nat 1)] }
    (.cons (.addSuccess none [("y", .nat 9)])
    (.cons (.withAction false { atype := "middle", fields := [("x", .nat 2)] }
      (.cons (.addSuccess none [("y", .nat 8)])
      (.cons (.tryCatch
        (.cons (.withAction false { atype := "inner", fields := [("x", .nat 3)] }
          (.cons (.addSuccess none [("y", .nat 7)]) (.cons (.raise 3) .nil))) .nil)
        .nil) .nil)))
    (.cons (.raise 4) .nil)))) .nil

example : (execB exEnv none {} exProg).1.stage.map view =
    [[some (.str "started"), some (.lvl [1]), none, none, none, none, some (.nat 1), none, none],
     [some (.str "started"), some (.lvl [2, 1]), none, none, none, none, some (.nat 2), none, none],
     [some (.str "started"), some (.lvl [2, 2, 1]), none, none, none, none, some (.nat 3), none, none],
     [some (.str "failed"), some (.lvl [2, 2, 2]), some (.str "vmod.C3"), some (.str "boom"), some (.nat 7), none, none, none, none],
     [some (.str "succeeded"), some (.lvl [2, 3]), none, none, none, none, none, some (.nat 8), none],
     [some (.str "failed"), some (.lvl [3]), some (.str "vmod.C"), some (.str "eliot: unknown, str() raised exception"),
      none, none, none, none, none]] ∧
    (execB exEnv none {} exProg).2 = .raised (.user 4) := by decide +kernel

/-- extractor_raise_contained: the body raises exception 5 whose extractor raises exception 3: one
traceback for 3 (logged in the parent's context — here none, so its own task; no `code` field although
class 1's extractor would apply to 3), then the failed end of 5 without extractor fields; exception 5 itself leaves the block.  finished_stays_finished / no_second_end:
the later explicit `finish` calls on the handle add nothing. -/
def exProg2 : Block :=
  .cons (.addDests [0]) <|
  .cons (.startAs 0 false { atype := "h", fields := [("x", .nat 1)] }) <|
  .cons (.tryCatch (.cons (.withHandle 0 (.cons (.raise 5) .nil)) .nil) .nil) <|
  .cons (.finish 0 none) <| .cons (.finish 0 (some 3)) <| .cons (.log { mtype := "after" }) .nil

example : (execB exEnv none {} exProg2).1.stage.map view =
    [[some (.str "started"), some (.lvl [1]), none, none, none, none, some (.nat 1), none, none],
     [none, some (.lvl [1]), some (.str "vmod.C3"), some (.str "boom"), none, none, none, none, some (.str "eliot:traceback")],
     [some (.str "failed"), some (.lvl [2]), some (.str "vmod.C"), some (.str "boom"), none, none, none, none, none],
     [none, some (.lvl [1]), none, none, none, none, none, none, some (.str "after")]] ∧
    (execB exEnv none {} exProg2).2 = .ok ∧
    (execS exEnv none (execB exEnv none {} (.cons (.addDests [0]) (.cons (.startAs 0 false { atype := "h" }) .nil))).1
      (.withHandle 0 (.cons (.raise 5) .nil))).2 = .raised (.user 5) := by decide +kernel

/-- one_start_message_any_env: destination 0 raises on every call — the start dict is still staged
exactly once, followed by one failure report that is not an action message -/
example : let env := { exEnv with destFails := fun _ _ => some (Exc.user 8) }
    ((exW.startRec env 0 [("x", .nat 1)]).stage.map view).map (fun v => (v[0]?, v[8]?)) =
      [(some (some (.str "started")), some none), (some none, some (some (.str "eliot:destination_failure")))] := by
  decide +kernel

end Sys.C03
