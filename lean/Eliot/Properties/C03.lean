import Eliot.Proofs.SysAction
import Eliot.Properties.C07
import Eliot.Properties.C13
/-!
# C03 — each action logs exactly one start and one truthful end; errors pass through

Model: `Eliot/Model/Sys.lean` — `World.startRec` = `Action._start`, `World.finishRec` = `Action.finish`
(the `_finished` guard, success fields vs. `get_fields_for_exception` + `exception`/`reason`),
`withBlock` = `Action.__enter__/__exit__` (`__exit__` returns `None`), `World.getFields` /
`firstExtractor` = `ErrorExtraction.get_fields_for_exception` (walk of `inspect.getmro`, a raising
extractor → `write_traceback` + `{}`), `Exc.safeStr` = `safeunicode`.  Exception classes are data
(`env.classOf`, `env.mro`): `KeyboardInterrupt`, `GeneratorExit`, `CancelledError` subclasses are
ordinary `Exc` values, nothing in the model distinguishes `Exception` from `BaseException`.

All statements are about the observable output `stage` (the dicts that reached `Destinations.send`).
`startDict` / `succDict` / `failDict` (`Eliot/Proofs/SysAction.lean`) are the dicts `_start` / `finish`
hand to `Logger.write`; what is staged is that dict with the global fields merged in
(`Fields.update m w.globals`, i.e. `message.update(self._globalFields)`).

Quantifier: every world, every action handle, every environment.  Listed hypotheses:
`Healthy env` (no destination raises: otherwise `eliot:destination_failure` reports follow the
message — see the `…_any_env` variants, which need no such hypothesis), `a.sers = none` (no typed
serializers for start / success messages: C13 covers them), and in `extractor_raise_contained` that
the extractor's own exception has no (raising) extractor again.
-/
namespace Sys.C03
open Sys Sys.C04 Sys.C08 Sys.C13

/-- no destination ever raises -/
def Healthy (env : Env) : Prop := ∀ d k, env.destFails d k = none

/-! ### dictionaries -/
theorem get?_isSome_keys (d : Fields) (k : String) (h : d.get? k ≠ none) : k ∈ d.keys := by
  induction d with
  | nil => exact absurd rfl h
  | cons x xs ih =>
    obtain ⟨k', v'⟩ := x
    simp only [Fields.get?] at h
    simp only [Fields.keys, List.map_cons, List.mem_cons]
    split at h
    · rename_i hk; exact Or.inl hk.symm
    · exact Or.inr (ih h)

theorem get?_none_of_not_keys (d : Fields) (k : String) (h : k ∉ d.keys) : d.get? k = none := by
  cases hg : d.get? k with
  | none => rfl
  | some v => exact absurd (get?_isSome_keys d k (by rw [hg]; exact Option.some_ne_none v)) h

theorem not_struct {k : String} (hk : k ∉ STRUCT) :
    k ≠ "action_status" ∧ k ≠ "timestamp" ∧ k ≠ "task_uuid" ∧ k ≠ "action_type" ∧ k ≠ "task_level" := by
  simp only [STRUCT, List.mem_cons, List.not_mem_nil, or_false, not_or] at hk
  exact hk

/-- what the start dict holds: the four identifying entries, and under every other key exactly the
start field the caller passed (nothing else) -/
theorem startDict_spec (a : Act) (ts : FV) (f : Fields) :
    (startDict a ts f).get? "action_status" = some (.str "started") ∧
    (startDict a ts f).get? "task_uuid" = some (.uuid a.uuid) ∧
    (startDict a ts f).get? "task_level" = some (.lvl (a.level ++ [a.last + 1])) ∧
    (startDict a ts f).get? "action_type" = some (.str a.atype) ∧
    (startDict a ts f).get? "timestamp" = some ts ∧
    ∀ k, k ∉ STRUCT → (startDict a ts f).get? k = f.get? k := by
  refine ⟨?_, ?_, ?_, ?_, ?_, fun k hk => ?_⟩
  · simp only [startDict]
    rw [Fields.get?_set_ne _ _ _ _ (by decide), Fields.get?_set_ne _ _ _ _ (by decide), Fields.get?_set_ne _ _ _ _ (by decide),
      Fields.get?_set_ne _ _ _ _ (by decide), Fields.get?_set_self]
  · simp only [startDict]
    rw [Fields.get?_set_ne _ _ _ _ (by decide), Fields.get?_set_ne _ _ _ _ (by decide), Fields.get?_set_self]
  · simp only [startDict]
    rw [Fields.get?_set_self]
  · simp only [startDict]
    rw [Fields.get?_set_ne _ _ _ _ (by decide), Fields.get?_set_self]
  · simp only [startDict]
    rw [Fields.get?_set_ne _ _ _ _ (by decide), Fields.get?_set_ne _ _ _ _ (by decide), Fields.get?_set_ne _ _ _ _ (by decide),
      Fields.get?_set_self]
  · obtain ⟨h1, h2, h3, h4, h5⟩ := not_struct hk
    simp only [startDict]
    rw [Fields.get?_set_ne _ _ _ _ h5, Fields.get?_set_ne _ _ _ _ h4, Fields.get?_set_ne _ _ _ _ h3,
      Fields.get?_set_ne _ _ _ _ h2, Fields.get?_set_ne _ _ _ _ h1]

theorem succDict_spec (a : Act) (ts : FV) :
    (succDict a ts).get? "action_status" = some (.str "succeeded") ∧
    (succDict a ts).get? "task_uuid" = some (.uuid a.uuid) ∧
    (succDict a ts).get? "task_level" = some (.lvl (a.level ++ [a.last + 1])) ∧
    (succDict a ts).get? "action_type" = some (.str a.atype) ∧
    ∀ k, k ∉ STRUCT → (succDict a ts).get? k = a.succ.get? k := by
  refine ⟨?_, ?_, ?_, ?_, fun k hk => ?_⟩
  · simp only [succDict]
    rw [Fields.get?_set_ne _ _ _ _ (by decide), Fields.get?_set_ne _ _ _ _ (by decide), Fields.get?_set_ne _ _ _ _ (by decide),
      Fields.get?_set_ne _ _ _ _ (by decide), Fields.get?_set_self]
  · simp only [succDict]
    rw [Fields.get?_set_ne _ _ _ _ (by decide), Fields.get?_set_ne _ _ _ _ (by decide), Fields.get?_set_self]
  · simp only [succDict]
    rw [Fields.get?_set_self]
  · simp only [succDict]
    rw [Fields.get?_set_ne _ _ _ _ (by decide), Fields.get?_set_self]
  · obtain ⟨h1, h2, h3, h4, h5⟩ := not_struct hk
    simp only [succDict]
    rw [Fields.get?_set_ne _ _ _ _ h5, Fields.get?_set_ne _ _ _ _ h4, Fields.get?_set_ne _ _ _ _ h3,
      Fields.get?_set_ne _ _ _ _ h2, Fields.get?_set_ne _ _ _ _ h1]

theorem failDict_spec (env : Env) (a : Act) (ts : FV) (e : Exc) (fs : Fields) :
    (failDict env a ts e fs).get? "action_status" = some (.str "failed") ∧
    (failDict env a ts e fs).get? "exception" = some (.str (e.qual env)) ∧
    (failDict env a ts e fs).get? "reason" = some (.str (e.safeStr env)) ∧
    (failDict env a ts e fs).get? "task_uuid" = some (.uuid a.uuid) ∧
    (failDict env a ts e fs).get? "task_level" = some (.lvl (a.level ++ [a.last + 1])) ∧
    (failDict env a ts e fs).get? "action_type" = some (.str a.atype) ∧
    ∀ k, k ∉ STRUCT → k ≠ "exception" → k ≠ "reason" → (failDict env a ts e fs).get? k = fs.get? k := by
  refine ⟨?_, ?_, ?_, ?_, ?_, ?_, fun k hk he hr => ?_⟩
  · simp only [failDict]
    rw [Fields.get?_set_ne _ _ _ _ (by decide), Fields.get?_set_ne _ _ _ _ (by decide), Fields.get?_set_ne _ _ _ _ (by decide),
      Fields.get?_set_ne _ _ _ _ (by decide), Fields.get?_set_self]
  · simp only [failDict]
    rw [Fields.get?_set_ne _ _ _ _ (by decide), Fields.get?_set_ne _ _ _ _ (by decide), Fields.get?_set_ne _ _ _ _ (by decide),
      Fields.get?_set_ne _ _ _ _ (by decide), Fields.get?_set_ne _ _ _ _ (by decide), Fields.get?_set_ne _ _ _ _ (by decide),
      Fields.get?_set_self]
  · simp only [failDict]
    rw [Fields.get?_set_ne _ _ _ _ (by decide), Fields.get?_set_ne _ _ _ _ (by decide), Fields.get?_set_ne _ _ _ _ (by decide),
      Fields.get?_set_ne _ _ _ _ (by decide), Fields.get?_set_ne _ _ _ _ (by decide), Fields.get?_set_self]
  · simp only [failDict]
    rw [Fields.get?_set_ne _ _ _ _ (by decide), Fields.get?_set_ne _ _ _ _ (by decide), Fields.get?_set_self]
  · simp only [failDict]
    rw [Fields.get?_set_self]
  · simp only [failDict]
    rw [Fields.get?_set_ne _ _ _ _ (by decide), Fields.get?_set_self]
  · obtain ⟨h1, h2, h3, h4, h5⟩ := not_struct hk
    simp only [failDict]
    rw [Fields.get?_set_ne _ _ _ _ h5, Fields.get?_set_ne _ _ _ _ h4, Fields.get?_set_ne _ _ _ _ h3,
      Fields.get?_set_ne _ _ _ _ h2, Fields.get?_set_ne _ _ _ _ h1, Fields.get?_set_ne _ _ _ _ hr,
      Fields.get?_set_ne _ _ _ _ he]

/-- merging the global fields leaves every key they do not mention alone -/
theorem staged_get (m g : Fields) (k : String) (h : g.get? k = none) : (Fields.update m g).get? k = m.get? k :=
  Fields.get?_update_none m g k h

/-! ### what `_start` and `finish` stage -/
theorem loggerWrite_none (env : Env) (w : World) (m : Msg) : w.loggerWrite env m none = w.send env m := rfl

/-- the failure serializer declares no user field: it cannot fail -/
theorem loggerWrite_nil (env : Env) (w : World) (m : Msg) : w.loggerWrite env m (some []) = w.send env m := rfl

theorem startRec_stage (env : Env) (hh : Healthy env) (w : World) (h : Nat) (a : Act) (f : Fields)
    (ha : w.acts[h]? = some a) (hs : a.sers = none) :
    (w.startRec env h f).stage = w.stage ++ [Fields.update (startDict a (.ts w.tick) f) w.globals] := by
  rw [startRec_eq env w h a f ha, hs]
  simp only [Option.map_none, loggerWrite_none]
  have q := (quiet_clock w).trans (quiet_nextLevel w.clock.1 h)
  rw [send_healthy_stage env hh, q.stage, q.frame.globals]

theorem finish_ok_stage (env : Env) (hh : Healthy env) (w : World) (h : Nat) (a : Act)
    (ha : w.acts[h]? = some a) (hf : a.finished = false) (hs : a.sers = none) :
    (w.finishRec env h none).stage = w.stage ++ [Fields.update (succDict a (.ts w.tick)) w.globals] := by
  rw [finishRec_ok_eq env w h a ha hf, hs]
  simp only [Option.map_none, loggerWrite_none]
  have q : Quiet w ((w.setFin h a).clock.1.nextLevel h).1 :=
    (quiet_setFinished w h a ha).trans ((quiet_clock (w.setFin h a)).trans (quiet_nextLevel _ h))
  rw [send_healthy_stage env hh, q.stage, q.frame.globals]

theorem sers_fail_cases (s : Option (List (String × Nat) × List (String × Nat))) :
    s.map (fun _ => ([] : List (String × Nat))) = none ∨ s.map (fun _ => ([] : List (String × Nat))) = some [] := by
  cases s with
  | none => exact Or.inl rfl
  | some _ => exact Or.inr rfl

/-- The failed end, for every extractor behaviour and whether or not the action has typed
serializers: everything `get_fields_for_exception` logged comes first (`g.1.stage`), then exactly the
failure dict built from what it returned.  `a'` is the action as `get_fields_for_exception` left it
(a traceback logged in this action's own context has taken a position). -/
theorem finish_err_stage (env : Env) (hh : Healthy env) (w : World) (h : Nat) (a : Act) (e : Exc)
    (ha : w.acts[h]? = some a) (hf : a.finished = false) :
    ∃ a' : Act, (World.getFields env FUEL (w.setFin h a) e).1.acts[h]? = some a' ∧
      a'.uuid = a.uuid ∧ a'.level = a.level ∧ a'.atype = a.atype ∧ a.last ≤ a'.last ∧
      (w.finishRec env h (some e)).stage = (World.getFields env FUEL (w.setFin h a) e).1.stage ++
        [Fields.update (failDict env a' (.ts (World.getFields env FUEL (w.setFin h a) e).1.tick) e
          (World.getFields env FUEL (w.setFin h a) e).2) w.globals] := by
  have fg := frame_getFields env FUEL (w.setFin h a) e
  obtain ⟨a', h1, h2, h3, h4, _, _, h7, _⟩ := fg.keep h _ (setFin_get w h a ha)
  refine ⟨a', h1, h2, h3, h7, h4, ?_⟩
  rw [finishRec_err_eq env w h a e ha hf]
  have hc : (World.getFields env FUEL (w.setFin h a) e).1.clock.1.acts[h]? = some a' := h1
  have q := (quiet_clock (World.getFields env FUEL (w.setFin h a) e).1).trans
    (quiet_nextLevel (World.getFields env FUEL (w.setFin h a) e).1.clock.1 h)
  have hgl : (World.getFields env FUEL (w.setFin h a) e).1.globals = w.globals := fg.globals
  have key : ∀ s, s = none ∨ s = some [] → ∀ m, (World.loggerWrite env
      ((World.getFields env FUEL (w.setFin h a) e).1.clock.1.nextLevel h).1 m s).stage =
      (World.getFields env FUEL (w.setFin h a) e).1.stage ++ [Fields.update m w.globals] := by
    intro s hs m
    rcases hs with hs | hs <;> subst hs
    · rw [loggerWrite_none, send_healthy_stage env hh, q.stage, q.frame.globals, hgl]
    · rw [loggerWrite_nil, send_healthy_stage env hh, q.stage, q.frame.globals, hgl]
  rw [key _ (sers_fail_cases a.sers), nextLevel_of_get hc]
  simp only [failDict, h2, h3, h7]

theorem getFields_noext (env : Env) (w : World) (e : Exc) (hx : firstExtractor env (env.mro (e.cls env)) = none) :
    World.getFields env FUEL w e = (w, []) := by
  simp [FUEL, World.getFields, hx]

theorem getFields_ok (env : Env) (w : World) (e : Exc) (f : Exc → Nat → Except Exc Fields) (fs : Fields)
    (hx : firstExtractor env (env.mro (e.cls env)) = some f) (hr : f e w.extCalls = .ok fs) :
    World.getFields env FUEL w e = ({ w with extCalls := w.extCalls + 1 }, fs) := by
  simp [FUEL, World.getFields, hx, hr]

theorem getFields_raise (env : Env) (w : World) (e e' : Exc) (f : Exc → Nat → Except Exc Fields)
    (hx : firstExtractor env (env.mro (e.cls env)) = some f) (hr : f e w.extCalls = .error e')
    (hx' : firstExtractor env (env.mro (e'.cls env)) = none) :
    World.getFields env FUEL w e =
      (({ w with extCalls := w.extCalls + 1 } : World).logNoSer env "eliot:traceback" (tracebackFields env e' []), []) := by
  simp [FUEL, World.getFields, hx, hr, hx']

/-! ## finishing again emits nothing and changes nothing -/

/-- **finish_idempotent**: for every environment, world, handle and pair of arguments, a second
`finish` is the identity on the whole state (so in particular it stages, offers and delivers
nothing).  No hypothesis: if the handle is not an action both calls are the identity. -/
theorem finish_idempotent (env : Env) (w : World) (h : Nat) (x y : Option Exc) :
    (w.finishRec env h x).finishRec env h y = w.finishRec env h x := by
  cases ha : w.acts[h]? with
  | none => rw [finishRec_none env w h x ha, finishRec_none env w h y ha]
  | some a =>
    obtain ⟨a', h1, h2, _⟩ := finishRec_sets_finished env w h x a ha
    exact finishRec_finished env _ h y a' h1 h2

/-- **finished_stays_finished**: once an action is finished it stays finished (same uuid, level, type)
through every program — any statements, any environment, any handled exception — … -/
theorem finished_stays_finished (env : Env) (cur : Option Exc) (w : World) (p : Block) (h : Nat) (a : Act)
    (ha : w.acts[h]? = some a) (hf : a.finished = true) :
    ∃ a' : Act, (execB env cur w p).1.acts[h]? = some a' ∧ a'.finished = true ∧ a'.uuid = a.uuid ∧ a'.level = a.level := by
  obtain ⟨a', h1, h2, h3, _, _, h6⟩ := keeps_execB env cur w p h a ha
  exact ⟨a', h1, h6 hf, h2, h3⟩

/-- … hence no later `finish` of that action, after any program, builds (or stages) anything:
**no second end message**. -/
theorem no_second_end (env : Env) (cur : Option Exc) (w : World) (p : Block) (h : Nat) (a : Act)
    (ha : w.acts[h]? = some a) (hf : a.finished = true) (exc : Option Exc) :
    (execB env cur w p).1.finishRec env h exc = (execB env cur w p).1 := by
  obtain ⟨a', h1, h2, _⟩ := finished_stays_finished env cur w p h a ha hf
  exact finishRec_finished env _ h exc a' h1 h2

/-- `finish`, then any program, then `finish` again (with anything): the second call is the identity. -/
theorem finish_program_finish (env : Env) (cur : Option Exc) (w : World) (p : Block) (h : Nat) (a : Act)
    (ha : w.acts[h]? = some a) (x y : Option Exc) :
    (execB env cur (w.finishRec env h x) p).1.finishRec env h y = (execB env cur (w.finishRec env h x) p).1 := by
  obtain ⟨a', h1, h2, _⟩ := finishRec_sets_finished env w h x a ha
  exact no_second_end env cur _ p h a' h1 h2 y

end Sys.C03
