import Eliot.Proofs.ParseParser
/-!
# C09 — parsing is order-independent and detects task completeness exactly

Model: `Eliot/Model/Parse.lean` (`Task.add`, `Parser.add`, `Parser.feed`, `parseStream`), a
transliteration of `eliot/parse.py` over a trie keyed by level components.

Quantifier: every specification `ts : Spec` (any number of tasks with distinct uuids; every tree
shape — nested actions at any depth and breadth stand for remote sub-tasks too — and one-message
tasks), every duplicate-free list `ms` of messages drawn from it (so: every subset), in every
order.  `arrived ms` is the set of messages in `ms`; all conclusions depend on `ms` only through it.
-/
namespace PM.C09
open PM

/-- the set of messages in a history -/
def arrived (ms : List PMsg) : PMsg → Bool := fun x => ms.contains x

def uni (S : PMsg → Bool) (ms : List PMsg) : PMsg → Bool := fun x => S x || ms.contains x

theorem uni_cons (S : PMsg → Bool) (m : PMsg) (ms : List PMsg) : uni (ext S m) ms = uni S (m :: ms) := by
  funext x
  by_cases h : x = m
  · simp [uni, ext, h]
  · have hb : (x == m) = false := by simpa using h
    simp [uni, ext, h, hb]

theorem allArrived_mono {S : PMsg → Bool} {u : String} {t : Tree} (m : PMsg) (h : allArrived S u t) :
    allArrived (ext S m) u t := fun x hx => by simp [ext, h x hx]

theorem allArrived_uni {S : PMsg → Bool} {u : String} {t : Tree} (ms : List PMsg) (h : allArrived S u t) :
    allArrived (uni S ms) u t := fun x hx => by simp [uni, h x hx]

/-- What `Parser.feed` does from any state satisfying the invariant. -/
theorem feed_spec {ts : Spec} (hwf : ts.WF) : ∀ (ms : List PMsg) (S : PMsg → Bool) (p : Parser), POK S ts p →
    ms.Nodup → (∀ m ∈ ms, m ∈ ts.msgs) → (∀ m ∈ ms, S m = false) →
    ∃ done p', Parser.feed p ms = .ok (done, p') ∧ POK (uni S ms) ts p' ∧
      (done.map (·.1)).Nodup ∧
      (∀ u T, (u, T) ∈ done → ∃ t, (u, t) ∈ ts ∧ ¬ allArrived S u t ∧ allArrived (uni S ms) u t ∧
          TaskIs (uni S ms) u t T ∧ T.isComplete = true) ∧
      (∀ u t, (u, t) ∈ ts → ¬ allArrived S u t → allArrived (uni S ms) u t → ∃ T, (u, T) ∈ done) := by
  intro ms
  induction ms with
  | nil =>
    intro S p hp _ _ _
    have : uni S [] = S := by funext x; simp [uni]
    refine ⟨[], p, rfl, by rw [this]; exact hp, by simp, by simp, ?_⟩
    intro u t _ h1 h2; rw [this] at h2; exact absurd h2 h1
  | cons m ms ih =>
    intro S p hp hnd hin hS
    obtain ⟨u, t, ht, hm⟩ := Spec.mem_msgs (hin m List.mem_cons_self)
    have hSm := hS m List.mem_cons_self
    obtain ⟨done₁, p₁, hadd, hp₁, hdone₁⟩ := Parser.add_step hwf hp ht hm hSm
    have hnd' := (List.nodup_cons.mp hnd)
    have hS₁ : ∀ x ∈ ms, ext S m x = false := by
      intro x hx
      have hne : x ≠ m := fun h => hnd'.1 (h ▸ hx)
      rw [ext_of_ne S m x hne]; exact hS x (List.mem_cons_of_mem _ hx)
    obtain ⟨done₂, p₂, hfeed, hp₂, hnd₂, hs₂, hc₂⟩ :=
      ih (ext S m) p₁ hp₁ hnd'.2 (fun x hx => hin x (List.mem_cons_of_mem _ hx)) hS₁
    rw [uni_cons] at hp₂ hs₂ hc₂
    have hnall : ¬ allArrived S u t := fun h => by have := h m hm; rw [hSm] at this; cases this
    refine ⟨done₁ ++ done₂, p₂, ?_, hp₂, ?_, ?_, ?_⟩
    · simp only [Parser.feed, hadd, hfeed, bind, Except.bind, pure, Except.pure]
    · -- keys of done₁ ++ done₂
      rcases hdone₁ with ⟨hall, T, hd, _, _⟩ | ⟨_, hd⟩
      · subst hd
        simp only [List.singleton_append, List.map_cons, List.nodup_cons]
        refine ⟨?_, hnd₂⟩
        intro hmem
        obtain ⟨e, he, heq⟩ := List.mem_map.mp hmem
        obtain ⟨t', ht', hn, _⟩ := hs₂ e.1 e.2 he
        rw [heq] at ht' hn
        have := hwf.unique ht ht'; subst this
        exact hn hall
      · subst hd; simpa using hnd₂
    · intro u' T' hmem
      rcases List.mem_append.mp hmem with h | h
      · rcases hdone₁ with ⟨hall, T, hd, hT, hcT⟩ | ⟨_, hd⟩
        · subst hd
          simp only [List.mem_singleton, Prod.mk.injEq] at h
          obtain ⟨rfl, rfl⟩ := h
          have hall' : allArrived (uni S (m :: ms)) u' t := by rw [← uni_cons]; exact allArrived_uni ms hall
          refine ⟨t, ht, hnall, hall', hT.congr (fun x hx => ?_), hcT⟩
          rw [hall x hx, hall' x hx]
        · subst hd; cases h
      · obtain ⟨t', ht', hn, rest⟩ := hs₂ u' T' h
        exact ⟨t', ht', fun ha => hn (allArrived_mono m ha), rest⟩
    · intro u' t' ht' hn hall
      by_cases h₁ : allArrived (ext S m) u' t'
      · have hu : u' = u := by
          apply Classical.byContradiction; intro hne
          have hc := @ext_other S m u' t' (fun h => hne ((tmsgs_uuid u t m hm) ▸ h).symm)
          exact hn ((allArrived.congr hc).mpr h₁)
        subst hu
        have := hwf.unique ht ht'; subst this
        rcases hdone₁ with ⟨_, T, hd, _, _⟩ | ⟨hna, _⟩
        · exact ⟨T, by rw [hd]; simp⟩
        · exact absurd h₁ hna
      · obtain ⟨T, hT⟩ := hc₂ u' t' ht' h₁ hall
        exact ⟨T, List.mem_append_right _ hT⟩

/-- Exactly-once characterisation of what `parse_stream` yields. -/
structure OutOK (S : PMsg → Bool) (ts : Spec) (out : List (String × Task)) : Prop where
  /-- no task appears twice -/
  nodup : (out.map (·.1)).Nodup
  /-- nothing else appears: every yielded task is a spec task some message of which arrived, in the
  state determined by the *set* of arrived messages, and is complete iff all its messages arrived -/
  sound : ∀ u T, (u, T) ∈ out → ∃ t, (u, t) ∈ ts ∧ someArrived S u t ∧ TaskIs S u t T ∧
            (T.isComplete = true ↔ allArrived S u t)
  /-- every task some message of which arrived appears -/
  compl : ∀ u t, (u, t) ∈ ts → someArrived S u t → ∃ T, (u, T) ∈ out

theorem someArrived_of_not_all {u : String} {t : Tree} {S S' : PMsg → Bool}
    (h1 : ¬ allArrived S u t) (h2 : allArrived S' u t) : someArrived S' u t := by
  have : tmsgs u t ≠ [] := by
    intro h; apply h1; intro m hm; rw [h] at hm; cases hm
  obtain ⟨m, hm⟩ := List.exists_mem_of_ne_nil _ this
  exact ⟨m, hm, h2 m hm⟩

/-- **feed_ok / yield_exactly_once**: on every duplicate-free sub-list of the messages of a
well-formed specification, in any order, `parse_stream` raises nothing and yields: first the tasks
that completed (each handed back by `Parser.add`, complete), then the ones still in the parser
(incomplete); together exactly one entry per task that has any message in `ms`. -/
theorem feed_ok {ts : Spec} (hwf : ts.WF) (ms : List PMsg) (hnd : ms.Nodup) (hin : ∀ m ∈ ms, m ∈ ts.msgs) :
    ∃ done p, Parser.feed [] ms = .ok (done, p) ∧ parseStream ms = .ok (done ++ p) ∧
      OutOK (arrived ms) ts (done ++ p) ∧
      (∀ e ∈ done, e.2.isComplete = true) ∧ (∀ e ∈ p, e.2.isComplete = false) := by
  obtain ⟨done, p, hfeed, hp, hnd₂, hs, hc⟩ :=
    feed_spec hwf ms (fun _ => false) [] (POK.init ts) hnd hin (fun _ _ => rfl)
  have hu : uni (fun _ => false) ms = arrived ms := by funext x; simp [uni, arrived]
  rw [hu] at hp hs hc
  have hnone : ∀ u t, ¬ allArrived (fun _ => false) u t ∨ tmsgs u t = [] := by
    intro u t
    cases h : tmsgs u t with
    | nil => exact Or.inr rfl
    | cons x xs => exact Or.inl (fun ha => by have := ha x (by rw [h]; simp); cases this)
  have hne : ∀ u t, tmsgs u t ≠ [] := by
    intro u t; cases t <;> simp [tmsgs, Tree.msgs]
  have hnall0 : ∀ u t, ¬ allArrived (fun _ => false) u t := fun u t =>
    (hnone u t).resolve_right (hne u t)
  refine ⟨done, p, hfeed, by simp [parseStream, hfeed, bind, Except.bind, pure, Except.pure], ⟨?_, ?_, ?_⟩, ?_, ?_⟩
  · -- keys nodup across done ++ p
    rw [List.map_append, List.nodup_append]
    refine ⟨hnd₂, hp.nodup, ?_⟩
    intro a ha b hb hab
    obtain ⟨e, he, rfl⟩ := List.mem_map.mp ha
    obtain ⟨e', he', rfl⟩ := List.mem_map.mp hb
    obtain ⟨t, ht, _, hall, _⟩ := hs e.1 e.2 he
    obtain ⟨t', ht', _, _, hnall⟩ := hp.sound e'.1 e'.2 he'
    rw [← hab] at ht'
    have := hwf.unique ht ht'; subst this
    exact hnall (hab ▸ hall)
  · intro u T hmem
    rcases List.mem_append.mp hmem with h | h
    · obtain ⟨t, ht, hn, hall, hT, hcT⟩ := hs u T h
      exact ⟨t, ht, someArrived_of_not_all hn hall, hT, ⟨fun _ => hall, fun _ => hcT⟩⟩
    · obtain ⟨t, ht, hT, hsome, hnall⟩ := hp.sound u T h
      exact ⟨t, ht, hsome, hT, hT.isComplete_iff hsome⟩
  · intro u t ht hsome
    by_cases hall : allArrived (arrived ms) u t
    · obtain ⟨T, hT⟩ := hc u t ht (hnall0 u t) hall
      exact ⟨T, List.mem_append_left _ hT⟩
    · obtain ⟨T, hT⟩ := hp.compl u t ht hsome hall
      exact ⟨T, List.mem_append_right _ hT⟩
  · intro e he
    obtain ⟨_, _, _, _, _, hcT⟩ := hs e.1 e.2 he
    exact hcT
  · intro e he
    obtain ⟨t, _, hT, hsome, hnall⟩ := hp.sound e.1 e.2 he
    cases hc' : e.2.isComplete with
    | false => rfl
    | true => exact absurd ((hT.isComplete_iff hsome).mp hc') hnall

/-- **subset_no_error**: any subset of the messages, in any order, parses without error. -/
theorem subset_no_error {ts : Spec} (hwf : ts.WF) (ms : List PMsg) (hnd : ms.Nodup) (hin : ∀ m ∈ ms, m ∈ ts.msgs) :
    ∃ out, parseStream ms = .ok out := by
  obtain ⟨done, p, _, h, _⟩ := feed_ok hwf ms hnd hin
  exact ⟨_, h⟩

/-- Two task states are the same value (`Task.__eq__`: same tree, same *set* of completed levels). -/
def Task.Same (T₁ T₂ : Task) : Prop :=
  T₁.root = T₂.root ∧ (∀ L, T₁.completed.contains L = T₂.completed.contains L)

theorem TaskIs.same {S : PMsg → Bool} {u : String} {t : Tree} {T₁ T₂ : Task}
    (h₁ : TaskIs S u t T₁) (h₂ : TaskIs S u t T₂) : Task.Same T₁ T₂ := by
  cases t with
  | leaf b => exact ⟨h₁.1.trans h₂.1.symm, fun L => (h₁.2 L).trans (h₂.2 L).symm⟩
  | node a sb eb ok kids =>
    exact ⟨h₁.root.trans h₂.root.symm,
      fun L => (h₁.compl L (List.nil_prefix)).trans (h₂.compl L (List.nil_prefix)).symm⟩

/-- **parse_perm_invariant**: the result does not depend on arrival order nor on how tasks are
interleaved: for two orders of the same messages the same tasks are yielded (same uuids, each
once), and for every uuid the two `Task` values are equal and equally complete. -/
theorem parse_perm_invariant {ts : Spec} (hwf : ts.WF) (ms₁ ms₂ : List PMsg) (hperm : ms₁.Perm ms₂)
    (hnd : ms₁.Nodup) (hin : ∀ m ∈ ms₁, m ∈ ts.msgs) :
    ∃ out₁ out₂, parseStream ms₁ = .ok out₁ ∧ parseStream ms₂ = .ok out₂ ∧
      (out₁.map (·.1)).Nodup ∧ (out₂.map (·.1)).Nodup ∧
      (∀ u, (∃ T, (u, T) ∈ out₁) ↔ (∃ T, (u, T) ∈ out₂)) ∧
      (∀ u T₁ T₂, (u, T₁) ∈ out₁ → (u, T₂) ∈ out₂ → Task.Same T₁ T₂ ∧ T₁.isComplete = T₂.isComplete) := by
  have hnd₂ : ms₂.Nodup := hperm.nodup_iff.mp hnd
  have hin₂ : ∀ m ∈ ms₂, m ∈ ts.msgs := fun m hm => hin m (hperm.mem_iff.mpr hm)
  obtain ⟨d₁, p₁, _, h₁, ok₁, _⟩ := feed_ok hwf ms₁ hnd hin
  obtain ⟨d₂, p₂, _, h₂, ok₂, _⟩ := feed_ok hwf ms₂ hnd₂ hin₂
  have hS : arrived ms₁ = arrived ms₂ := by
    funext x
    simp only [arrived]
    rw [Bool.eq_iff_iff]
    simp only [List.contains_iff_mem]
    exact hperm.mem_iff
  rw [← hS] at ok₂
  refine ⟨_, _, h₁, h₂, ok₁.nodup, ok₂.nodup, ?_, ?_⟩
  · intro u
    constructor
    · rintro ⟨T, hT⟩; obtain ⟨t, ht, hs, _⟩ := ok₁.sound u T hT; exact ok₂.compl u t ht hs
    · rintro ⟨T, hT⟩; obtain ⟨t, ht, hs, _⟩ := ok₂.sound u T hT; exact ok₁.compl u t ht hs
  · intro u T₁ T₂ hT₁ hT₂
    obtain ⟨t, ht, _, hI₁, hc₁⟩ := ok₁.sound u T₁ hT₁
    obtain ⟨t', ht', _, hI₂, hc₂⟩ := ok₂.sound u T₂ hT₂
    have := hwf.unique ht ht'; subst this
    refine ⟨TaskIs.same hI₁ hI₂, ?_⟩
    rw [Bool.eq_iff_iff, hc₁, hc₂]

/-- **complete_iff_all_arrived**: a yielded task reports `is_complete()` exactly when every one of
its messages is in the history. -/
theorem complete_iff_all_arrived {ts : Spec} (hwf : ts.WF) (ms : List PMsg) (hnd : ms.Nodup)
    (hin : ∀ m ∈ ms, m ∈ ts.msgs) :
    ∃ out, parseStream ms = .ok out ∧ ∀ u T, (u, T) ∈ out → ∃ t, (u, t) ∈ ts ∧
      (T.isComplete = true ↔ ∀ m ∈ tmsgs u t, m ∈ ms) := by
  obtain ⟨d, p, _, h, ok, _⟩ := feed_ok hwf ms hnd hin
  refine ⟨_, h, fun u T hT => ?_⟩
  obtain ⟨t, ht, _, _, hc⟩ := ok.sound u T hT
  refine ⟨t, ht, hc.trans ?_⟩
  simp [allArrived, arrived]

/-- **never_early**: after any valid prefix, `Parser.add` hands a task back exactly when the added
message is the last missing one of that task (never earlier, never later), and then it is that
task, complete. -/
theorem never_early {ts : Spec} (hwf : ts.WF) (pre : List PMsg) (m : PMsg) (hnd : (pre ++ [m]).Nodup)
    (hin : ∀ x ∈ pre ++ [m], x ∈ ts.msgs) {u : String} {t : Tree} (ht : (u, t) ∈ ts) (hm : m ∈ tmsgs u t) :
    ∃ d₀ p₀ done p', Parser.feed [] pre = .ok (d₀, p₀) ∧ Parser.add p₀ m = .ok (done, p') ∧
      (((∀ x ∈ tmsgs u t, x ∈ pre ++ [m]) ∧ ∃ T, done = [(u, T)] ∧ T.isComplete = true) ∨
       (¬ (∀ x ∈ tmsgs u t, x ∈ pre ++ [m]) ∧ done = [])) := by
  have hnd' := List.nodup_append.mp hnd
  obtain ⟨d₀, p₀, hfeed, hp, _⟩ :=
    feed_spec hwf pre (fun _ => false) [] (POK.init ts) hnd'.1
      (fun x hx => hin x (List.mem_append_left _ hx)) (fun _ _ => rfl)
  have hu : uni (fun _ => false) pre = arrived pre := by funext x; simp [uni, arrived]
  rw [hu] at hp
  have hSm : arrived pre m = false := by
    simp only [arrived]
    cases h : pre.contains m with
    | false => rfl
    | true => exact absurd rfl (hnd'.2.2 m (List.contains_iff_mem.mp h) m (by simp))
  obtain ⟨done, p', hadd, _, hd⟩ := Parser.add_step hwf hp ht hm hSm
  have hS : ∀ x, ext (arrived pre) m x = true ↔ x ∈ pre ++ [m] := by
    intro x; simp [ext, arrived]
  have hall : allArrived (ext (arrived pre) m) u t ↔ ∀ x ∈ tmsgs u t, x ∈ pre ++ [m] := by
    simp only [allArrived, hS]
  refine ⟨d₀, p₀, done, p', hfeed, hadd, ?_⟩
  rcases hd with ⟨h1, T, h2, _, h3⟩ | ⟨h1, h2⟩
  · exact Or.inl ⟨hall.mp h1, T, h2, h3⟩
  · exact Or.inr ⟨fun h => h1 (hall.mpr h), h2⟩

/-- **yield_exactly_once**: in `parse_stream`'s output every task with at least one message in the
history appears exactly once — the complete ones first (at the step that completed them), the
incomplete ones after the input ended — and nothing else appears. -/
theorem yield_exactly_once {ts : Spec} (hwf : ts.WF) (ms : List PMsg) (hnd : ms.Nodup)
    (hin : ∀ m ∈ ms, m ∈ ts.msgs) :
    ∃ done rest, parseStream ms = .ok (done ++ rest) ∧
      ((done ++ rest).map (·.1)).Nodup ∧
      (∀ e ∈ done, e.2.isComplete = true) ∧ (∀ e ∈ rest, e.2.isComplete = false) ∧
      (∀ u, (∃ T, (u, T) ∈ done ++ rest) ↔ ∃ t, (u, t) ∈ ts ∧ ∃ m ∈ tmsgs u t, m ∈ ms) := by
  obtain ⟨d, p, _, h, ok, hd, hr⟩ := feed_ok hwf ms hnd hin
  refine ⟨d, p, h, ok.nodup, hd, hr, fun u => ⟨?_, ?_⟩⟩
  · rintro ⟨T, hT⟩
    obtain ⟨t, ht, ⟨m, hm, hs⟩, _⟩ := ok.sound u T hT
    exact ⟨t, ht, m, hm, by simpa [arrived] using hs⟩
  · rintro ⟨t, ht, m, hm, hs⟩
    exact ok.compl u t ht ⟨m, hm, by simpa [arrived] using hs⟩

/-- **reconstruct**: all messages of one action task, in any order, parse to exactly that tree,
complete (used by C01 / C06 / C11 / C17). -/
theorem reconstruct (u : String) (a : String) (sb eb : Nat) (ok : Bool) (kids : Forest) (ms : List PMsg)
    (hperm : ms.Perm (Tree.msgs u (.node a sb eb ok kids) [])) (hnd : ms.Nodup) :
    ∃ T, parseStream ms = .ok [(u, T)] ∧ T.isComplete = true ∧
      T.root = Tree.view (fun _ => true) u (.node a sb eb ok kids) [] := by
  let t : Tree := .node a sb eb ok kids
  have hwf : Spec.WF [(u, t)] := by simp [Spec.WF]
  have hin : ∀ m ∈ ms, m ∈ Spec.msgs [(u, t)] := by
    intro m hm; simp only [Spec.msgs, List.flatMap_cons, List.flatMap_nil, List.append_nil, tmsgs, t]
    exact hperm.mem_iff.mp hm
  obtain ⟨d, p, _, h, okk, _, _⟩ := feed_ok hwf ms hnd hin
  have hall : allArrived (arrived ms) u t := by
    intro m hm; simp only [arrived, List.contains_iff_mem]; exact hperm.mem_iff.mpr hm
  have hsome : someArrived (arrived ms) u t :=
    ⟨startMsg u [] a sb, by simp [tmsgs, t, Tree.msgs], hall _ (by simp [tmsgs, t, Tree.msgs])⟩
  obtain ⟨T, hT⟩ := okk.compl u t (by simp) hsome
  have hkeys : ∀ e ∈ d ++ p, e.1 = u := by
    intro e he
    obtain ⟨t', ht', _⟩ := okk.sound e.1 e.2 he
    simp only [List.mem_singleton, Prod.mk.injEq] at ht'
    exact ht'.1
  have hsingle : d ++ p = [(u, T)] := by
    have hnd' := okk.nodup
    generalize d ++ p = l at hT hkeys hnd'
    match l, hT, hkeys, hnd' with
    | [e], hT, _, _ => simp only [List.mem_singleton] at hT; rw [hT]
    | e₁ :: e₂ :: r, _, hkeys, hnd' =>
      have h1 := hkeys e₁ (by simp)
      have h2 := hkeys e₂ (by simp)
      simp only [List.map_cons, List.nodup_cons, List.mem_cons, not_or] at hnd'
      exact absurd (h1.trans h2.symm) hnd'.1.1
  obtain ⟨t', ht', _, hI, hc⟩ := okk.sound u T hT
  simp only [List.mem_singleton, Prod.mk.injEq] at ht'
  obtain ⟨_, rfl⟩ := ht'
  refine ⟨T, by rw [h, hsingle], hc.mpr hall, ?_⟩
  have hI' : TaskOK (arrived ms) u (.node a sb eb ok kids) T := hI
  rw [hI'.root]
  exact Tree.view_congr _ _ u _ [] (fun m hm => hall m hm)

/-! ## Non-vacuity: a concrete two-task specification with a nested (remote) sub-action, all of
its messages in a scrambled, interleaved order. -/
def exSpec : Spec :=
  [("u", .node "a" 0 5 true (.cons (.leaf 1) (.cons (.node "b" 2 4 false (.cons (.leaf 3) .nil)) .nil))),
   ("v", .leaf 9)]
def exMsgs : List PMsg := (exSpec.msgs).reverse

example : exSpec.WF ∧ exMsgs.Nodup ∧ (∀ m ∈ exMsgs, m ∈ exSpec.msgs) ∧ exMsgs.length = 7 := by
  refine ⟨by simp [Spec.WF, exSpec], by decide, fun m hm => List.mem_reverse.mp hm, by decide⟩
example : (parseStream exMsgs).toOption.map (·.map (fun e => (e.1, e.2.isComplete))) =
    some [("v", true), ("u", true)] := by decide
example : (parseStream exMsgs.dropLast).toOption.map (·.map (fun e => (e.1, e.2.isComplete))) =
    some [("v", true), ("u", false)] := by decide

end PM.C09
