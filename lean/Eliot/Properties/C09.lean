import Eliot.Proofs.ParseCompl
