import Eliot.Properties.C01
/-!
# A concrete `JsonView` that is faithful on staged dicts (non-vacuity of `roundtrip_file`)

`tagView` writes a field value of the core model as a JSON-native value: numbers and strings as
themselves, every other kind (`uuid`, clock value, task level, serializer output, …) as an array
headed by a numeric tag.  It is `Faithful` on every dict whose keys are distinct, whose numbers fit
64 bits and whose serializer outputs are nested at most 200 deep (`okMsg`, decidable) — in
particular on every dict the example program `exProg` stages, so `roundtrip_file` applies to it.
-/
namespace Sys.C01
open Sys Sys.Emit EJ

def cps (s : String) : List Nat := s.toList.map Char.toNat
def ofCps (l : List Nat) : String := String.ofList (l.map Char.ofNat)

theorem ofCps_cps (s : String) : ofCps (cps s) = s := by
  simp [ofCps, cps, List.map_map, Function.comp_def]

theorem cps_scalar (s : String) : ∀ c ∈ cps s, Scalar c := by
  intro c hc
  simp only [cps, List.mem_map] at hc
  obtain ⟨ch, _, rfl⟩ := hc
  have := ch.valid
  simp only [UInt32.isValidChar, Nat.isValidChar] at this
  show Scalar ch.val.toNat
  unfold Scalar
  omega

def intJ (n : Nat) : JVal := .int (n : Int)
def strJ (s : String) : JVal := .str (cps s)

def excJ : Exc → JVal
  | .user i => .arr [intJ 0, intJ i]
  | .keyError k => .arr [intJ 1, strJ k]

def excBack : JVal → Option Exc
  | .arr [.int 0, .int i] => some (.user i.toNat)
  | .arr [.int 1, .str k] => some (.keyError (ofCps k))
  | _ => none

/-- the tagged JSON form of a field value -/
def fvJ : FV → JVal
  | .nat n => intJ n
  | .str s => strJ s
  | .obj i => .arr [intJ 0, intJ i]
  | .lvl l => .arr [intJ 1, .arr (l.map intJ)]
  | .ts k => .arr [intJ 2, intJ k]
  | .uuid u => .arr [intJ 3, intJ u]
  | .exc e => .arr [intJ 4, excJ e]
  | .cls c => .arr [intJ 5, intJ c]
  | .tbtext e => .arr [intJ 6, excJ e]
  | .serOut sid k v => .arr [intJ 7, intJ sid, intJ k, fvJ v]
  | .render keys => .arr [intJ 8, .arr (keys.map strJ)]

def natsBack : List JVal → Option (List Nat)
  | [] => some []
  | .int i :: r => (natsBack r).map (i.toNat :: ·)
  | _ :: _ => none

def strsBack : List JVal → Option (List String)
  | [] => some []
  | .str s :: r => (strsBack r).map (ofCps s :: ·)
  | _ :: _ => none

def fvBack : JVal → Option FV
  | .int i => some (.nat i.toNat)
  | .str s => some (.str (ofCps s))
  | .arr [.int 0, .int i] => some (.obj i.toNat)
  | .arr [.int 1, .arr l] => (natsBack l).map .lvl
  | .arr [.int 2, .int k] => some (.ts k.toNat)
  | .arr [.int 3, .int u] => some (.uuid u.toNat)
  | .arr [.int 4, e] => (excBack e).map .exc
  | .arr [.int 5, .int c] => some (.cls c.toNat)
  | .arr [.int 6, e] => (excBack e).map .tbtext
  | .arr [.int 7, .int sid, .int k, v] => (fvBack v).map (.serOut sid.toNat k.toNat)
  | .arr [.int 8, .arr l] => (strsBack l).map .render
  | _ => none

/-- a JSON-native value as the Python object that lowers to it -/
def toPy : JVal → PyVal
  | .null => .null
  | .bool b => .bool b
  | .int i => .int i
  | .num t => .float t
  | .str s => .str s
  | .arr xs => .list (toPyL xs)
  | .obj kvs => .dict (toPyM kvs)
where
  toPyL : List JVal → List PyVal
    | [] => []
    | x :: xs => toPy x :: toPyL xs
  toPyM : List (List Nat × JVal) → List (PyKey × PyVal)
    | [] => []
    | (k, v) :: kvs => (.str k, toPy v) :: toPyM kvs

mutual
theorem lower_toPy (ext : Bool) : ∀ j : JVal, lower ext (toPy j) = .ok j
  | .null => rfl
  | .bool _ => rfl
  | .int _ => rfl
  | .num _ => rfl
  | .str _ => rfl
  | .arr xs => by simp only [toPy, lower, lowerList_toPy ext xs]
  | .obj kvs => by simp only [toPy, lower, lowerDict_toPy ext kvs]
theorem lowerList_toPy (ext : Bool) : ∀ xs : List JVal, lowerList ext (toPy.toPyL xs) = .ok xs
  | [] => rfl
  | x :: xs => by simp only [toPy.toPyL, lowerList, lower_toPy ext x, lowerList_toPy ext xs]
theorem lowerDict_toPy (ext : Bool) : ∀ kvs : List (List Nat × JVal), lowerDict ext (toPy.toPyM kvs) = .ok kvs
  | [] => rfl
  | (k, v) :: kvs => by simp only [toPy.toPyM, lowerDict, lower_toPy ext v, lowerDict_toPy ext kvs]
end

def msgJ (m : Msg) : JVal := .obj (m.map fun kv => (cps kv.1, fvJ kv.2))

def membersBack : List (List Nat × JVal) → Option Msg
  | [] => some []
  | (k, v) :: r => match fvBack v, membersBack r with
    | some fv, some rest => some ((ofCps k, fv) :: rest)
    | _, _ => none

/-- the tagging view -/
def tagView : JsonView where
  py := fun m => toPy (msgJ m)
  jv := msgJ
  back := fun j => match j with
    | .obj kvs => membersBack kvs
    | _ => none

/-! ### what a dict must satisfy -/

def okNat (n : Nat) : Bool := decide (n < 2 ^ 64)

def okExc : Exc → Bool
  | .user i => okNat i
  | .keyError _ => true

/-- numbers fit 64 bits -/
def okFV : FV → Bool
  | .nat n => okNat n
  | .str _ => true
  | .obj i => okNat i
  | .lvl l => l.all okNat
  | .ts k => okNat k
  | .uuid u => okNat u
  | .exc e => okExc e
  | .cls c => okNat c
  | .tbtext e => okExc e
  | .serOut sid k v => okNat sid && okNat k && okFV v
  | .render _ => true

/-- how deep serializer outputs are nested -/
def nest : FV → Nat
  | .serOut _ _ v => nest v + 1
  | _ => 0

def okMsg (m : Msg) : Bool := decide (m.map (·.1)).Nodup && m.all fun kv => okFV kv.2 && decide (nest kv.2 ≤ 200)

theorem inRange_of_okNat {n : Nat} (h : okNat n = true) : inRange (n : Int) := by
  simp only [okNat, decide_eq_true_eq] at h
  unfold inRange
  constructor <;> omega

theorem intJ_native {n : Nat} (h : okNat n = true) : JsonNative (intJ n) := inRange_of_okNat h
theorem tag_native (n : Nat) (h : n < 10 := by decide) : JsonNative (intJ n) := by
  show inRange (n : Int); unfold inRange; constructor <;> omega
theorem strJ_native (s : String) : JsonNative (strJ s) := cps_scalar s

theorem excJ_native {e : Exc} (h : okExc e = true) : JsonNative (excJ e) := by
  cases e with
  | user i => exact ⟨tag_native 0, intJ_native h, trivial⟩
  | keyError k => exact ⟨tag_native 1, strJ_native k, trivial⟩

theorem excBack_excJ {e : Exc} : excBack (excJ e) = some e := by
  cases e with
  | user i => simp [excJ, excBack, intJ]
  | keyError k => simp [excJ, excBack, intJ, strJ, ofCps_cps]

theorem nats_native : ∀ l : List Nat, l.all okNat = true → JsonNativeL (l.map intJ)
  | [], _ => trivial
  | n :: r, h => by
    simp only [List.all_cons, Bool.and_eq_true] at h
    exact ⟨intJ_native h.1, nats_native r h.2⟩

theorem natsBack_map : ∀ l : List Nat, natsBack (l.map intJ) = some l
  | [] => rfl
  | n :: r => by simp [natsBack, intJ, natsBack_map r]

theorem strs_native : ∀ l : List String, JsonNativeL (l.map strJ)
  | [] => trivial
  | s :: r => ⟨strJ_native s, strs_native r⟩

theorem strsBack_map : ∀ l : List String, strsBack (l.map strJ) = some l
  | [] => rfl
  | s :: r => by simp [strsBack, strJ, strsBack_map r, ofCps_cps]

theorem depthList_ints : ∀ l : List Nat, depthList (l.map intJ) = 0
  | [] => rfl
  | n :: r => by simp [depthList, JVal.depth, intJ, depthList_ints r]

theorem depthList_strs : ∀ l : List String, depthList (l.map strJ) = 0
  | [] => rfl
  | s :: r => by simp [depthList, JVal.depth, strJ, depthList_strs r]

theorem nodupL_ints : ∀ l : List Nat, NodupKeysDeepL (l.map intJ)
  | [] => trivial
  | _ :: r => ⟨trivial, nodupL_ints r⟩

theorem nodupL_strs : ∀ l : List String, NodupKeysDeepL (l.map strJ)
  | [] => trivial
  | _ :: r => ⟨trivial, nodupL_strs r⟩

theorem excJ_depth (e : Exc) : (excJ e).depth = 1 := by cases e <;> simp [excJ, intJ, strJ, JVal.depth, depthList]

theorem excJ_nodup (e : Exc) : NodupKeysDeep (excJ e) := by cases e <;> exact ⟨trivial, trivial, trivial⟩

/-- the tagged form is JSON-native, has no objects (so no duplicate keys), is nested at most
`nest v + 2` deep, and reads back -/
theorem fvJ_ok : ∀ v : FV, okFV v = true →
    JsonNative (fvJ v) ∧ NodupKeysDeep (fvJ v) ∧ (fvJ v).depth ≤ nest v + 2 ∧ fvBack (fvJ v) = some v
  | .nat k, h => ⟨intJ_native h, trivial, by simp [fvJ, intJ, JVal.depth], by simp [fvJ, intJ, fvBack]⟩
  | .str s, _ => ⟨strJ_native s, trivial, by simp [fvJ, strJ, JVal.depth], by simp [fvJ, strJ, fvBack, ofCps_cps]⟩
  | .obj i, h => ⟨⟨tag_native 0, intJ_native h, trivial⟩, ⟨trivial, trivial, trivial⟩,
      by simp [fvJ, intJ, JVal.depth, depthList], by simp [fvJ, intJ, fvBack]⟩
  | .lvl l, h => ⟨⟨tag_native 1, nats_native l h, trivial⟩, ⟨trivial, nodupL_ints l, trivial⟩,
      by simp [fvJ, JVal.depth, depthList, depthList_ints, intJ], by simp [fvJ, fvBack, natsBack_map, intJ]⟩
  | .ts k, h => ⟨⟨tag_native 2, intJ_native h, trivial⟩, ⟨trivial, trivial, trivial⟩,
      by simp [fvJ, intJ, JVal.depth, depthList], by simp [fvJ, intJ, fvBack]⟩
  | .uuid u, h => ⟨⟨tag_native 3, intJ_native h, trivial⟩, ⟨trivial, trivial, trivial⟩,
      by simp [fvJ, intJ, JVal.depth, depthList], by simp [fvJ, intJ, fvBack]⟩
  | .exc e, h => ⟨⟨tag_native 4, excJ_native h, trivial⟩, ⟨trivial, excJ_nodup e, trivial⟩,
      by simp [fvJ, intJ, JVal.depth, depthList, excJ_depth], by simp [fvJ, intJ, fvBack, excBack_excJ]⟩
  | .cls c, h => ⟨⟨tag_native 5, intJ_native h, trivial⟩, ⟨trivial, trivial, trivial⟩,
      by simp [fvJ, intJ, JVal.depth, depthList], by simp [fvJ, intJ, fvBack]⟩
  | .tbtext e, h => ⟨⟨tag_native 6, excJ_native h, trivial⟩, ⟨trivial, excJ_nodup e, trivial⟩,
      by simp [fvJ, intJ, JVal.depth, depthList, excJ_depth], by simp [fvJ, intJ, fvBack, excBack_excJ]⟩
  | .serOut sid k v, h => by
    simp only [okFV, Bool.and_eq_true] at h
    obtain ⟨h1, h2, h3, h4⟩ := fvJ_ok v h.2
    refine ⟨⟨tag_native 7, intJ_native h.1.1, intJ_native h.1.2, h1, trivial⟩, ⟨trivial, trivial, trivial, h2, trivial⟩, ?_,
      by simp [fvJ, intJ, fvBack, h4]⟩
    simp only [fvJ, intJ, JVal.depth, depthList, nest]
    omega
  | .render keys, _ => ⟨⟨tag_native 8, strs_native keys, trivial⟩, ⟨trivial, nodupL_strs keys, trivial⟩,
      by simp [fvJ, JVal.depth, depthList, depthList_strs, intJ], by simp [fvJ, fvBack, strsBack_map, intJ]⟩

theorem cps_inj {a b : String} (h : cps a = cps b) : a = b := by
  rw [← ofCps_cps a, ← ofCps_cps b, h]

theorem members_ok : ∀ m : Msg, (m.all fun kv => okFV kv.2 && decide (nest kv.2 ≤ 200)) = true →
    JsonNativeM (m.map fun kv => (cps kv.1, fvJ kv.2)) ∧ NodupKeysDeepM (m.map fun kv => (cps kv.1, fvJ kv.2)) ∧
    depthMembers (m.map fun kv => (cps kv.1, fvJ kv.2)) ≤ 202 ∧
    membersBack (m.map fun kv => (cps kv.1, fvJ kv.2)) = some m
  | [], _ => ⟨trivial, trivial, by simp [depthMembers], rfl⟩
  | (k, v) :: r, h => by
    simp only [List.all_cons, Bool.and_eq_true, decide_eq_true_eq] at h
    obtain ⟨a1, a2, a3, a4⟩ := fvJ_ok v h.1.1
    have := h.1.2
    obtain ⟨b1, b2, b3, b4⟩ := members_ok r h.2
    refine ⟨⟨cps_scalar k, a1, b1⟩, ⟨a2, b2⟩, ?_, by simp [membersBack, a4, b4, ofCps_cps]⟩
    simp only [List.map_cons, depthMembers]
    omega

/-- **tagView_faithful.**  The tagging view is faithful on every dict with distinct keys, 64-bit
numbers and serializer outputs nested at most 200 deep. -/
theorem tagView_faithful (ext : Bool) (m : Msg) (h : okMsg m = true) : tagView.Faithful ext m := by
  simp only [okMsg, Bool.and_eq_true, decide_eq_true_eq] at h
  obtain ⟨a1, a2, a3, a4⟩ := members_ok m h.2
  refine ⟨lower_toPy ext _, a1, ⟨?_, a2⟩, ?_, a4⟩
  · rw [List.map_map]
    have : (m.map ((fun kv : List Nat × JVal => kv.1) ∘ fun kv : String × FV => (cps kv.1, fvJ kv.2))) = (m.map (·.1)).map cps := by
      simp [List.map_map, Function.comp_def]
    rw [this]
    exact nodup_map_inj cps (fun a b => cps_inj) h.1
  · show (JVal.obj _).depth ≤ maxDepth
    simp only [JVal.depth, maxDepth]
    omega

-- every dict the example program stages qualifies (decided) …
theorem exStage_ok : ∀ m ∈ (execB exEnv none {} (.cons (.addDests [1, 2]) exProg)).1.stage, okMsg m = true := by
  decide +kernel

-- … so `roundtrip_file` applies: the text file is one line per staged dict, the binary file its UTF-8
-- encoding, reading the lines back returns the 14 staged dicts, and parsing them in reverse order yields the
-- four performed trees, complete
example :
    let stage := (execB exEnv none {} (.cons (.addDests [1, 2]) exProg)).1.stage
    let text := content (fileCalls .text false (stage.map tagView.py))
    utf8dec (content (fileCalls .binary false (stage.map tagView.py))) = some text ∧
    (readLines text).filterMap (tagView.codec false).dec = stage ∧ stage.length = 14 ∧
    ∃ out, PM.parseStream (((readLines text).filterMap (tagView.codec false).dec).filterMap toPMsg).reverse = .ok out ∧
      Reconstructs (specOf (denB exEnv none false exProg ⟨0, 0, 0, 0⟩ []).f) out := by
  intro stage text
  obtain ⟨_, h2, h3, h4⟩ := roundtrip_file (ds := [1, 2]) exOK exProg exHyps.1 exHyps.2.1 exHyps.2.2 tagView false
    (fun m hm => tagView_faithful false m (exStage_ok m hm))
  exact ⟨h2, h3, by decide +kernel, h4 _ (List.reverse_perm _)⟩

-- the line the real `FileDestination` writes for the first staged dict (the start message of action "a"), as text
example : ((execB exEnv none {} (.cons (.addDests [1, 2]) exProg)).1.stage[0]?.map fun m =>
      String.ofList (((tagView.codec false).enc m).map Char.ofNat)) =
    some "{\"x\":[7,7,0,1],\"action_status\":\"started\",\"timestamp\":[2,0],\"task_uuid\":[3,0],\"action_type\":\"a\",\"task_level\":[1,[1]]}" := by
  decide +kernel

end Sys.C01
