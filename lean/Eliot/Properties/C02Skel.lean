import Eliot.Model.Sys
import Eliot.Generated.ActionScope
/-! Skeleton obligations of C02: data regenerated from /repo's source on every run, compared by `decide`.
Kept in a module of their own so that a source change that breaks one of them does not also take the
property theorems' build down. -/
namespace Sys.C02

/-- **E6, order part (regenerated from /repo on every run)**: `Action.__exit__` resets the context
*before* it calls `finish`, so that failure reports about the end message (and tracebacks of a
raising extractor) take positions in the parent, not after the end message of the action itself —
the model's `withBlock` does the same, which is what keeps the end message last. -/
theorem skeleton_E6_order : Generated.actionExit = ["reset", "clear", "finish(exception)"] := by decide

end Sys.C02
