import Eliot.Model.Sys
import Eliot.Generated.ActionScope
/-! Skeleton obligations of C13: data regenerated from /repo's source on every run, compared by `decide`.
Kept in a module of their own so that a source change that breaks one of them does not also take the
property theorems' build down. -/
namespace Sys.C13

/-- **E9 (regenerated from /repo on every run)**: `Logger.write` begins with `dictionary = dictionary.copy()`,
so everything after it — serialization in place, merging of global fields in `send` — works on the copy
and the caller's dictionary is never modified (the model's messages are values, so this is the only
place where aliasing could matter). -/
theorem skeleton_E9 : Generated.loggerWriteCopiesFirst = true := by decide

end Sys.C13
