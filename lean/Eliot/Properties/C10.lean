import Eliot.Model.Json
import Eliot.Model.File
import Eliot.Proofs.JsonCodec
import Eliot.Proofs.JsonDepth
import Eliot.Proofs.JsonValid
import Eliot.Proofs.JsonUtf8
import Eliot.Proofs.FileDest
import Eliot.Generated.FileDest
/-! # C10 — the JSON log file holds one valid, faithful line per message

Model: `Eliot/Model/Json.lean` (`encode` = orjson compact output on native values, `lower` = the
`json_default` dispatch, `decode`/`loads` = `json.loads`, `utf8enc`/`utf8dec`) and
`Eliot/Model/File.lean` (`fileCalls` = calls received by the file object from `FileDestination`).
Text is code points, bytes are `Nat`s; a float is the token orjson prints for it (`FloatCodec`).
All statements below are fully proved (no `_partial`); what is *modelled, not proved* is the float
printer/parser pair (tokens are opaque) and CPython's UTF-8 codec (the model has its own). -/
namespace EJ.C10
open EJ

/-! ## The skeleton regenerated from the current source is the one the theorems are about -/

example : Generated.fileDestCall = EJ.stdShape := by decide
example : Generated.fileDestCall = [.write .dumpsPlusLinebreak, .flush] := by decide

/-! ## The encoder -/

/-- No serialised value contains a newline or a carriage return (whatever the strings hold). -/
theorem encode_no_newline (v : JVal) (s : List Nat) (h : encode v = .ok s) : 10 ∉ s ∧ 13 ∉ s :=
  EJ.encode_no_newline v s h

-- {"a\n":["\r\n",-5]}
example : encode (.obj [([97, 10], .arr [.str [13, 10], .int (-5)])])
    = .ok [123, 34, 97, 92, 110, 34, 58, 91, 34, 92, 114, 92, 110, 34, 44, 45, 53, 93, 125] := by rfl
example : 10 ∉ [123, 34, 97, 92, 110, 34, 58, 91, 34, 92, 114, 92, 110, 34, 44, 45, 53, 93, 125] :=
  (encode_no_newline (.obj [([97, 10], .arr [.str [13, 10], .int (-5)])]) _ (by rfl)).1

/-- A message (a dict) is written as a JSON object: `{` ... `}`. -/
theorem encode_is_object (kvs : List (List Nat × JVal)) (s : List Nat) (h : encode (.obj kvs) = .ok s) :
    s.head? = some 123 ∧ s.getLast? = some 125 :=
  EJ.encode_is_object kvs s h

example : ([123, 34, 107, 34, 58, 110, 117, 108, 108, 125] : List Nat).head? = some 123 :=
  (encode_is_object [([107], .null)] _ (by rfl)).1

/-- What `_dumps_bytes` returns is valid UTF-8 (bytes < 256 that decode), decodes to exactly what
`_dumps_unicode` returns, and holds no newline / carriage-return byte. -/
theorem encode_valid_utf8 (ext : Bool) (o : PyVal) (b : List Nat) (h : dumpsBytes ext o = .ok b) :
    (∀ x ∈ b, x < 256) ∧ (∃ t, utf8dec b = some t ∧ dumpsText ext o = .ok t) ∧ 10 ∉ b ∧ 13 ∉ b := by
  rw [dumpsBytes_eq] at h
  cases hd : dumpsCP ext o with
  | error e => simp [hd] at h
  | ok s =>
    simp only [hd, Except.ok.injEq] at h
    subst h
    have hs := dumpsCP_scalar ext o s hd
    have hn := dumpsCP_no_newline ext o s hd
    refine ⟨utf8enc_byte s hs, ⟨s, utf8dec_utf8enc s hs, ?_⟩, ?_, ?_⟩
    · rw [dumpsText_eq, hd]
    · rw [mem_utf8enc_ascii s 10 (by decide)]; exact hn.1
    · rw [mem_utf8enc_ascii s 13 (by decide)]; exact hn.2

-- ["é😀"] : 5 code points in the string layer, 6 + 4 bytes
example : dumpsBytes false (.list [.str [233, 128512]])
    = .ok [91, 34, 195, 169, 240, 159, 152, 128, 34, 93] := by rfl
example : utf8dec [91, 34, 195, 169, 240, 159, 152, 128, 34, 93] = some [91, 34, 233, 128512, 34, 93] := by rfl

/-- NaN and the infinities are written as `null` (documented in the 1.15 release notes).
*Definitional:* this restates three rows of the model's own table (`isNonFinite` in `encode`), it is
evaluation, not a derived fact; that the real encoder does this is decided by the correspondence run
and by the model-free `expected()` oracle of `harness/props/C10.py`. -/
theorem nonfinite_to_null :
    encode (.num [110, 97, 110]) = .ok tNull ∧ encode (.num [105, 110, 102]) = .ok tNull
    ∧ encode (.num [45, 105, 110, 102]) = .ok tNull ∧ decode tNull = some .null := by
  refine ⟨by rfl, by rfl, by rfl, by rfl⟩

/-- The rich types reach the file in their documented form: a path as its `str()`, dates and times
as their `isoformat()` (instances of subclasses of the date/time classes too), a set as the list of its elements, a complex number as `{"real":..,"imag":..}`,
an object known to the caller's `json_default` as whatever that function returns for it; an object
nobody knows, a non-string key and an aware `time` are refused.
*Definitional:* every conjunct is `rfl` / unfolding of the model's dispatch table `lower` (written
after `eliot.json.json_default` and orjson's native types); the theorem documents the table, it does
not derive anything.  Whether the real code writes the documented form is decided by the
model-free `expected()` oracle of `harness/props/C10.py` on real output, and the table is tied to
the code by the byte-exact correspondence run. -/
theorem rich_types_documented (ext : Bool) :
    (∀ t, dumpsCP ext (.path t) = dumpsCP ext (.str t))
    ∧ (∀ iso, dumpsCP ext (.date iso) = dumpsCP ext (.str iso))
    ∧ (∀ iso, dumpsCP ext (.time iso) = dumpsCP ext (.str iso))
    ∧ (∀ iso, dumpsCP ext (.isoSub iso) = dumpsCP ext (.str iso))
    ∧ (∀ xs, dumpsCP ext (.set xs) = dumpsCP ext (.list xs))
    ∧ (∀ re im, dumpsCP ext (.complex re im) = dumpsCP ext (.dict [(.str kReal, .float re), (.str kImag, .float im)]))
    ∧ (∀ p, dumpsCP true (.custom p) = dumpsCP true p)
    ∧ (∀ p, dumpsCP false (.custom p) = .error .unsupported)
    ∧ dumpsCP ext .unsupported = .error .unsupported
    ∧ dumpsCP ext .timeTz = .error .timeTz
    ∧ (∀ v kvs, dumpsCP ext (.dict ((.other, v) :: kvs)) = .error .nonStrKey) := by
  refine ⟨fun _ => rfl, fun _ => rfl, fun _ => rfl, fun _ => rfl, ?_, fun _ _ => rfl, ?_, fun _ => rfl, rfl, rfl, fun _ _ => rfl⟩
  · intro xs; simp only [dumpsCP, lower]
  · intro p; simp only [dumpsCP, lower, if_true]

-- {1.5, None} under a Path-keyed... : {"p":"/a","c":{"real":1.0,"imag":-0.0}}
example : dumpsCP false (.dict [(.str [112], .path [47, 97]), (.str [99], .complex [49, 46, 48] [45, 48, 46, 48])])
    = .ok [123, 34, 112, 34, 58, 34, 47, 97, 34, 44, 34, 99, 34, 58, 123, 34, 114, 101, 97, 108, 34, 58, 49, 46, 48, 44,
           34, 105, 109, 97, 103, 34, 58, 45, 48, 46, 48, 125, 125] := by rfl

/-! ## Faithfulness: `json.loads(dumps(v)) == v` -/

/-- Round trip for every JSON-native value (text without surrogates, integers in
`[-2^63, 2^64-1]`, finite floats, booleans, null, lists, string-keyed dicts, any nesting that
the encoder accepts): `json.loads` of the output is the value.
Floats enter through `FloatCodec` (inside `JsonNative`): the token orjson printed is a JSON number
with a fraction or exponent, hence scanned back as that token; that Python's float parser maps the
token back to the same double is trusted, not proved. -/
theorem decode_encode (v : JVal) (s : List Nat) (hn : JsonNative v) (hd : NodupKeysDeep v)
    (h : encode v = .ok s) : loads s = some v :=
  EJ.decode_encode v s hn hd h

/-- … and such a value is never refused — provided it is nested in at most 254 containers:
orjson has a recursion limit (`maxDepth`), see `deep_nesting_refused`. -/
theorem native_encodes (v : JVal) (hn : JsonNative v) (hdepth : v.depth ≤ maxDepth) :
    ∃ s, encode v = .ok s ∧ decode s = some v := by
  obtain ⟨s, hs⟩ := encode_native_ok v hn hdepth
  exact ⟨s, hs, decode_encode_pairs v s hn hs⟩

/-- `nest n` = `[[…[null]…]]`, `n` brackets -/
def nest : Nat → JVal
  | 0 => .null
  | n + 1 => .arr [nest n]

/-- **The property's "arbitrary nesting" does not hold of the real encoder** (known finding, third-
party limit): a value nested in 255 or more containers — lists, dicts, the list a set becomes,
the dict a complex number becomes, containers returned by `json_default` alike — is refused
("Recursion limit reached"), so `FileDestination` writes nothing for a message holding it. -/
theorem deep_nesting_refused (v : JVal) (h : maxDepth < v.depth) : encode v = .error .depth :=
  encode_depth_refused v h

theorem nest_depth (n : Nat) : (nest n).depth = n := by
  induction n with
  | zero => rfl
  | succ n ih => simp [nest, JVal.depth, depthList, ih]

theorem nest_native (n : Nat) : JsonNative (nest n) := by
  induction n with
  | zero => simp [nest, JsonNative]
  | succ n ih => simp [nest, JsonNative, JsonNativeL, ih]

-- witnesses: 254 brackets are written, 255 are refused
example : ∃ s, encode (nest 254) = .ok s ∧ decode s = some (nest 254) :=
  native_encodes (nest 254) (nest_native 254) (by rw [nest_depth]; decide)
example : encode (nest 255) = .error .depth := deep_nesting_refused _ (by rw [nest_depth]; decide)

/-- … and a message holding such a value leaves no trace in the file. -/
theorem deep_message_no_line (mode : Mode) (ext : Bool) (m : PyVal) (v : JVal) (hl : lower ext m = .ok v)
    (h : maxDepth < v.depth) : (FileDest.mk mode ext).line m = none := by
  have hcp : dumpsCP ext m = .error .depth := by simp only [dumpsCP, hl, encode_depth_refused v h]
  cases mode with
  | text => simp only [FileDest.line, dumps_text, hcp]
  | binary => simp only [FileDest.line, dumps_binary, hcp]

/-- the same nesting as a Python list -/
def pyNest : Nat → PyVal
  | 0 => .null
  | n + 1 => .list [pyNest n]

theorem lower_pyNest (ext : Bool) (n : Nat) : lower ext (pyNest n) = .ok (nest n) := by
  induction n with
  | zero => rfl
  | succ n ih => simp [pyNest, nest, lower, lowerList, ih]

example : (FileDest.mk .binary false).line (pyNest 255) = none :=
  deep_message_no_line .binary false (pyNest 255) (nest 255) (lower_pyNest false 255) (by rw [nest_depth]; decide)

/-- Whatever the encoder emits is valid JSON — also for messages holding NaN / inf (written as
`null`), i.e. without the `JsonNative` hypothesis: it decodes, to the value with the non-finite
floats replaced by `null`. -/
theorem encode_valid_json (v : JVal) (s : List Nat) (h : encode v = .ok s) : decode s = some (nullify v) :=
  decode_encodeU_valid v s ((encode_ok_iff v s).mp h).2

-- [NaN, 1.5] is written as [null,1.5], which json.loads reads
example : decode [91, 110, 117, 108, 108, 44, 49, 46, 53, 93] = some (.arr [.null, .num [49, 46, 53]]) :=
  encode_valid_json (.arr [.num [110, 97, 110], .num [49, 46, 53]]) _ (by rfl)

/-- Conversely the only values that encode without being JSON-native are those holding NaN / inf. -/
theorem encodes_native (v : JVal) (s : List Nat) (h : encode v = .ok s) (hf : FiniteFloats v) : JsonNative v :=
  native_of_encode v s h hf

-- {"k\u0001":[18446744073709551615,-0.0,"\"😀",{}]}
example : loads [123, 34, 107, 92, 117, 48, 48, 48, 49, 34, 58, 91, 49, 56, 52, 52, 54, 55, 52, 52, 48, 55, 51, 55, 48, 57, 53, 53,
      49, 54, 49, 53, 44, 45, 48, 46, 48, 44, 34, 92, 34, 128512, 34, 44, 123, 125, 93, 125]
    = some (.obj [([107, 1], .arr [.int 18446744073709551615, .num [45, 48, 46, 48], .str [34, 128512], .obj []])]) :=
  decode_encode (.obj [([107, 1], .arr [.int 18446744073709551615, .num [45, 48, 46, 48], .str [34, 128512], .obj []])]) _
    (by simp [JsonNative, JsonNativeL, JsonNativeM, inRange, Scalar, floatCodec_iff]; rfl)
    (by simp [NodupKeysDeep, NodupKeysDeepL, NodupKeysDeepM])
    (by rfl)

/-! ## The file -/

/-- The file object receives: the probe `write(b"")`, then for each message that can be serialised
exactly `write(line)` followed by `flush()` and nothing for one that cannot; every written chunk ends
with a newline and contains no other newline (nor a carriage return) — in binary mode at the byte
level, in text mode at the character level. -/
theorem one_line_per_message (mode : Mode) (ext : Bool) (msgs : List PyVal) :
    fileCalls mode ext msgs
      = .write [] :: msgs.flatMap (fun m => match (FileDest.mk mode ext).line m with
                                            | some l => [.write l, .flush]
                                            | none => [])
    ∧ ∀ m l, (FileDest.mk mode ext).line m = some l → ∃ body, l = body ++ [10] ∧ 10 ∉ body ∧ 13 ∉ body :=
  ⟨fileCalls_eq mode ext msgs, fun m l h => line_shape _ m l h⟩

example : fileCalls .binary false [.dict [(.str [233], .int 1)], .unsupported, .dict []]
    = [.write [], .write [123, 34, 195, 169, 34, 58, 49, 125, 10], .flush, .write [123, 125, 10], .flush] := by rfl

/-- Between logging calls a reader never sees a partial line: after any prefix of the logging calls
everything handed to the file so far is the concatenation of the complete lines of the messages
logged so far (each ending in its only newline, by `one_line_per_message`). -/
theorem no_partial_between_calls (mode : Mode) (ext : Bool) (msgs : List PyVal) (k : Nat) :
    content (fileCalls mode ext (msgs.take k))
      = ((msgs.take k).filterMap (FileDest.mk mode ext).line).flatten := by
  rw [fileCalls_eq]
  simp only [content, List.nil_append, content_flatMap_callsOf]

example : content (fileCalls .text false ([PyVal.dict [(.str [233], .int 1)], .unsupported, .dict []].take 2))
    = [123, 34, 233, 34, 58, 49, 125, 10] := by rfl

/-- A text-mode file and a binary-mode file receive the same content: the binary content is valid
UTF-8 and decodes to exactly the text content. -/
theorem bytes_text_same (ext : Bool) (msgs : List PyVal) :
    utf8dec (content (fileCalls .binary ext msgs)) = some (content (fileCalls .text ext msgs)) := by
  obtain ⟨h1, h2⟩ := content_binary_text ext msgs
  rw [h1]
  exact utf8dec_utf8enc _ h2

example : utf8dec (content (fileCalls .binary true [.dict [(.str [233], .custom (.str [128512]))]]))
    = some [123, 34, 233, 34, 58, 34, 128512, 34, 125, 10] := by rfl

/-- Each line decodes back to the message: if the message, after `json_default`, is the JSON-native
value `v`, the binary line is `body ++ "\n"` with `body` valid UTF-8 for a text `t` and
`json.loads(t) == v`. -/
theorem line_faithful (ext : Bool) (m : PyVal) (v : JVal) (hl : lower ext m = .ok v)
    (hn : JsonNative v) (hd : NodupKeysDeep v) (hdepth : v.depth ≤ maxDepth) :
    ∃ body t, (FileDest.mk .binary ext).line m = some (body ++ [10])
      ∧ (FileDest.mk .text ext).line m = some (t ++ [10])
      ∧ utf8dec body = some t ∧ loads t = some v := by
  obtain ⟨t, ht⟩ := encode_native_ok v hn hdepth
  have hcp : dumpsCP ext m = .ok t := by simp only [dumpsCP, hl, ht]
  refine ⟨utf8enc t, t, ?_, ?_, utf8dec_utf8enc t (encode_scalar v t ht), decode_encode v t hn hd ht⟩
  · simp only [FileDest.line, dumps_binary, hcp]
  · simp only [FileDest.line, dumps_text, hcp]

example : ∃ body t, (FileDest.mk .binary false).line (.dict [(.str [112], .path [233])]) = some (body ++ [10])
      ∧ (FileDest.mk .text false).line (.dict [(.str [112], .path [233])]) = some (t ++ [10])
      ∧ utf8dec body = some t ∧ loads t = some (.obj [([112], .str [233])]) :=
  line_faithful false (.dict [(.str [112], .path [233])]) (.obj [([112], .str [233])]) (by rfl)
    (by simp [JsonNative, JsonNativeM, Scalar]) (by simp [NodupKeysDeep, NodupKeysDeepM]) (by decide)

end EJ.C10
