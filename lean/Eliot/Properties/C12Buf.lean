import Eliot.Properties.C12
import Eliot.Proofs.SysReg
/-!
# C12 — the buffering phase, for every program that has not yet called `add_destinations`

`buffered_until_first_add` (`Properties/C12.lean`) is stated for programs without any configuration
statement, which also excludes `add_global_fields` (and `remove_destination`) before the first
`add_destinations`.  Here the only restriction is the one the statement is about: the program text
contains no `add_destinations` call (`addsOnly (fun _ => false)`); global fields may be added at any
point, also inside actions and handlers — each staged dict carries the global fields of the moment it
was sent (`deliver` merges them before staging), and that is the dict the buffer holds.
-/
namespace Sys.C12
open Sys

/-- the buffering-phase relation holds across `remove_destination` and `add_global_fields` -/
theorem bufPhase_cfgQ (env : Env) : PrimCfgQ env (fun _ => false) BufPhase where
  addDests := fun _ _ hq => by cases hq
  removeDest := fun _ _ => BufPhase.same rfl rfl rfl rfl
  addGlobals := fun _ _ => BufPhase.same rfl rfl rfl rfl

/-- **buffered_until_first_add_all**: every program that contains no `add_destinations` (anything
else allowed, `add_global_fields` included), every environment: nothing is offered to anybody and the
buffer holds exactly the most recent 1000 of the dicts that reached the output stage, in order. -/
theorem buffered_until_first_add_all (env : Env) (p : Block) (hp : p.addsOnly (fun _ => false) = true) :
    let w' := (execB env none {} p).1
    w'.anyAdded = false ∧ w'.offered = [] ∧ w'.buffer = trim1000 w'.stage ∧ w'.buffer <:+ w'.stage ∧
      w'.buffer.length = min w'.stage.length 1000 := by
  intro w'
  obtain ⟨h1, _, _, h4, h5⟩ := execB_liftQ (bufPhase_basic env).prim (bufPhase_cfgQ env) none {} p hp rfl (by simp)
  have h5' : w'.buffer = trim1000 w'.stage := by simpa [newStage] using h5
  exact ⟨h1, h4, h5', h5' ▸ trim1000_suffix _, h5' ▸ trim1000_length _⟩

/-- the incremental form, from any world that is still buffering: whatever such a program does, the
buffer afterwards is the most recent 1000 of (old buffer ++ newly staged dicts) -/
theorem still_buffering (env : Env) (cur : Option Exc) (w : World) (p : Block) (hp : p.addsOnly (fun _ => false) = true)
    (ha : w.anyAdded = false) (hb : w.buffer.length ≤ 1000) :
    let w' := (execB env cur w p).1
    w'.anyAdded = false ∧ w'.offered = w.offered ∧ w'.buffer = trim1000 (w.buffer ++ newStage w w') := by
  intro w'
  obtain ⟨h1, _, _, h4, h5⟩ := execB_liftQ (bufPhase_basic env).prim (bufPhase_cfgQ env) cur w p hp ha hb
  exact ⟨h1, h4, h5⟩

/-! ## Non-vacuity: global fields added before and between the buffered messages -/
def exProgG : Block :=
  .cons (.addGlobals [("g", .nat 1)]) <| .cons (.log { mtype := "a" }) <|
  .cons (.withAction false { atype := "t" } (.cons (.addGlobals [("g", .nat 2)]) (.cons (.log { mtype := "b" }) .nil))) .nil

example : exProgG.noCfg = false ∧ exProgG.addsOnly (fun _ => false) = true := by decide

example : let w := (execB Sys.C13.exEnv none {} exProgG).1
    w.buffer = w.stage ∧ w.offered = [] ∧
    w.buffer.map (fun m => m.get? "g") = [some (.nat 1), some (.nat 1), some (.nat 2), some (.nat 2)] := by
  decide +kernel

end Sys.C12
