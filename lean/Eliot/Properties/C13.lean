import Eliot.Properties.C08
import Eliot.Proofs.SysCtxPlace
import Eliot.Proofs.SysAction
/-!
# C13 — typed fields are serialized exactly once; serializer failures are contained

Model: `serializeFields` (= `_MessageSerializer.serialize`, declared fields in declaration order),
`World.loggerWrite` (= `Logger.write`: copy, serialize, on any exception `write_traceback` +
`eliot:serialization_failure` and return; else `send`).  `env.serialize sid v k` is serializer `sid`
applied to `v` on the `k`-th serializer call overall: arbitrary, possibly non-idempotent (its result
may depend on `k`), may raise on any subset of calls.

Quantifier: all declared-field lists, all messages, all environments.
-/
namespace Sys.C13
open Sys Sys.C04 Sys.C08

/-- Specification of serialization, written without the machine state: walk the declared fields,
replace each by the serializer's output, consuming one call index per field. -/
def applySers (env : Env) : Nat → List (String × Nat) → Msg → Except Exc Msg
  | _, [], m => .ok m
  | k, (key, sid) :: r, m =>
    match m.get? key with
    | none => .error (.keyError key)
    | some v =>
      match env.serialize sid v k with
      | .ok v' => applySers env (k + 1) r (m.set key v')
      | .error e => .error e

theorem serializeFields_eq (env : Env) (ss : List (String × Nat)) (w : World) (m : Msg) :
    (serializeFields env w ss m).2 = applySers env w.serCalls ss m := by
  induction ss generalizing w m with
  | nil => rfl
  | cons p r ih =>
    obtain ⟨key, sid⟩ := p
    unfold serializeFields applySers
    cases m.get? key with
    | none => rfl
    | some v =>
      simp only
      cases env.serialize sid v w.serCalls with
      | ok v' => exact ih _ _
      | error e => rfl

/-- **exactly once**: a successful serialization makes exactly one serializer call per declared field. -/
theorem serializers_called_once (env : Env) (ss : List (String × Nat)) (w : World) (m m' : Msg)
    (h : (serializeFields env w ss m).2 = .ok m') :
    (serializeFields env w ss m).1.serCalls = w.serCalls + ss.length := by
  induction ss generalizing w m with
  | nil => rfl
  | cons p r ih =>
    obtain ⟨key, sid⟩ := p
    unfold serializeFields at h ⊢
    cases hg : m.get? key with
    | none => rw [hg] at h; cases h
    | some v =>
      rw [hg] at h
      simp only at h ⊢
      cases hs : env.serialize sid v w.serCalls with
      | ok v' =>
        rw [hs] at h
        simp only at h ⊢
        rw [ih _ _ h]
        simp only [List.length_cons]; omega
      | error e => rw [hs] at h; cases h

theorem applySers_other (env : Env) (ss : List (String × Nat)) (k : Nat) (m m' : Msg) (key : String)
    (hk : key ∉ ss.map (·.1)) (h : applySers env k ss m = .ok m') : m'.get? key = m.get? key := by
  induction ss generalizing k m with
  | nil => simp only [applySers, Except.ok.injEq] at h; rw [h]
  | cons p r ih =>
    obtain ⟨key', sid⟩ := p
    simp only [List.map_cons, List.mem_cons, not_or] at hk
    unfold applySers at h
    cases hg : m.get? key' with
    | none => rw [hg] at h; cases h
    | some v =>
      rw [hg] at h
      simp only at h
      cases hs : env.serialize sid v k with
      | ok v' =>
        rw [hs] at h
        rw [ih _ _ hk.2 h, Fields.get?_set_ne _ _ _ _ hk.1]
      | error e => rw [hs] at h; cases h

/-- **serialized_exactly_once**: after a successful serialization every declared field holds the
output of its own serializer applied once to the logged value (the `i`-th declared field consumed
call index `k + i`), and every other field is untouched. -/
theorem serialized_exactly_once (env : Env) (ss : List (String × Nat)) (hn : (ss.map (·.1)).Nodup) (k : Nat)
    (m m' : Msg) (h : applySers env k ss m = .ok m') :
    (∀ i (hi : i < ss.length), ∃ v v', m.get? ss[i].1 = some v ∧ env.serialize ss[i].2 v (k + i) = .ok v' ∧
        m'.get? ss[i].1 = some v') ∧
    (∀ key, key ∉ ss.map (·.1) → m'.get? key = m.get? key) := by
  refine ⟨?_, fun key hk => applySers_other env ss k m m' key hk h⟩
  induction ss generalizing k m with
  | nil => intro i hi; cases hi
  | cons p r ih =>
    obtain ⟨key, sid⟩ := p
    simp only [List.map_cons, List.nodup_cons] at hn
    unfold applySers at h
    cases hg : m.get? key with
    | none => rw [hg] at h; cases h
    | some v =>
      rw [hg] at h
      simp only at h
      cases hs : env.serialize sid v k with
      | error e => rw [hs] at h; cases h
      | ok v' =>
        rw [hs] at h
        intro i hi
        cases i with
        | zero =>
          refine ⟨v, v', hg, hs, ?_⟩
          simp only [List.getElem_cons_zero]
          rw [applySers_other env r (k + 1) _ m' key hn.1 h, Fields.get?_set_self]
        | succ j =>
          simp only [List.getElem_cons_succ]
          have hj : j < r.length := by simpa using hi
          obtain ⟨x, x', h1, h2, h3⟩ := ih hn.2 (k + 1) (m.set key v') h j hj
          have hne : r[j].1 ≠ key := fun he => hn.1 (he ▸ List.mem_map.mpr ⟨r[j], List.getElem_mem _, rfl⟩)
          rw [Fields.get?_set_ne _ _ _ _ hne] at h1
          exact ⟨x, x', h1, by rw [← h2]; congr 1; omega, h3⟩

/-! ### what reaches the output stage -/
theorem fanOut_healthy (env : Env) (hh : ∀ d k, env.destFails d k = none) (m : Msg) (ds : List Nat) (w : World) :
    (World.fanOut env w m ds).2 = [] := by
  induction ds generalizing w with
  | nil => rfl
  | cons d ds ih =>
    simp only [World.fanOut, ih]
    unfold World.callDest
    simp [hh]

theorem deliver_healthy (env : Env) (hh : ∀ d k, env.destFails d k = none) (w : World) (m : Msg) :
    (w.deliver env m).2.2 = [] := by
  unfold World.deliver
  simp only
  split
  · split
    · rfl
    · exact fanOut_healthy env hh _ _ _
  · rfl

theorem send_healthy_stage (env : Env) (hh : ∀ d k, env.destFails d k = none) (w : World) (m : Msg) :
    (w.send env m).stage = w.stage ++ [Fields.update m w.globals] := by
  unfold World.send
  simp only
  rw [deliver_healthy env hh]
  simp only [World.reportAll]
  exact deliver_stage env w m

/-- **delivered form**: when serialization succeeds the dict that reaches the output stage is the
serialized copy (with the global fields merged), and it is the next staged message. -/
theorem success_stages_serialized (env : Env) (w : World) (m m' : Msg) (ss : List (String × Nat))
    (h : applySers env w.serCalls ss m = .ok m') :
    ∃ rest, (w.loggerWrite env m (some ss)).stage = w.stage ++ [Fields.update m' w.globals] ++ rest := by
  unfold World.loggerWrite
  simp only
  rw [← serializeFields_eq] at h
  rw [h]
  simp only
  have q := quiet_serializeFields env ss w m
  have f := frame_send env (serializeFields env w ss m).1 m'
  unfold World.send at f ⊢
  have hd := deliver_stage env (serializeFields env w ss m).1 m'
  have fr := frame_reportAll env ((serializeFields env w ss m).1.deliver env m').2.1
    ((serializeFields env w ss m).1.deliver env m').2.2 ((serializeFields env w ss m).1.deliver env m').1
  obtain ⟨rest, hrest⟩ := fr.stage
  refine ⟨rest, ?_⟩
  rw [← hrest, hd, q.stage, q.frame.globals]

theorem logNoSer_healthy_stage (env : Env) (hh : ∀ d k, env.destFails d k = none) (w : World) (t : String) (f : Fields)
    (hg : w.globals.get? "message_type" = none) :
    ∃ r, (w.logNoSer env t f).stage = w.stage ++ [r] ∧ r.get? "message_type" = some (.str t) := by
  unfold World.logNoSer
  simp only
  have q := (quiet_currentOrFresh w).trans (quiet_buildLog w.currentOrFresh.1 w.currentOrFresh.2 t f)
  rw [send_healthy_stage env hh, q.stage, q.frame.globals]
  refine ⟨_, rfl, ?_⟩
  rw [Fields.get?_update_none _ _ _ hg]
  simp only [World.buildLog]
  exact Fields.get?_set_self _ _ _

theorem send_healthy_eq (env : Env) (hh : ∀ d k, env.destFails d k = none) (w : World) (m : Msg) :
    w.send env m = (w.deliver env m).1 := by
  unfold World.send
  simp only
  rw [deliver_healthy env hh]
  rfl

theorem logNoSer_healthy_eq (env : Env) (hh : ∀ d k, env.destFails d k = none) (w : World) (t : String) (f : Fields) :
    w.logNoSer env t f = ((w.currentOrFresh.1.buildLog w.currentOrFresh.2 t f).1.deliver env
      (w.currentOrFresh.1.buildLog w.currentOrFresh.2 t f).2).1 := by
  unfold World.logNoSer
  simp only
  rw [send_healthy_eq env hh]

/-- one `log_message` without serializer, healthy destinations: the dict that is staged, and what the
next `log_message` will see of the actions, the context and the uuid counter -/
theorem logNoSer_healthy_exact (env : Env) (hh : ∀ d k, env.destFails d k = none) (w : World) (t : String) (f : Fields) :
    let b := w.currentOrFresh.1.buildLog w.currentOrFresh.2 t f
    (w.logNoSer env t f).stage = w.stage ++ [Fields.update b.2 w.globals] ∧
    (w.logNoSer env t f).acts = b.1.acts ∧ (w.logNoSer env t f).ctx = b.1.ctx ∧
    (w.logNoSer env t f).nextUuid = b.1.nextUuid ∧ (w.logNoSer env t f).globals = w.globals := by
  intro b
  have q := (quiet_currentOrFresh w).trans (quiet_buildLog w.currentOrFresh.1 w.currentOrFresh.2 t f)
  obtain ⟨c1, c2, c3, c4⟩ := deliver_core env b.1 b.2
  rw [logNoSer_healthy_eq env hh]
  refine ⟨?_, c1, c2, c3, c4.trans q.frame.globals⟩
  rw [deliver_stage, q.stage, q.frame.globals]

/-- **serializer_failure_contained**: if a serializer raises (or a declared field is missing), the
message is *not* staged; instead exactly one `eliot:traceback` and one `eliot:serialization_failure`
are logged, both **in the caller's context**: with an action `h` current they are the next two direct
items of `h` (`h`'s uuid, `h`'s level extended by `last + 1` and `last + 2`); with no current action
each is a one-message task of its own (two fresh uuids, level `[1]`) — provided global fields do not
override `task_uuid` / `task_level`.  The call returns normally (it is a total function).
Stated for healthy destinations and an exception class without a registered extractor, so that no
report / nested traceback is interleaved (those cases are covered by C08 / the fan-out theorems). -/
theorem serializer_failure_contained (env : Env) (hh : ∀ d k, env.destFails d k = none) (w : World) (m : Msg)
    (ss : List (String × Nat)) (e : Exc) (h : applySers env w.serCalls ss m = .error e)
    (hx : firstExtractor env (env.mro (e.cls env)) = none) (hg : w.globals.get? "message_type" = none)
    (hgr : w.globals.get? "reason" = none) :
    ∃ tb sf, (w.loggerWrite env m (some ss)).stage = w.stage ++ [tb, sf] ∧
      tb.get? "message_type" = some (.str "eliot:traceback") ∧
      tb.get? "reason" = some (.str (e.safeStr env)) ∧
      sf.get? "message_type" = some (.str "eliot:serialization_failure") ∧
      (w.globals.get? "task_uuid" = none → w.globals.get? "task_level" = none →
        (∀ (c : Nat) (a : Act), w.ctx = some c → w.acts[c]? = some a →
          tb.get? "task_uuid" = some (.uuid a.uuid) ∧ tb.get? "task_level" = some (.lvl (a.level ++ [a.last + 1])) ∧
          sf.get? "task_uuid" = some (.uuid a.uuid) ∧ sf.get? "task_level" = some (.lvl (a.level ++ [a.last + 2]))) ∧
        (w.ctx = none →
          tb.get? "task_uuid" = some (.uuid w.nextUuid) ∧ tb.get? "task_level" = some (.lvl [1]) ∧
          sf.get? "task_uuid" = some (.uuid (w.nextUuid + 1)) ∧ sf.get? "task_level" = some (.lvl [1]))) := by
  unfold World.loggerWrite
  simp only
  rw [← serializeFields_eq] at h
  rw [h]
  simp only
  obtain ⟨n, hn⟩ := serializeFields_world env ss w m
  rw [hn]
  -- `w0`: the state after the failed serialization; it differs from `w` in the serializer-call counter only
  generalize hw0 : ({ w with serCalls := n } : World) = w0
  have e0 : w0.stage = w.stage ∧ w0.globals = w.globals ∧ w0.ctx = w.ctx ∧ w0.acts = w.acts ∧ w0.nextUuid = w.nextUuid := by
    subst hw0; exact ⟨rfl, rfl, rfl, rfl, rfl⟩
  obtain ⟨es, eg, ec, ea, eu⟩ := e0
  -- write_traceback: no extractor, so exactly one log call
  have hgf : World.getFields env w0 e = (w0, []) := by simp [World.getFields, hx]
  unfold World.writeTraceback
  rw [hgf]
  simp only
  obtain ⟨s1, a1, c1, u1, g1⟩ := logNoSer_healthy_exact env hh w0 "eliot:traceback" (tracebackFields env e [])
  obtain ⟨s2, _, _, _, _⟩ := logNoSer_healthy_exact env hh (w0.logNoSer env "eliot:traceback" (tracebackFields env e []))
    "eliot:serialization_failure" [("message", .render m.keys)]
  refine ⟨_, _, by rw [s2, s1, es, List.append_assoc]; rfl, ?_, ?_, ?_, fun hgu hgl => ⟨fun c a hc ha => ?_, fun hc => ?_⟩⟩
  · rw [eg, Fields.get?_update_none _ _ _ hg]
    simp only [World.buildLog]
    exact Fields.get?_set_self _ _ _
  · rw [eg, Fields.get?_update_none _ _ _ hgr]
    simp only [World.buildLog]
    rw [Fields.get?_set_ne _ _ _ _ (by decide), Fields.get?_set_ne _ _ _ _ (by decide),
      Fields.get?_set_ne _ _ _ _ (by decide), Fields.get?_set_ne _ _ _ _ (by decide)]
    simp [tracebackFields, Fields.update, Fields.get?, Fields.set]
  · rw [g1, eg, Fields.get?_update_none _ _ _ hg]
    simp only [World.buildLog]
    exact Fields.get?_set_self _ _ _
  · -- an action is current: both notices are its next two direct items
    have hc0 : w0.ctx = some c := ec.trans hc
    have ha0 : w0.acts[c]? = some a := by rw [ea]; exact ha
    obtain ⟨_, t1, t2, _, t4, t5, _, _⟩ := buildLog_in_current w0 c a hc0 ha0 "eliot:traceback" (tracebackFields env e [])
    have hlt : c < w0.acts.length := lt_of_getElem?_some ha0
    have hc1 : (w0.logNoSer env "eliot:traceback" (tracebackFields env e [])).ctx = some c := c1.trans t5
    have ha1 : (w0.logNoSer env "eliot:traceback" (tracebackFields env e [])).acts[c]? = some { a with last := a.last + 1 } := by
      rw [a1, t4, List.getElem?_set_self hlt]
    obtain ⟨_, r1, r2, _⟩ := buildLog_in_current _ c _ hc1 ha1 "eliot:serialization_failure" [("message", .render m.keys)]
    refine ⟨?_, ?_, ?_, ?_⟩
    · rw [eg, Fields.get?_update_none _ _ _ hgu]; exact t1
    · rw [eg, Fields.get?_update_none _ _ _ hgl]; exact t2
    · rw [g1, eg, Fields.get?_update_none _ _ _ hgu]; exact r1
    · rw [g1, eg, Fields.get?_update_none _ _ _ hgl]; exact r2
  · -- no action is current: two one-message tasks
    have hc0 : w0.ctx = none := ec.trans hc
    obtain ⟨t1, t2, _, _, t5, t6⟩ := buildLog_contextless w0 hc0 "eliot:traceback" (tracebackFields env e [])
    have hc1 : (w0.logNoSer env "eliot:traceback" (tracebackFields env e [])).ctx = none := c1.trans t5
    obtain ⟨r1, r2, _⟩ := buildLog_contextless _ hc1 "eliot:serialization_failure" [("message", .render m.keys)]
    refine ⟨?_, ?_, ?_, ?_⟩
    · rw [eg, Fields.get?_update_none _ _ _ hgu, t1, eu]
    · rw [eg, Fields.get?_update_none _ _ _ hgl]; exact t2
    · rw [g1, eg, Fields.get?_update_none _ _ _ hgu, r1, u1, t6, eu]
    · rw [g1, eg, Fields.get?_update_none _ _ _ hgl]; exact r2

/-- **per_kind_serializer** (start): the start message is written with the *start* serializer of the
action's type (`a.sers.map (·.1)`; `none` for an untyped action). -/
theorem per_kind_serializer (env : Env) (w : World) (h : Nat) (a : Act) (ha : w.acts[h]? = some a) (f : Fields) :
    w.startRec env h f =
      (((w.clock.1.nextLevel h).1).loggerWrite env
        ((((((f.set "action_status" (.str "started")).set "timestamp" w.clock.2).set "task_uuid" (.uuid a.uuid)).set
          "action_type" (.str a.atype))).set "task_level" (.lvl (w.clock.1.nextLevel h).2)) (a.sers.map (·.1))) := by
  simp [World.startRec, ha]

/-- **per_kind_serializer** (successful end): `finish()` of an unfinished action writes the success
dict (success fields, status, timestamp, place) with the *success* serializer (`a.sers.map (·.2)`). -/
theorem per_kind_serializer_success (env : Env) (w : World) (h : Nat) (a : Act) (ha : w.acts[h]? = some a)
    (hf : a.finished = false) :
    w.finishRec env h none =
      ((w.setFin h a).clock.1.nextLevel h).1.loggerWrite env (succDict a (.ts w.tick)) (a.sers.map (·.2)) :=
  finishRec_ok_eq env w h a ha hf

/-- writing with the failure serializer of any action type runs no user serializer: the dict goes to
`Destinations.send` as it is -/
theorem failure_serializer_is_identity (env : Env) (W : World) (m : Msg) (s : Option (List (String × Nat) × List (String × Nat))) :
    W.loggerWrite env m (s.map (fun _ => [])) = W.send env m := by
  cases s <;> rfl

/-- **per_kind_serializer** (failed end): `finish(e)` of an unfinished action writes the failure dict
(extracted fields, `exception`, `reason`, status, timestamp, place — `ts`/`lvl` are read after
`get_fields_for_exception`, which may itself have logged) with the failure serializer, which
has only built-in fields: neither the start nor the success serializer is applied to it. -/
theorem per_kind_serializer_failure (env : Env) (w : World) (h : Nat) (a : Act) (e : Exc) (ha : w.acts[h]? = some a)
    (hf : a.finished = false) :
    let g := World.getFields env (w.setFin h a) e
    let W := (g.1.clock.1.nextLevel h).1
    let m := ((((((g.2.set "exception" (.str (e.qual env))).set "reason" (.str (e.safeStr env))).set "action_status"
      (.str "failed")).set "timestamp" (.ts g.1.tick)).set "task_uuid" (.uuid a.uuid)).set "action_type"
      (.str a.atype)).set "task_level" (.lvl (g.1.clock.1.nextLevel h).2)
    w.finishRec env h (some e) = W.loggerWrite env m (a.sers.map (fun _ => [])) ∧
    W.loggerWrite env m (a.sers.map (fun _ => [])) = W.send env m := by
  intro g W m
  exact ⟨finishRec_err_eq env w h a e ha hf, failure_serializer_is_identity env W m a.sers⟩

/-! ## Non-vacuity: a non-idempotent serializer (output depends on the call index), a failing one -/
def exEnv : Env where
  classOf := fun _ => 0
  mro := fun c => [c]
  qualname := fun _ => "m.C"
  strOf := fun _ => some "boom"
  keyErrorClass := 1
  extractor := fun _ => none
  serialize := fun s v k => if s = 7 then Except.error (Exc.user 5) else Except.ok (FV.serOut s k v)
  destFails := fun _ _ => none
example : applySers exEnv 3 [("x", 1), ("y", 2)] [("x", .nat 10), ("z", .nat 0), ("y", .nat 20)] =
    .ok [("x", .serOut 1 3 (.nat 10)), ("z", .nat 0), ("y", .serOut 2 4 (.nat 20))] := by rfl
example : applySers exEnv 0 [("x", 1), ("y", 7)] [("x", .nat 10), ("y", .nat 20)] = .error (.user 5) ∧
    firstExtractor exEnv (exEnv.mro ((Exc.user 5).cls exEnv)) = none := ⟨by rfl, by rfl⟩
example : let w := (execB exEnv none {} (.cons (.addDests [0]) (.cons (.log { mtype := "t", fields := [("y", .nat 1)], sers := some [("y", 7)] }) .nil))).1
    w.stage.map (·.get? "message_type") = [some (.str "eliot:traceback"), some (.str "eliot:serialization_failure")] := by
  decide +kernel

/-- placement of the two notices: inside action `a` (uuid 0, start message at `[1]`; the message that fails to
serialize was built at `[2]` and is not staged) they are `[3]` and `[4]` of `a`, the end message is `[5]`; logged with
no current action (the failing message had its own task, uuid 1) they are two tasks of their own (uuids 2 and 3,
level `[1]`) -/
example : let w := (execB exEnv none {} (.cons (.addDests [0]) (.cons (.withAction false { atype := "a" }
      (.cons (.log { mtype := "t", fields := [("y", .nat 1)], sers := some [("y", 7)] }) .nil))
      (.cons (.log { mtype := "t", fields := [("y", .nat 1)], sers := some [("y", 7)] }) .nil)))).1
    w.stage.map (fun m => (m.get? "message_type", m.get? "task_uuid", m.get? "task_level")) =
      [(none, some (.uuid 0), some (.lvl [1])),
       (some (.str "eliot:traceback"), some (.uuid 0), some (.lvl [3])),
       (some (.str "eliot:serialization_failure"), some (.uuid 0), some (.lvl [4])),
       (none, some (.uuid 0), some (.lvl [5])),
       (some (.str "eliot:traceback"), some (.uuid 2), some (.lvl [1])),
       (some (.str "eliot:serialization_failure"), some (.uuid 3), some (.lvl [1]))] := by
  decide +kernel

/-- per_kind_serializer: start serializer 1 on the start message, success serializer 2 on the end message -/
example : let w := (execB exEnv none {} (.cons (.addDests [0]) (.cons (.withAction false
      { atype := "a", fields := [("x", .nat 1)], sers := some ([("x", 1)], [("r", 2)]) }
      (.cons (.addSuccess none [("r", .nat 5)]) .nil)) .nil))).1
    w.stage.map (fun m => (m.get? "x", m.get? "r")) =
      [(some (.serOut 1 0 (.nat 1)), none), (none, some (.serOut 2 1 (.nat 5)))] := by
  decide +kernel

end Sys.C13
