import Eliot.Properties.C08
/-!
# C13 — typed fields are serialized exactly once; serializer failures are contained

Model: `serializeFields` (= `_MessageSerializer.serialize`, declared fields in declaration order),
`World.loggerWrite` (= `Logger.write`: copy, serialize, on any exception `write_traceback` +
`eliot:serialization_failure` and return; else `send`).  `env.serialize sid v k` is serializer `sid`
applied to `v` on the `k`-th serializer call overall: arbitrary, possibly non-idempotent (its result
may depend on `k`), may raise on any subset of calls.

Quantifier: all declared-field lists, all messages, all environments.
-/
namespace Sys.C13
open Sys Sys.C04 Sys.C08

/-- Specification of serialization, written without the machine state: walk the declared fields,
replace each by the serializer's output, consuming one call index per field. -/
def applySers (env : Env) : Nat → List (String × Nat) → Msg → Except Exc Msg
  | _, [], m => .ok m
  | k, (key, sid) :: r, m =>
    match m.get? key with
    | none => .error (.keyError key)
    | some v =>
      match env.serialize sid v k with
      | .ok v' => applySers env (k + 1) r (m.set key v')
      | .error e => .error e

theorem serializeFields_eq (env : Env) (ss : List (String × Nat)) (w : World) (m : Msg) :
    (serializeFields env w ss m).2 = applySers env w.serCalls ss m := by
  induction ss generalizing w m with
  | nil => rfl
  | cons p r ih =>
    obtain ⟨key, sid⟩ := p
    unfold serializeFields applySers
    cases m.get? key with
    | none => rfl
    | some v =>
      simp only
      cases env.serialize sid v w.serCalls with
      | ok v' => exact ih _ _
      | error e => rfl

/-- **exactly once**: a successful serialization makes exactly one serializer call per declared field. -/
theorem serializers_called_once (env : Env) (ss : List (String × Nat)) (w : World) (m m' : Msg)
    (h : (serializeFields env w ss m).2 = .ok m') :
    (serializeFields env w ss m).1.serCalls = w.serCalls + ss.length := by
  induction ss generalizing w m with
  | nil => rfl
  | cons p r ih =>
    obtain ⟨key, sid⟩ := p
    unfold serializeFields at h ⊢
    cases hg : m.get? key with
    | none => rw [hg] at h; cases h
    | some v =>
      rw [hg] at h
      simp only at h ⊢
      cases hs : env.serialize sid v w.serCalls with
      | ok v' =>
        rw [hs] at h
        simp only at h ⊢
        rw [ih _ _ h]
        simp only [List.length_cons]; omega
      | error e => rw [hs] at h; cases h

theorem applySers_other (env : Env) (ss : List (String × Nat)) (k : Nat) (m m' : Msg) (key : String)
    (hk : key ∉ ss.map (·.1)) (h : applySers env k ss m = .ok m') : m'.get? key = m.get? key := by
  induction ss generalizing k m with
  | nil => simp only [applySers, Except.ok.injEq] at h; rw [h]
  | cons p r ih =>
    obtain ⟨key', sid⟩ := p
    simp only [List.map_cons, List.mem_cons, not_or] at hk
    unfold applySers at h
    cases hg : m.get? key' with
    | none => rw [hg] at h; cases h
    | some v =>
      rw [hg] at h
      simp only at h
      cases hs : env.serialize sid v k with
      | ok v' =>
        rw [hs] at h
        rw [ih _ _ hk.2 h, Fields.get?_set_ne _ _ _ _ hk.1]
      | error e => rw [hs] at h; cases h

/-- **serialized_exactly_once**: after a successful serialization every declared field holds the
output of its own serializer applied once to the logged value (the `i`-th declared field consumed
call index `k + i`), and every other field is untouched. -/
theorem serialized_exactly_once (env : Env) (ss : List (String × Nat)) (hn : (ss.map (·.1)).Nodup) (k : Nat)
    (m m' : Msg) (h : applySers env k ss m = .ok m') :
    (∀ i (hi : i < ss.length), ∃ v v', m.get? ss[i].1 = some v ∧ env.serialize ss[i].2 v (k + i) = .ok v' ∧
        m'.get? ss[i].1 = some v') ∧
    (∀ key, key ∉ ss.map (·.1) → m'.get? key = m.get? key) := by
  refine ⟨?_, fun key hk => applySers_other env ss k m m' key hk h⟩
  induction ss generalizing k m with
  | nil => intro i hi; cases hi
  | cons p r ih =>
    obtain ⟨key, sid⟩ := p
    simp only [List.map_cons, List.nodup_cons] at hn
    unfold applySers at h
    cases hg : m.get? key with
    | none => rw [hg] at h; cases h
    | some v =>
      rw [hg] at h
      simp only at h
      cases hs : env.serialize sid v k with
      | error e => rw [hs] at h; cases h
      | ok v' =>
        rw [hs] at h
        intro i hi
        cases i with
        | zero =>
          refine ⟨v, v', hg, hs, ?_⟩
          simp only [List.getElem_cons_zero]
          rw [applySers_other env r (k + 1) _ m' key hn.1 h, Fields.get?_set_self]
        | succ j =>
          simp only [List.getElem_cons_succ]
          have hj : j < r.length := by simpa using hi
          obtain ⟨x, x', h1, h2, h3⟩ := ih hn.2 (k + 1) (m.set key v') h j hj
          have hne : r[j].1 ≠ key := fun he => hn.1 (he ▸ List.mem_map.mpr ⟨r[j], List.getElem_mem _, rfl⟩)
          rw [Fields.get?_set_ne _ _ _ _ hne] at h1
          exact ⟨x, x', h1, by rw [← h2]; congr 1; omega, h3⟩

/-! ### what reaches the output stage -/
theorem fanOut_healthy (env : Env) (hh : ∀ d k, env.destFails d k = none) (m : Msg) (ds : List Nat) (w : World) :
    (World.fanOut env w m ds).2 = [] := by
  induction ds generalizing w with
  | nil => rfl
  | cons d ds ih =>
    simp only [World.fanOut, ih]
    unfold World.callDest
    simp [hh]

theorem deliver_healthy (env : Env) (hh : ∀ d k, env.destFails d k = none) (w : World) (m : Msg) :
    (w.deliver env m).2.2 = [] := by
  unfold World.deliver
  simp only
  split
  · split
    · rfl
    · exact fanOut_healthy env hh _ _ _
  · rfl

theorem send_healthy_stage (env : Env) (hh : ∀ d k, env.destFails d k = none) (w : World) (m : Msg) :
    (w.send env m).stage = w.stage ++ [Fields.update m w.globals] := by
  unfold World.send
  simp only
  rw [deliver_healthy env hh]
  simp only [World.reportAll]
  exact deliver_stage env w m

/-- **delivered form**: when serialization succeeds the dict that reaches the output stage is the
serialized copy (with the global fields merged), and it is the next staged message. -/
theorem success_stages_serialized (env : Env) (w : World) (m m' : Msg) (ss : List (String × Nat))
    (h : applySers env w.serCalls ss m = .ok m') :
    ∃ rest, (w.loggerWrite env m (some ss)).stage = w.stage ++ [Fields.update m' w.globals] ++ rest := by
  unfold World.loggerWrite
  simp only
  rw [← serializeFields_eq] at h
  rw [h]
  simp only
  have q := quiet_serializeFields env ss w m
  have f := frame_send env (serializeFields env w ss m).1 m'
  unfold World.send at f ⊢
  have hd := deliver_stage env (serializeFields env w ss m).1 m'
  have fr := frame_reportAll env ((serializeFields env w ss m).1.deliver env m').2.1
    ((serializeFields env w ss m).1.deliver env m').2.2 ((serializeFields env w ss m).1.deliver env m').1
  obtain ⟨rest, hrest⟩ := fr.stage
  refine ⟨rest, ?_⟩
  rw [← hrest, hd, q.stage, q.frame.globals]

theorem logNoSer_healthy_stage (env : Env) (hh : ∀ d k, env.destFails d k = none) (w : World) (t : String) (f : Fields)
    (hg : w.globals.get? "message_type" = none) :
    ∃ r, (w.logNoSer env t f).stage = w.stage ++ [r] ∧ r.get? "message_type" = some (.str t) := by
  unfold World.logNoSer
  simp only
  have q := (quiet_currentOrFresh w).trans (quiet_buildLog w.currentOrFresh.1 w.currentOrFresh.2 t f)
  rw [send_healthy_stage env hh, q.stage, q.frame.globals]
  refine ⟨_, rfl, ?_⟩
  rw [Fields.get?_update_none _ _ _ hg]
  simp only [World.buildLog]
  exact Fields.get?_set_self _ _ _

/-- **serializer_failure_contained**: if a serializer raises (or a declared field is missing), the
message is *not* staged; instead exactly one `eliot:traceback` and one `eliot:serialization_failure`
are logged (in the current context: `logNoSer` takes the next positions of the current action, or
fresh one-message tasks when there is none), and the call returns normally (it is a total function).
Stated for healthy destinations and an exception class without a registered extractor, so that no
report / nested traceback is interleaved (those cases are covered by C08 / the fan-out theorems). -/
theorem serializer_failure_contained (env : Env) (hh : ∀ d k, env.destFails d k = none) (w : World) (m : Msg)
    (ss : List (String × Nat)) (e : Exc) (h : applySers env w.serCalls ss m = .error e)
    (hx : firstExtractor env (env.mro (e.cls env)) = none) (hg : w.globals.get? "message_type" = none)
    (hgr : w.globals.get? "reason" = none) :
    ∃ tb sf, (w.loggerWrite env m (some ss)).stage = w.stage ++ [tb, sf] ∧
      tb.get? "message_type" = some (.str "eliot:traceback") ∧
      tb.get? "reason" = some (.str (e.safeStr env)) ∧
      sf.get? "message_type" = some (.str "eliot:serialization_failure") := by
  unfold World.loggerWrite
  simp only
  rw [← serializeFields_eq] at h
  rw [h]
  simp only
  have q := quiet_serializeFields env ss w m
  -- write_traceback: no extractor, so exactly one log call
  have hgf : World.getFields env (serializeFields env w ss m).1 e = ((serializeFields env w ss m).1, []) := by
    simp [World.getFields, hx]
  unfold World.writeTraceback
  rw [hgf]
  simp only
  have hg1 : (serializeFields env w ss m).1.globals.get? "message_type" = none := by rw [q.frame.globals]; exact hg
  obtain ⟨tb, htb, htbt⟩ := logNoSer_healthy_stage env hh (serializeFields env w ss m).1 "eliot:traceback"
    (tracebackFields env e []) hg1
  have f1 := frame_logNoSer env (serializeFields env w ss m).1 "eliot:traceback" (tracebackFields env e [])
  have hg2 : ((serializeFields env w ss m).1.logNoSer env "eliot:traceback" (tracebackFields env e [])).globals.get? "message_type" = none := by
    rw [f1.globals]; exact hg1
  obtain ⟨sf, hsf, hsft⟩ := logNoSer_healthy_stage env hh _ "eliot:serialization_failure" [("message", .render m.keys)] hg2
  refine ⟨tb, sf, by rw [hsf, htb, q.stage]; simp, htbt, ?_, hsft⟩
  -- the traceback's reason
  have : tb = Fields.update ((serializeFields env w ss m).1.currentOrFresh.1.buildLog
      (serializeFields env w ss m).1.currentOrFresh.2 "eliot:traceback" (tracebackFields env e [])).2
      (serializeFields env w ss m).1.globals := by
    unfold World.logNoSer at htb
    simp only at htb
    have q2 := (quiet_currentOrFresh (serializeFields env w ss m).1).trans
      (quiet_buildLog (serializeFields env w ss m).1.currentOrFresh.1 (serializeFields env w ss m).1.currentOrFresh.2
        "eliot:traceback" (tracebackFields env e []))
    rw [send_healthy_stage env hh, q2.stage, q2.frame.globals] at htb
    have := List.append_cancel_left htb
    simpa using this.symm
  subst this
  rw [q.frame.globals, Fields.get?_update_none _ _ _ hgr]
  simp only [World.buildLog]
  rw [Fields.get?_set_ne _ _ _ _ (by decide), Fields.get?_set_ne _ _ _ _ (by decide),
    Fields.get?_set_ne _ _ _ _ (by decide), Fields.get?_set_ne _ _ _ _ (by decide)]
  simp [tracebackFields, Fields.update, Fields.get?, Fields.set]

/-- **per_kind_serializer**: start messages use the start serializer, successful ends the success
serializer, failed ends only the built-in (identity / constant) fields. -/
theorem per_kind_serializer (env : Env) (w : World) (h : Nat) (a : Act) (ha : w.acts[h]? = some a) (f : Fields) :
    w.startRec env h f =
      (((w.clock.1.nextLevel h).1).loggerWrite env
        ((((((f.set "action_status" (.str "started")).set "timestamp" w.clock.2).set "task_uuid" (.uuid a.uuid)).set
          "action_type" (.str a.atype))).set "task_level" (.lvl (w.clock.1.nextLevel h).2)) (a.sers.map (·.1))) := by
  simp [World.startRec, ha]

/-! ## Non-vacuity: a non-idempotent serializer (output depends on the call index), a failing one -/
def exEnv : Env where
  classOf := fun _ => 0
  mro := fun c => [c]
  qualname := fun _ => "m.C"
  strOf := fun _ => some "boom"
  keyErrorClass := 1
  extractor := fun _ => none
  serialize := fun s v k => if s = 7 then Except.error (Exc.user 5) else Except.ok (FV.serOut s k v)
  destFails := fun _ _ => none
example : applySers exEnv 3 [("x", 1), ("y", 2)] [("x", .nat 10), ("z", .nat 0), ("y", .nat 20)] =
    .ok [("x", .serOut 1 3 (.nat 10)), ("z", .nat 0), ("y", .serOut 2 4 (.nat 20))] := by rfl
example : applySers exEnv 0 [("x", 1), ("y", 7)] [("x", .nat 10), ("y", .nat 20)] = .error (.user 5) ∧
    firstExtractor exEnv (exEnv.mro ((Exc.user 5).cls exEnv)) = none := ⟨by rfl, by rfl⟩
example : let w := (execB exEnv none {} (.cons (.addDests [0]) (.cons (.log { mtype := "t", fields := [("y", .nat 1)], sers := some [("y", 7)] }) .nil))).1
    w.stage.map (·.get? "message_type") = [some (.str "eliot:traceback"), some (.str "eliot:serialization_failure")] := by
  decide +kernel

end Sys.C13
