import Eliot.Proofs.SysFan
import Eliot.Properties.C04
/-!
# C08 — every destination gets each message once, in order; faults isolated and reported

Model: `Eliot/Model/Sys.lean` — `World.callDest`/`fanOut`/`deliver`/`reportAll`/`send` transliterate
`Destinations.send` (lines 82–119 of `_output.py`): fan-out loop with per-destination `try/except`,
the recursion guard on `message_type == "eliot:destination_failure"`, one `log_message` report per
collected error.  `env.destFails d k` is destination `d`'s behaviour on its `k`-th call: any
failure mask is a value of this oracle.  `stage` is the sequence of dicts that reached `send`.

Quantifier: every environment (all failure masks of all destinations, serializers, extractors),
every set of registered destinations, every program of the core language (`offered_same_everywhere`
and `healthy_unaffected` for programs that do not (un)register destinations while running — how
(un)registration itself behaves is C12).
-/
namespace Sys.C08
open Sys Sys.C04

/-- the relation lifted over programs: fan-out facts plus the uuid bookkeeping they depend on -/
def G (env : Env) (w w' : World) : Prop := WInv w → (Fan env w w' ∧ WInv w')

theorem G.ofFrameFan {env : Env} {w w' : World} (f : Frame w w') (g : Fan env w w') : G env w w' :=
  fun hw => ⟨g, Frame.winv f hw⟩

theorem prim (env : Env) : Prim env (G env) where
  refl := fun w hw => ⟨Fan.refl env w, hw⟩
  trans := fun h1 h2 hw => ⟨(h1 hw).1.trans (h2 (h1 hw).2).1, (h2 (h1 hw).2).2⟩
  startAction := fun w task sp hw =>
    ⟨fan_startAction env w task sp hw.1, Frame.winv (frame_startAction env w task sp hw.1) hw⟩
  continueTask := fun w y u lvl sp hl hw => by
    have hu : u < w.nextUuid := hw.2 (y, (u, lvl)) (lookupNat_mem _ _ _ hl)
    have hw0 : WInv ({ w with ids := w.ids.filter (fun e => e.1 != y) } : World) :=
      ⟨hw.1, fun e he => hw.2 e (List.mem_filter.mp he).1⟩
    have g0 : Fan env w ({ w with ids := w.ids.filter (fun e => e.1 != y) } : World) := Fan.ofSame rfl rfl rfl rfl rfl
    exact ⟨g0.trans (fan_continueTask env _ u lvl sp hu), Frame.winv (frame_continueTask env _ u lvl sp hu) hw0⟩
  logMessage := fun w ms => G.ofFrameFan (frame_logMessage env w ms) (fan_logMessage env w ms)
  logTo := fun w h ms => G.ofFrameFan (frame_logTo env w h ms) (fan_logTo env w h ms)
  writeTraceback := fun w e => G.ofFrameFan (frame_writeTraceback env w e) (fan_writeTraceback env w e)
  finishRec := fun w h exc => G.ofFrameFan (frame_finishRec env w h exc) (fan_finishRec env w h exc)
  setCtx := fun w c hw => ⟨Fan.ofSame rfl rfl rfl rfl rfl, hw⟩
  setVars := fun w v hw => ⟨Fan.ofSame rfl rfl rfl rfl rfl, hw⟩
  reserve := fun w h a y ha hw => by
    have q := quiet_nextLevel w h
    have hw1 := Frame.winv q.frame hw
    refine ⟨(Fan.ofQuiet q).trans (Fan.ofSame rfl rfl rfl rfl rfl), hw1.1, fun e he => ?_⟩
    rcases mem_setNat _ _ _ _ he with he | he
    · exact hw1.2 e he
    · subst he
      exact Nat.lt_of_lt_of_le (hw.1 a (List.mem_of_getElem? ha)) q.frame.uuidMono
  probe := fun w p hw => ⟨Fan.ofSame rfl rfl rfl rfl rfl, hw⟩
  succ := fun w h a fs ha hw => by
    refine ⟨Fan.ofSame rfl rfl rfl rfl rfl, fun b hb => ?_, hw.2⟩
    rcases List.mem_or_eq_of_mem_set hb with hb | hb
    · exact hw.1 b hb
    · subst hb; exact hw.1 a (List.mem_of_getElem? ha)

/-- **offered_same_everywhere** + **faulty_still_served**: while a program runs (any program that
does not itself (un)register destinations), every registered destination — failing or not, on any
subset of its calls — stays registered and is offered exactly the messages that reach the output
stage (reports included), each exactly once, in emission order. -/
theorem offered_same_everywhere (env : Env) (cur : Option Exc) (w : World) (p : Block) (hp : p.noCfg = true)
    (hw : WInv w) (ha : w.anyAdded = true) (hn : w.dests.Nodup) :
    (execB env cur w p).1.dests = w.dests ∧
    ∀ d ∈ w.dests, offeredTo (execB env cur w p).1 d = offeredTo w d ++ newStage w (execB env cur w p).1 := by
  have g := (execB_lift (prim env) cur w p (Or.inl hp) hw).1
  exact ⟨g.dests, g.off ha hn⟩

/-- **healthy_unaffected**: a destination that never raises accepts every staged message, whatever
the other destinations do. -/
theorem healthy_unaffected (env : Env) (cur : Option Exc) (w : World) (p : Block) (hp : p.noCfg = true)
    (hw : WInv w) (ha : w.anyAdded = true) (hn : w.dests.Nodup) (d : Nat) (hd : d ∈ w.dests) (hh : healthy env d) :
    acceptedBy (execB env cur w p).1 d = acceptedBy w d ++ newStage w (execB env cur w p).1 :=
  (execB_lift (prim env) cur w p (Or.inl hp) hw).1.acc ha hn d hd hh

/-- Whole run: destinations registered once at the start, then any program. Every destination's
offered sequence *is* the stage; all destinations are offered the same sequence. -/
theorem run_offered_eq_stage (env : Env) (ds : List Nat) (hn : ds.Nodup) (p : Block) (hp : p.noCfg = true) :
    let w' := (execB env none {} (.cons (.addDests ds) p)).1
    ∀ d ∈ ds, offeredTo w' d = w'.stage ∧ (healthy env d → acceptedBy w' d = w'.stage) := by
  intro w' d hd
  have hw0 : WInv ({ anyAdded := true, dests := ds } : World) := ⟨by simp, by simp⟩
  have e : w' = (execB env none ({ anyAdded := true, dests := ds } : World) p).1 := by
    have hd : hasDup ds = false := (hasDup_eq_false_iff ds).mpr hn
    simp only [w', execB, execS, World.addDests, hd]
    rfl
  have g := (execB_lift (prim env) none ({ anyAdded := true, dests := ds } : World) p (Or.inl hp) hw0).1
  rw [e]
  refine ⟨?_, fun hh => ?_⟩
  · have := g.off rfl hn d hd
    simpa [offeredTo, newStage] using this
  · have := g.acc rfl hn d hd hh
    simpa [acceptedBy, newStage] using this

/-! ### report accounting -/
theorem deliver_stage (env : Env) (w : World) (m : Msg) :
    (w.deliver env m).1.stage = w.stage ++ [Fields.update m w.globals] := by
  unfold World.deliver
  simp only
  split
  · exact (fanOut_offered env _ _ _).2
  · rfl

theorem logReport_stage (env : Env) (w : World) (f : Fields) : ∃ r, (w.logReport env f).stage = w.stage ++ [r] := by
  unfold World.logReport
  have q := (quiet_currentOrFresh w).trans (quiet_buildLog w.currentOrFresh.1 w.currentOrFresh.2 DESTINATION_FAILURE f)
  simp only
  rw [deliver_stage, q.stage]
  exact ⟨_, rfl⟩

theorem reportAll_stage_length (env : Env) (m : Msg) (es : List Exc) (w : World) :
    (World.reportAll env w m es).stage.length = w.stage.length + es.length := by
  induction es generalizing w with
  | nil => simp [World.reportAll]
  | cons e es ih =>
    simp only [World.reportAll, ih]
    obtain ⟨r, hr⟩ := logReport_stage env w (reportFields env e m)
    rw [hr]; simp; omega

/-- **report_accounting**: one `send` stages the message plus exactly one report per collected
error — not fewer, not more. -/
theorem report_accounting (env : Env) (w : World) (m : Msg) :
    (w.send env m).stage.length = w.stage.length + 1 + (w.deliver env m).2.2.length := by
  unfold World.send
  simp only [reportAll_stage_length, deliver_stage]
  simp

theorem fanOut_errors_length (env : Env) (m : Msg) (ds : List Nat) (w : World) :
    (World.fanOut env w m ds).2.length ≤ ds.length := by
  induction ds generalizing w with
  | nil => simp [World.fanOut]
  | cons d ds ih =>
    simp only [World.fanOut, List.length_append, List.length_cons]
    have := ih (w.callDest env d m).1
    split <;> simp <;> omega

/-- the errors collected for a message: none unless a destination raised; at most one per destination -/
theorem errors_bound (env : Env) (w : World) (m : Msg) : (w.deliver env m).2.2.length ≤ w.dests.length := by
  unfold World.deliver
  simp only
  split
  · split
    · simp
    · exact fanOut_errors_length env _ _ _
  · simp

/-- **no_report_of_report**: failures while delivering a `eliot:destination_failure` report are not
themselves reported: such a message stages exactly one entry however many destinations fail, so a
permanently broken destination cannot cause unbounded recursion (and `send` is a terminating
function of three non-recursive layers — accepted by Lean's termination checker). -/
theorem no_report_of_report (env : Env) (w : World) (m : Msg)
    (hr : (Fields.update m w.globals).get? "message_type" = some (.str DESTINATION_FAILURE)) :
    (w.send env m).stage.length = w.stage.length + 1 := by
  rw [report_accounting]
  have : (w.deliver env m).2.2 = [] := by
    unfold World.deliver
    simp only
    split
    · simp [hr]
    · rfl
  simp [this]

theorem Fields.get?_update_none (d e : Fields) (k : String) (h : e.get? k = none) : (Fields.update d e).get? k = d.get? k := by
  unfold Fields.update
  induction e generalizing d with
  | nil => rfl
  | cons x xs ih =>
    obtain ⟨k', v'⟩ := x
    simp only [Fields.get?] at h
    split at h
    · cases h
    · rename_i hk
      simp only [List.foldl_cons]
      rw [ih _ h, Fields.get?_set_ne _ _ _ _ (Ne.symm hk)]

/-- every report really is of the report type (so the guard applies to it), provided global fields
do not override `message_type` -/
theorem report_is_report (env : Env) (w : World) (f : Fields) (hg : w.globals.get? "message_type" = none) :
    ∃ r, (w.logReport env f).stage = w.stage ++ [r] ∧ r.get? "message_type" = some (.str DESTINATION_FAILURE) := by
  unfold World.logReport
  have q := (quiet_currentOrFresh w).trans (quiet_buildLog w.currentOrFresh.1 w.currentOrFresh.2 DESTINATION_FAILURE f)
  simp only
  rw [deliver_stage, q.stage]
  refine ⟨_, rfl, ?_⟩
  rw [q.frame.globals, Fields.get?_update_none _ _ _ hg]
  simp only [World.buildLog]
  exact Fields.get?_set_self _ _ _

/-! ## Non-vacuity: destination 0 fails on its 2nd call, destination 1 is healthy -/
def exProg : Block :=
  .cons (.withAction false { atype := "a" } (.cons (.log { mtype := "m" }) .nil)) .nil
example : exProg.noCfg = true ∧ healthy Sys.C04.exEnv 1 ∧ ¬ healthy Sys.C04.exEnv 0 := by
  refine ⟨by decide, fun k => by simp [Sys.C04.exEnv], fun h => ?_⟩
  have := h 1
  simp [Sys.C04.exEnv] at this
example : let w' := (execB Sys.C04.exEnv none {} (.cons (.addDests [0, 1]) exProg)).1
    w'.stage.length = 4 ∧ (acceptedBy w' 1).length = 4 ∧ (acceptedBy w' 0).length = 3 ∧ (offeredTo w' 0).length = 4 := by
  decide +kernel

end Sys.C08
