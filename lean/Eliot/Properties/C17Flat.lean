import Eliot.Properties.C17
import Eliot.Properties.C09Flat
/-!
# C17 — the test helpers agree with the parser as the code runs it

`parser_builds_same` compares `LoggedAction` with the trie parser's tasks; `parse.py` keeps flat `_nodes` tasks.
With `PM.C09Flat.flat_parse_stream_follows_spec` the same holds for `PM.fparseStream`.
-/
namespace PM.C17
open PM PM.Testing

theorem PInv.mem {fout : List (String × FTask)} {out : List (String × Task)} (h : PInv fout out) {u : String} {T : Task}
    (hm : (u, T) ∈ out) : ∃ FT, (u, FT) ∈ fout ∧ Inv FT T := by
  induction h with
  | nil => cases hm
  | @cons u' ft t fp p hi _ ih =>
    rcases List.mem_cons.mp hm with h | h
    · cases h; exact ⟨ft, List.mem_cons_self, hi⟩
    · obtain ⟨FT, h1, h2⟩ := ih h
      exact ⟨FT, List.mem_cons_of_mem _ h1, h2⟩

/-- **the same tree the code-shaped parser builds**: fed any task-wise interleaving of the messages of a well-formed
specification, the parser over flat `_nodes` tasks raises nothing, yields every task complete, and the root of task `(u, t)`,
read as a `LoggedAction`, is `rootLogged u t` - what `LoggedAction.of_type` / `descendants` are computed from. -/
theorem parser_builds_same_flat {msgs : List PMsg} {ts : Spec} (hwf : ts.WF) (hI : PInterleaving msgs ts) :
    ∃ fout, fparseStream msgs = .ok fout ∧
      ∀ e ∈ ts, ∃ FT n, (e.1, FT) ∈ fout ∧ FT.isComplete = true ∧ FT.root = some n ∧
        nodeLogged? n = some (rootLogged e.1 e.2) := by
  have hin : ∀ m ∈ msgs, m ∈ ts.msgs := by
    intro m hm
    obtain ⟨e, he, _, hmem⟩ := hI.mem_tmsgs hm
    exact List.mem_flatMap.mpr ⟨e, he, hmem⟩
  have hnd : msgs.Nodup := by
    apply nodup_of_filters
    intro m hm
    obtain ⟨e, he, hu⟩ := hI.cover m hm
    rw [hu]
    exact (hI.perm e he).nodup_iff.mpr (tmsgs_nodup e.1 e.2)
  obtain ⟨out, hparse, hall⟩ := parser_builds_same hwf hI
  obtain ⟨out', fout, h1, h2, h3⟩ := PM.C09Flat.flat_parse_stream_follows_spec hwf msgs hnd hin
  have : out' = out := by rw [hparse] at h1; cases h1; rfl
  subst this
  refine ⟨fout, h2, ?_⟩
  intro e he
  obtain ⟨T, n, hT, hc, hr, hl⟩ := hall e he
  obtain ⟨FT, hF, hinv⟩ := PInv.mem h3 hT
  exact ⟨FT, n, hF, by rw [hinv.complete_eq]; exact hc, by rw [hinv.root_eq]; exact hr, hl⟩

end PM.C17
