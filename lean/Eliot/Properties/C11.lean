import Eliot.Model.File
import Eliot.Proofs.FileCrash
import Eliot.Proofs.FileDest
import Eliot.Properties.C09
import Eliot.Properties.C09Flat
import Eliot.Generated.FileDest
/-! # C11 — a crash loses no acknowledged message and leaves a parseable log

Model: the crash layer of `Eliot/Model/File.lean`.  A logging call is the micro-step sequence
`append line` (`file.write`), any number of `spill n` (the OS takes the first `n` buffered bytes:
chunks of a large write, a partial flush), `spillAll` (`file.flush()` returns), `ack` (the logging
call returns); `crash k` stops after `k` micro-steps and keeps `disk` only.  The reader splits on
`\n` and drops the unterminated tail; the parser is the C09 model of `eliot.parse`.

*Modelled, not proved:* the OS between `flush()` and the disk (data handed to the kernel survives
SIGKILL, not power loss), `BufferedWriter`'s chunking policy and short `write(2)`s (any chunking is
allowed by the model), the lines being the ones C10 describes (assumed newline-free + one newline,
which is `EJ.C10.one_line_per_message`). -/
namespace EJ.C11
open EJ

/-! The micro-step sequence `append line; …; spillAll; ack` is what `FileDestination.__call__` does only
while its body is one `write(dumps + linebreak)` followed by one `flush()`: the shape regenerated from
the current source (skeleton E2) must be that one, so a removed flush or a reordered write / flush
breaks this check too. -/
example : Generated.fileDestCall = EJ.stdShape := by decide

/-- At any crash point, under any chunking, the disk holds the complete lines of a prefix of the
emitted messages covering at least the acknowledged ones, followed by nothing or by a proper prefix
of the next line. -/
theorem crash_prefix (lines css : List (List Nat)) (k : Nat) :
    ∃ a frag, (crash k (logAll lines css)).disk = (lines.take a).flatten ++ frag
      ∧ (crash k (logAll lines css)).acked ≤ a ∧ a ≤ lines.length
      ∧ (frag = [] ∨ ∃ l, lines[a]? = some l ∧ ProperPrefix frag l) :=
  EJ.crash_prefix lines css k

-- killed inside the second write after 2 of its 4 bytes (4 micro-steps of call 1, append, spill 2)
example : (crash 6 (logAll [[97, 10], [98, 99, 100, 10], [101, 10]] [[1], [2, 1]])).disk = [97, 10, 98, 99]
    ∧ (crash 6 (logAll [[97, 10], [98, 99, 100, 10], [101, 10]] [[1], [2, 1]])).acked = 1 := by decide

/-- Every logging call that has returned is counted as acknowledged. -/
theorem acked_after (lines css : List (List Nat)) (j k : Nat) (hj : j ≤ lines.length)
    (hk : (logAll (lines.take j) css).length ≤ k) : j ≤ (crash k (logAll lines css)).acked :=
  EJ.acked_after lines css j k hj hk

example : 2 ≤ (crash 9 (logAll [[97, 10], [98, 99, 100, 10], [101, 10]] [[1], [2, 1]])).acked :=
  acked_after _ _ 2 9 (by decide) (by decide)

/-- The reader returns exactly the complete lines and drops only the newline-free fragment. -/
theorem reader_drops_only_fragment (ls : List (List Nat)) (frag : List Nat)
    (h : ∀ l ∈ ls, 10 ∉ l) (hf : 10 ∉ frag) :
    readLines ((ls.map (· ++ [10])).flatten ++ frag) = ls :=
  EJ.reader_drops_only_fragment ls frag h hf

example : readLines [123, 125, 10, 123, 34, 97] = [[123, 125]] := by decide

/-- Both: what the reader sees after a crash is exactly the first `a` messages, `a ≥ acked`. -/
theorem crash_readable (payloads css : List (List Nat)) (k : Nat) (h : ∀ p ∈ payloads, 10 ∉ p) :
    ∃ a, (crash k (logAll (payloads.map (· ++ [10])) css)).acked ≤ a ∧ a ≤ payloads.length
      ∧ readLines (crash k (logAll (payloads.map (· ++ [10])) css)).disk = payloads.take a :=
  EJ.crash_readable payloads css k h

/-- The lines of a real `FileDestination` qualify: the log produced through the C10 model, killed
anywhere, reads back as the payloads of a prefix of the serialisable messages. -/
theorem crash_readable_file (mode : Mode) (ext : Bool) (msgs : List PyVal) (css : List (List Nat)) (k : Nat) :
    ∃ payloads : List (List Nat), msgs.filterMap (FileDest.mk mode ext).line = payloads.map (· ++ [10])
      ∧ ∃ a, (crash k (logAll (msgs.filterMap (FileDest.mk mode ext).line) css)).acked ≤ a ∧ a ≤ payloads.length
        ∧ readLines (crash k (logAll (msgs.filterMap (FileDest.mk mode ext).line) css)).disk = payloads.take a := by
  have key : ∃ payloads : List (List Nat), msgs.filterMap (FileDest.mk mode ext).line = payloads.map (· ++ [10])
      ∧ ∀ p ∈ payloads, 10 ∉ p := by
    induction msgs with
    | nil => exact ⟨[], rfl, by simp⟩
    | cons m ms ih =>
      obtain ⟨ps, hps, hn⟩ := ih
      cases hl : (FileDest.mk mode ext).line m with
      | none => exact ⟨ps, by simp [hl, hps], hn⟩
      | some l =>
        obtain ⟨body, hb, h10, _⟩ := line_shape _ m l hl
        refine ⟨body :: ps, by simp [hl, hps, hb], ?_⟩
        intro p hp
        rcases List.mem_cons.mp hp with rfl | hp
        · exact h10
        · exact hn p hp
  obtain ⟨payloads, hp, hn⟩ := key
  refine ⟨payloads, hp, ?_⟩
  rw [hp]
  exact EJ.crash_readable payloads css k hn

/-! ## Parsing what is there (re-using C09) -/

open PM PM.C09 in
/-- **parse_never_fails / started_visible / no_false_complete.**  Let the emitted messages be a
duplicate-free list drawn from the messages of a well-formed specification `ts` (what a logging
program emits, C01/C02), written as newline-free payloads `payloads` that the reader's decoder `f`
maps back to them.  Whatever the crash point and the chunking, parsing what the reader finds
(i) raises nothing, (ii) yields one entry per task with at least one message on disk, each in
exactly the state determined by the messages on disk (`TaskIs`: started actions with the
messages logged so far, unfinished ones with a start and no end), and (iii) reports a task complete
iff all its messages are among the `a ≥ acked` messages on disk. -/
theorem crash_parse {ts : Spec} (hwf : ts.WF) (payloads css : List (List Nat)) (k : Nat) (f : List Nat → PMsg)
    (hnl : ∀ p ∈ payloads, 10 ∉ p) (hnd : (payloads.map f).Nodup) (hin : ∀ m ∈ payloads.map f, m ∈ ts.msgs) :
    ∃ a out, (crash k (logAll (payloads.map (· ++ [10])) css)).acked ≤ a ∧ a ≤ payloads.length
      ∧ (readLines (crash k (logAll (payloads.map (· ++ [10])) css)).disk).map f = (payloads.map f).take a
      ∧ parseStream ((readLines (crash k (logAll (payloads.map (· ++ [10])) css)).disk).map f) = .ok out
      ∧ OutOK (arrived ((payloads.map f).take a)) ts out
      ∧ ∀ u T, (u, T) ∈ out → ∃ t, (u, t) ∈ ts ∧
          (T.isComplete = true ↔ ∀ m ∈ tmsgs u t, m ∈ (payloads.map f).take a) := by
  obtain ⟨a, ha, hal, hr⟩ := EJ.crash_readable payloads css k hnl
  have hmap : (readLines (crash k (logAll (payloads.map (· ++ [10])) css)).disk).map f = (payloads.map f).take a := by
    rw [hr, List.map_take]
  have hnd' : ((payloads.map f).take a).Nodup := (List.take_sublist a _).nodup hnd
  have hin' : ∀ m ∈ (payloads.map f).take a, m ∈ ts.msgs := fun m hm => hin m (List.mem_of_mem_take hm)
  obtain ⟨done, p, _, hps, hok, _, _⟩ := feed_ok hwf _ hnd' hin'
  refine ⟨a, done ++ p, ha, hal, hmap, by rw [hmap]; exact hps, hok, fun u T hT => ?_⟩
  obtain ⟨t, ht, _, _, hc⟩ := hok.sound u T hT
  refine ⟨t, ht, hc.trans ?_⟩
  simp [allArrived, arrived]

open PM PM.C09 in
/-- `crash_parse` for the parser as the code runs it (flat `_nodes` tasks, `Properties/C09Flat.lean`): what is on disk
after a crash at any instant parses without error with the flat algorithm too, to tasks that mirror the trie parser's one by one
(same uuids, same `root()`, same `is_complete()`); in particular none is reported complete unless all its messages are on disk. -/
theorem crash_parse_flat {ts : Spec} (hwf : ts.WF) (payloads css : List (List Nat)) (k : Nat) (f : List Nat → PMsg)
    (hnl : ∀ p ∈ payloads, 10 ∉ p) (hnd : (payloads.map f).Nodup) (hin : ∀ m ∈ payloads.map f, m ∈ ts.msgs) :
    ∃ out fout, parseStream ((readLines (crash k (logAll (payloads.map (· ++ [10])) css)).disk).map f) = .ok out
      ∧ fparseStream ((readLines (crash k (logAll (payloads.map (· ++ [10])) css)).disk).map f) = .ok fout
      ∧ PInv fout out
      ∧ fout.map (·.2.isComplete) = out.map (·.2.isComplete) ∧ fout.map (·.2.root) = out.map (·.2.root) := by
  obtain ⟨a, _, _, hr⟩ := EJ.crash_readable payloads css k hnl
  have hmap : (readLines (crash k (logAll (payloads.map (· ++ [10])) css)).disk).map f = (payloads.map f).take a := by
    rw [hr, List.map_take]
  have hnd' : ((payloads.map f).take a).Nodup := (List.take_sublist a _).nodup hnd
  have hin' : ∀ m ∈ (payloads.map f).take a, m ∈ ts.msgs := fun m hm => hin m (List.mem_of_mem_take hm)
  obtain ⟨out, fout, h1, h2, h3⟩ := PM.C09Flat.flat_parse_stream_follows_spec hwf _ hnd' hin'
  have hg := PM.C09Flat.PInv.get h3
  exact ⟨out, fout, by rw [hmap]; exact h1, by rw [hmap]; exact h2, h3, hg.2.2, hg.2.1⟩

end EJ.C11
