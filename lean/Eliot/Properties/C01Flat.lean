import Eliot.Properties.C01
import Eliot.Properties.C09Flat
/-!
# C01 — the round trip ends in the parser as the code runs it

`Sys.C01.roundtrip` feeds the projected stage to the trie parser (`PM.parseStream`).  `parse.py` runs the flat-map
algorithm (`PM.fparseStream`, `Model/ParseFlat.lean`); by `PM.C09Flat.flat_parse_stream_follows_spec` it yields, for
the same messages in any order, tasks that mirror the trie parser's one by one — so the tree the program performed is
what `Task.root()` of the code-shaped parser returns.
-/
namespace Sys.C01
open Sys Sys.Emit

theorem roundtrip_flat {env : Env} {σ : Nat → FV → Nat → FV} {ds : List Nat} (H : EnvOK env σ ds) (p : Block)
    (hs : p.structured false false = true) (hwf : (denB env none false p ⟨0, 0, 0, 0⟩ []).wf = true)
    (hR : F.clean (denB env none false p ⟨0, 0, 0, 0⟩ []).f = true) :
    let stage := (execB env none {} (.cons (.addDests ds) p)).1.stage
    let trees := specOf (denB env none false p ⟨0, 0, 0, 0⟩ []).f
    ∃ l : List PM.PMsg, stage.map toPMsg = l.map some ∧ l.Perm trees.msgs ∧
      ∀ ms : List PM.PMsg, ms.Perm l → ∃ out fout, PM.parseStream ms = .ok out ∧ PM.fparseStream ms = .ok fout ∧
        PM.PInv fout out ∧ fout.map (·.2.root) = out.map (·.2.root) ∧
        fout.map (·.2.isComplete) = out.map (·.2.isComplete) ∧ Reconstructs trees out := by
  intro stage trees
  obtain ⟨l, h1, hbody, hwfT, hperm, hall⟩ := roundtrip H p hs hwf hR
  refine ⟨l, h1, hperm, ?_⟩
  intro ms hms
  obtain ⟨out, hout, hrec⟩ := hall ms hms
  have hndl : l.Nodup := nodup_of_map (·.body) (by rw [hbody]; exact List.nodup_range' 1)
  have hnd : ms.Nodup := hms.nodup_iff.mpr hndl
  have hin : ∀ m ∈ ms, m ∈ PM.Spec.msgs trees := fun m hm => (hms.trans hperm).subset hm
  obtain ⟨out', fout, h1', h2', h3'⟩ := PM.C09Flat.flat_parse_stream_follows_spec hwfT ms hnd hin
  have : out' = out := by rw [hout] at h1'; cases h1'; rfl
  subst this
  have hg := PM.C09Flat.PInv.get h3'
  exact ⟨out', fout, hout, h2', h3', hg.2.1, hg.2.2, hrec⟩

end Sys.C01
