import Eliot.Generated.Finish
import Eliot.Model.Sys
/-!
# C03 — `World.finishRec` is `Action.finish` as the source has it now

`lean/Eliot/Generated/Finish.lean` (extractor E14) lists the statements of `Action.finish` in source order.  `applyW` gives each
statement that writes into the end message its meaning in the core model; `finishRec_success_is_translated` /
`finishRec_failure_is_translated`: the dictionary `World.finishRec` hands to `Logger.write` is the generated statement list applied,
in order, to the success fields / to the copy of the extractor's fields — so the override order (the library's `exception`,
`reason`, `action_status`, then `timestamp`, identification, `task_level` over whatever was there) is the source's.
`guard_shape`: the `_finished` guard comes first and is set before anything is written (`finishRec_finished_noop`,
`finishRec_sets_finished`).
-/
namespace Sys.C03Fin
open Sys Eliot.FinishSkel Eliot.Generated

/-- the values the statements write -/
structure Vals where
  ts : FV
  uuid : Nat
  atype : String
  lvl : Level
  excQual : String
  reason : String

def applyW (v : Vals) : W → Fields → Fields
  | .status s, f => f.set "action_status" (.str s)
  | .exception, f => f.set "exception" (.str v.excQual)
  | .reason, f => f.set "reason" (.str v.reason)
  | .timestamp, f => f.set "timestamp" v.ts
  | .identification, f => (f.set "task_uuid" (.uuid v.uuid)).set "action_type" (.str v.atype)
  | .taskLevel, f => f.set "task_level" (.lvl v.lvl)
  | .taskUuid, f => f.set "task_uuid" (.uuid v.uuid)
  | .messageType, f => f.set "message_type" (.str v.atype)     -- `Vals.atype` carries the message type for `Action.log`
  | _, f => f

def applyWs (v : Vals) (ws : List W) (f : Fields) : Fields := ws.foldl (fun acc w => applyW v w acc) f

theorem guard_shape : Finish.guard = ["if-finished-return", "set-finished"] ∧ Finish.branchTest = "exception is None" ∧
    Finish.identificationKeys = ["TASK_UUID_FIELD", "ACTION_TYPE_FIELD"] ∧
    Finish.successBranch.head? = some .fromSuccessFields ∧ Finish.failureBranch.head? = some .fromExtractorCopy ∧
    (W.serializer "success") ∈ Finish.successBranch ∧ (W.serializer "failure") ∈ Finish.failureBranch ∧
    Finish.tail.getLast? = some .write := by decide

theorem finishRec_finished_noop (env : Env) (w : World) (h : Nat) (a : Act) (exc : Option Exc)
    (hget : w.acts[h]? = some a) (hf : a.finished = true) : World.finishRec env w h exc = w := by
  simp [World.finishRec, hget, hf]

theorem finishRec_success_is_translated (env : Env) (w : World) (h : Nat) (a : Act)
    (hget : w.acts[h]? = some a) (hf : a.finished = false) :
    World.finishRec env w h none =
      (let w1 := { w with acts := w.acts.set h { a with finished := true } }
       let c := w1.clock
       let r := c.1.nextLevel h
       r.1.loggerWrite env (applyWs ⟨c.2, a.uuid, a.atype, r.2, "", ""⟩ (Finish.successBranch ++ Finish.tail) a.succ)
         (a.sers.map (·.2))) := by
  simp only [World.finishRec, hget, hf]
  rfl

theorem finishRec_failure_is_translated (env : Env) (w : World) (h : Nat) (a : Act) (e : Exc)
    (hget : w.acts[h]? = some a) (hf : a.finished = false) :
    World.finishRec env w h (some e) =
      (let w1 := { w with acts := w.acts.set h { a with finished := true } }
       let g := World.getFields env w1 e
       let c := g.1.clock
       let r := c.1.nextLevel h
       r.1.loggerWrite env (applyWs ⟨c.2, a.uuid, a.atype, r.2, e.qual env, e.safeStr env⟩ (Finish.failureBranch ++ Finish.tail) g.2)
         (a.sers.map (fun _ => []))) := by
  simp only [World.finishRec, hget, hf]
  rfl

/-- **`Action._start`**: `World.startRec` writes the given fields with the generated statement list applied in order (so
`action_status`, `timestamp`, the identification and `task_level` override application fields of the same name), with the start
serializer. -/
theorem startRec_is_translated (env : Env) (w : World) (h : Nat) (a : Act) (fields : Fields)
    (hget : w.acts[h]? = some a) :
    World.startRec env w h fields =
      (let c := w.clock
       let r := c.1.nextLevel h
       r.1.loggerWrite env (applyWs ⟨c.2, a.uuid, a.atype, r.2, "", ""⟩ Finish.startStmts fields) (a.sers.map (·.1))) := by
  simp only [World.startRec, hget]
  rfl

/-- **`Action.log`**: the dictionary `World.buildLog` makes is the generated statement list applied in order to the fields passed
(`timestamp`, `task_uuid`, `task_level`, then `message_type` - the message type overrides a field of that name). -/
theorem buildLog_is_translated (w : World) (h : Nat) (mtype : String) (fields : Fields) :
    (w.buildLog h mtype fields).2 =
      (let c := w.clock
       let u := ((c.1.acts[h]?).map Act.uuid).getD 0
       let r := c.1.nextLevel h
       applyWs ⟨c.2, u, mtype, r.2, "", ""⟩ Finish.logStmts fields) := by
  simp only [World.buildLog]
  rfl

theorem start_log_shape : Finish.startStmts.getLast? = some .write ∧ W.serializerStart ∈ Finish.startStmts ∧
    Finish.logStmts.getLast? = some .writePop ∧ W.popLogger ∈ Finish.logStmts := by decide

/-- **Where a new action or message goes** (C02 / C04 anchors): the bodies of `start_action`, `startTask`, `log_message` and
`Action.child` as the source has them now are the ones the core model's `World.startAction`, `World.logMessage` / `currentOrFresh`
and `World.childRec` transcribe (parameters and locals alpha-renamed `v0, v1, ...` by the extractor): the parent is the current action at creation time, no current action means a new task with a
fresh `uuid4()` at level `[]`, a child takes the parent's uuid and its next position. -/
theorem placement_shapes :
    Finish.startActionBody = ["v4 = current_action()", "if v4 is None:\n    return startTask(v0, v1, v2, **v3)\nelse:\n    v5 = v4.child(v0, v1, v2)\n    v5._start(v3)\n    return v5"] ∧
    Finish.startTaskBody = ["v4 = Action(v0, str(uuid4()), TaskLevel(level=[]), v1, v2)", "v4._start(v3)", "return v4"] ∧
    Finish.logMessageBody = ["v2 = current_action()", "if v2 is None:\n    v3 = v1.pop('__eliot_logger__', None)\n    v2 = Action(v3, str(uuid4()), TaskLevel(level=[]), '')", "v2.log(v0, **v1)"] ∧
    Finish.childBody = ["v3 = self._nextTaskLevel()", "return self.__class__(v0, self._identification[TASK_UUID_FIELD], v3, v1, v2)"] :=
  ⟨rfl, rfl, rfl, rfl⟩

end Sys.C03Fin
