import Eliot.Proofs.SysFrame
/-!
# C04 — the current action is scoped to its block and always restored on exit

Model: `Eliot/Model/Sys.lean` (`execS`/`execB`: `with action:` = `withBlock`, `with action.context():`
and `action.run(f)` = `scopedBlock`; `ctx` is the value of `_ACTION_CONTEXT` in the running thread).
Quantifier: every program (`Stmt`/`Block`: any nesting and sequence of the three scoping
constructs, including re-entering an action's `context()`/`run()` while inside it), every
environment (failing destinations, serializers, extractors), every exit kind (`Outcome`: normal,
any exception incl. `GeneratorExit`/`KeyboardInterrupt` classes, which are ordinary `Exc` values).
-/
namespace Sys.C04
open Sys

/-- uuids in the action table and in outstanding task ids all came from the uuid counter -/
def WInv (w : World) : Prop :=
  (∀ a ∈ w.acts, a.uuid < w.nextUuid) ∧ (∀ e ∈ w.ids, e.2.1 < w.nextUuid)

theorem Frame.winv {w w' : World} (f : Frame w w') (h : WInv w) : WInv w' :=
  ⟨f.bound h.1, fun e he => Nat.lt_of_lt_of_le (h.2 e (f.ids ▸ he)) f.uuidMono⟩

theorem WInv.init : WInv {} := ⟨by simp, by simp⟩

theorem mem_setNat {α} (l : List (Nat × α)) (k : Nat) (v : α) (e : Nat × α) (h : e ∈ setNat l k v) :
    e ∈ l ∨ e = (k, v) := by
  induction l with
  | nil => simp only [setNat, List.mem_singleton] at h; exact Or.inr h
  | cons x xs ih =>
    obtain ⟨k', v'⟩ := x
    simp only [setNat] at h
    split at h
    · rcases List.mem_cons.mp h with h | h
      · exact Or.inr h
      · exact Or.inl (List.mem_cons_of_mem _ h)
    · rcases List.mem_cons.mp h with h | h
      · exact Or.inl (h ▸ List.mem_cons_self)
      · rcases ih h with h | h
        · exact Or.inl (List.mem_cons_of_mem _ h)
        · exact Or.inr h

theorem lookupNat_mem {α} (l : List (Nat × α)) (k : Nat) (v : α) (h : lookupNat l k = some v) : (k, v) ∈ l := by
  induction l with
  | nil => simp [lookupNat] at h
  | cons x xs ih =>
    obtain ⟨k', v'⟩ := x
    simp only [lookupNat] at h
    split at h
    · rename_i hk; cases h; subst hk; exact List.mem_cons_self
    · exact List.mem_cons_of_mem _ (ih h)

/-- `Destinations.add` (with its re-delivery of the buffer) leaves the context and the uuid
bookkeeping alone. -/
theorem addDests_spec (env : Env) (w : World) (ds : List Nat) :
    (w.addDests env ds).ctx = w.ctx ∧ (WInv w → WInv (w.addDests env ds)) := by
  unfold World.addDests
  split
  · exact ⟨rfl, id⟩
  · have key : ∀ (buf : List Msg) (w1 : World),
        (buf.foldl (fun acc m => acc.popPending.send env m) w1).ctx = w1.ctx ∧
        (WInv w1 → WInv (buf.foldl (fun acc m => acc.popPending.send env m) w1)) := by
      intro buf
      induction buf with
      | nil => intro w1; exact ⟨rfl, id⟩
      | cons m ms ih =>
        intro w1
        have f := (frame_popPending w1).trans (frame_send env w1.popPending m)
        obtain ⟨h1, h2⟩ := ih (w1.popPending.send env m)
        exact ⟨h1.trans f.ctx, fun h => h2 (Frame.winv f h)⟩
    obtain ⟨h1, h2⟩ := key w.buffer
      { w with anyAdded := true, dests := ds, buffer := [], pendingAt := w.bufferAt, bufferAt := [], dupAdd := w.dupAdd || hasDup ds }
    exact ⟨h1, fun h => h2 h⟩

/-- The combined statement proved by induction: context restored, bookkeeping invariant kept. -/
def Good (w w' : World) : Prop := w'.ctx = w.ctx ∧ WInv w'

theorem Good.ofFrame {w w' : World} (f : Frame w w') (h : WInv w) : Good w w' := ⟨f.ctx, Frame.winv f h⟩

theorem winv_ctx {w : World} (h : WInv w) (c : Option Nat) : WInv { w with ctx := c } := h

/-- `with action:` restores the context that was current at entry, whatever the body did and
however it exited, provided the body itself restores what it was given. -/
theorem withBlock_good (env : Env) (w : World) (h : Nat) (run : World → World × Outcome) (hw : WInv w)
    (hrun : WInv (run { w with ctx := some h }).1) : Good w (withBlock env w h run).1 := by
  unfold withBlock
  simp only
  have f := frame_finishRec env { (run { w with ctx := some h }).1 with ctx := w.ctx } h
    (outcomeExc (run { w with ctx := some h }).2)
  exact ⟨f.ctx, Frame.winv f hrun⟩

mutual
theorem execS_good (env : Env) (cur : Option Exc) (w : World) (s : Stmt) (hw : WInv w) :
    Good w (execS env cur w s).1 := by
  cases s with
  | withAction task sp body =>
    simp only [execS]
    have f := frame_startAction env w task sp hw.1
    have hw1 := Frame.winv f hw
    have hb := execB_good env cur { (w.startAction env task sp).1 with ctx := some (w.startAction env task sp).2 } body hw1
    have g := withBlock_good env (w.startAction env task sp).1 (w.startAction env task sp).2
      (fun w' => execB env cur w' body) hw1 hb.2
    exact ⟨g.1.trans f.ctx, g.2⟩
  | log ms => exact Good.ofFrame (frame_logMessage env w ms) hw
  | raise i => exact ⟨rfl, hw⟩
  | tryCatch body handler =>
    simp only [execS]
    have hb := execB_good env cur w body hw
    split
    · rename_i w1 e heq
      rw [heq] at hb
      have hh := execB_good env (some e) w1 handler hb.2
      exact ⟨hh.1.trans hb.1, hh.2⟩
    · exact hb
  | writeTraceback =>
    simp only [execS]
    cases cur with
    | none => exact ⟨rfl, hw⟩
    | some e => exact Good.ofFrame (frame_writeTraceback env w e) hw
  | startAs x task sp =>
    simp only [execS]
    have f := frame_startAction env w task sp hw.1
    have hw1 : WInv (w.startAction env task sp).1 := Frame.winv f hw
    exact ⟨f.ctx, hw1⟩
  | withHandle x body =>
    simp only [execS]
    cases lookupNat w.vars x with
    | none => exact ⟨rfl, hw⟩
    | some h =>
      have hb := execB_good env cur { w with ctx := some h } body hw
      exact withBlock_good env w h (fun w' => execB env cur w' body) hw hb.2
  | inContext x body =>
    simp only [execS]
    cases lookupNat w.vars x with
    | none => exact ⟨rfl, hw⟩
    | some h =>
      have hb := execB_good env cur { w with ctx := some h } body hw
      exact ⟨rfl, hb.2⟩
  | runIn x body =>
    simp only [execS]
    cases lookupNat w.vars x with
    | none => exact ⟨rfl, hw⟩
    | some h =>
      have hb := execB_good env cur { w with ctx := some h } body hw
      exact ⟨rfl, hb.2⟩
  | finish x exc =>
    simp only [execS]
    cases lookupNat w.vars x with
    | none => exact ⟨rfl, hw⟩
    | some h => exact Good.ofFrame (frame_finishRec env w h _) hw
  | addSuccess x fs =>
    simp only [execS]
    split
    · rename_i h _
      split
      · rename_i a ha
        refine ⟨rfl, fun b hb => ?_, hw.2⟩
        rcases List.mem_or_eq_of_mem_set hb with hb | hb
        · exact hw.1 b hb
        · subst hb; exact hw.1 a (List.mem_of_getElem? ha)
      · exact ⟨rfl, hw⟩
    · exact ⟨rfl, hw⟩
  | logTo x ms =>
    simp only [execS]
    cases lookupNat w.vars x with
    | none => exact ⟨rfl, hw⟩
    | some h => exact Good.ofFrame (frame_logTo env w h ms) hw
  | serializeAs y x =>
    simp only [execS]
    split
    · rename_i h _
      split
      · rename_i a ha
        have f := frame_nextLevel w h
        have hw1 := Frame.winv f hw
        refine ⟨f.ctx, hw1.1, fun e he => ?_⟩
        rcases mem_setNat _ _ _ _ he with he | he
        · exact hw1.2 e he
        · subst he
          exact Nat.lt_of_lt_of_le (hw.1 a (List.mem_of_getElem? ha)) f.uuidMono
      · exact ⟨rfl, hw⟩
    · exact ⟨rfl, hw⟩
  | continueWith y sp body =>
    simp only [execS]
    cases hl : lookupNat w.ids y with
    | none => exact ⟨rfl, hw⟩
    | some p =>
      obtain ⟨u, lvl⟩ := p
      have hu : u < w.nextUuid := hw.2 (y, (u, lvl)) (lookupNat_mem _ _ _ hl)
      have hw0 : WInv ({ w with ids := w.ids.filter (fun e => e.1 != y) } : World) :=
        ⟨hw.1, fun e he => hw.2 e (List.mem_filter.mp he).1⟩
      have f := frame_continueTask env ({ w with ids := w.ids.filter (fun e => e.1 != y) } : World) u lvl sp hu
      have hw1 := Frame.winv f hw0
      have hb := execB_good env cur
        { (World.continueTask env ({ w with ids := w.ids.filter (fun e => e.1 != y) } : World) u lvl sp).1 with
          ctx := some (World.continueTask env ({ w with ids := w.ids.filter (fun e => e.1 != y) } : World) u lvl sp).2 }
        body hw1
      have g := withBlock_good env _ _ (fun w' => execB env cur w' body) hw1 hb.2
      exact ⟨g.1.trans f.ctx, g.2⟩
  | addDests ds =>
    simp only [execS]
    obtain ⟨h1, h2⟩ := addDests_spec env w ds
    exact ⟨h1, h2 hw⟩
  | removeDest d =>
    simp only [execS]
    split
    · exact ⟨rfl, hw⟩
    · exact ⟨rfl, hw⟩
  | addGlobals fs => exact ⟨rfl, hw⟩
  | probe n => exact ⟨rfl, hw⟩
theorem execB_good (env : Env) (cur : Option Exc) (w : World) (b : Block) (hw : WInv w) :
    Good w (execB env cur w b).1 := by
  cases b with
  | nil => exact ⟨rfl, hw⟩
  | cons s rest =>
    simp only [execB]
    have hs := execS_good env cur w s hw
    split
    · rename_i w1 heq
      rw [heq] at hs
      have hr := execB_good env cur w1 rest hs.2
      exact ⟨hr.1.trans hs.1, hr.2⟩
    · exact hs
end

/-- **exec_restores_ctx**: after *any* statement of *any* program, however it exits (normally or
by any exception), `current_action()` is exactly what it was immediately before. -/
theorem exec_restores_ctx (env : Env) (cur : Option Exc) (w : World) (s : Stmt) (hw : WInv w) :
    (execS env cur w s).1.ctx = w.ctx := (execS_good env cur w s hw).1

/-- …and so a whole program run from the initial state ends with no current action. -/
theorem program_ends_contextless (env : Env) (p : Block) : (execB env none {} p).1.ctx = none :=
  (execB_good env none {} p WInv.init).1

/-- **inside_is_current**: the body of `with action:` / `with action.context():` / `action.run(f)`
starts with that action current (and, by `exec_restores_ctx`, every statement of the body starts
with it current). -/
theorem inside_is_current (env : Env) (w : World) (h : Nat) (run : World → World × Outcome) :
    (withBlock env w h run).2 = (run { w with ctx := some h }).2 ∧
    (scopedBlock w h run).2 = (run { w with ctx := some h }).2 := ⟨rfl, rfl⟩

theorem probe_in_body_sees_action (env : Env) (cur : Option Exc) (w : World) (x h n : Nat) (a : Act)
    (hx : lookupNat w.vars x = some h) (ha : w.acts[h]? = some a) :
    (execS env cur w (.inContext x (.cons (.probe n) .nil))).1.probes = w.probes ++ [(n, some (a.uuid, a.level, a.atype))] := by
  simp [execS, hx, scopedBlock, execB, ha]

/-- **start_task_fresh**: `start_task` begins a new tree whatever the context: a uuid no existing
action has, level `[]`. -/
theorem start_task_fresh (env : Env) (w : World) (sp : Spec) (hw : WInv w) :
    ∃ a, (w.startAction env true sp).1.acts[(w.startAction env true sp).2]? = some a ∧
      a.uuid = w.nextUuid ∧ a.level = [] ∧ ∀ b ∈ w.acts, b.uuid ≠ a.uuid := by
  simp only [World.startAction, ↓reduceIte]
  have f := frame_startRec env (w.freshAction sp.atype sp.sers).1 (w.freshAction sp.atype sp.sers).2 sp.fields
  have h0 : (w.freshAction sp.atype sp.sers).1.acts[(w.freshAction sp.atype sp.sers).2]? =
      some { uuid := w.nextUuid, level := [], atype := sp.atype, sers := sp.sers } := by
    simp [World.freshAction]
  obtain ⟨a', ha', hu, hl, _⟩ := f.keep _ _ h0
  exact ⟨a', ha', hu, hl, fun b hb => by rw [hu]; exact Nat.ne_of_lt (hw.1 b hb)⟩

theorem Fields.get?_set_self (d : Fields) (k : String) (v : FV) : (d.set k v).get? k = some v := by
  induction d with
  | nil => simp [Fields.set, Fields.get?]
  | cons x xs ih =>
    obtain ⟨k', v'⟩ := x
    simp only [Fields.set]
    split
    · simp [Fields.get?]
    · rename_i h; simp [Fields.get?, h, ih]

theorem Fields.get?_set_ne (d : Fields) (k k' : String) (v : FV) (h : k' ≠ k) : (d.set k v).get? k' = d.get? k' := by
  induction d with
  | nil => simp [Fields.set, Fields.get?, h.symm]
  | cons x xs ih =>
    obtain ⟨k'', v''⟩ := x
    simp only [Fields.set]
    split
    · rename_i hk; subst hk; simp [Fields.get?, h.symm]
    · simp only [Fields.get?, ih]

/-- **contextless_msg_own_task**: with no current action, a logged message carries a uuid no
existing action has and sits at level `[1]`: it forms its own one-message task. -/
theorem contextless_msg_own_task (w : World) (hc : w.ctx = none) (t : String) (f : Fields) (hw : WInv w) :
    let m := (w.currentOrFresh.1.buildLog w.currentOrFresh.2 t f).2
    m.get? "task_uuid" = some (.uuid w.nextUuid) ∧ m.get? "task_level" = some (.lvl [1]) ∧
      ∀ b ∈ w.acts, b.uuid ≠ w.nextUuid := by
  refine ⟨?_, ?_, fun b hb => Nat.ne_of_lt (hw.1 b hb)⟩
  · simp only [World.currentOrFresh, hc, World.buildLog, World.freshAction, World.clock, World.nextLevel]
    simp [Fields.get?_set_ne, Fields.get?_set_self]
  · simp only [World.currentOrFresh, hc, World.buildLog, World.freshAction, World.clock, World.nextLevel]
    simp [Fields.get?_set_ne, Fields.get?_set_self]

/-! ## Non-vacuity -/
def exEnv : Env where
  classOf := fun _ => 0
  mro := fun c => [c]
  qualname := fun _ => "m.C"
  strOf := fun _ => some "x"
  keyErrorClass := 1
  extractor := fun _ => none
  serialize := fun s v k => Except.ok (FV.serOut s k v)
  destFails := fun d k => if d = 0 && k = 1 then some (Exc.user 9) else none
def exProg : Block :=
  .cons (.addDests [0, 1]) (.cons (.tryCatch (.cons (.withAction false { atype := "a" }
    (.cons (.probe 0) (.cons (.log { mtype := "m" }) (.cons (.raise 3) .nil)))) .nil) (.cons (.probe 1) .nil)) .nil)
example : (execB exEnv none {} exProg).1.probes = [(0, some (0, [], "a")), (1, none)] ∧
    (execB exEnv none {} exProg).2 = .ok ∧ (execB exEnv none {} exProg).1.ctx = none := by decide +kernel

end Sys.C04
