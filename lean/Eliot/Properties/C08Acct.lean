import Eliot.Proofs.SysAcct
import Eliot.Proofs.SysAcctRun
import Eliot.Proofs.SysReg
import Eliot.Properties.C08
/-!
# C08 — which failures are reported: the collected errors are the exceptions the destinations raised

`report_accounting` (`Properties/C08.lean`) counts one report per *collected* error.  This file says
what is collected: `Sys.raisedBy env dc ds` is written without the machine — call the destinations
`ds` in order, ask the oracle `env.destFails d k` what destination `d` does on its `k`-th call
(`dc` = the calls each destination has had so far), count the call.

* `collected_errors`: for a message that is not a failure report, while destinations are registered,
  `send` collects exactly `raisedBy env w.destCalls w.dests`; for a failure report, and while
  messages are buffered, nothing.
* `collected_errors_nodup`: destinations registered once each — the exceptions of the registered
  destinations, in registration order, that raise on their next call.
* `call_number_is_offered_count`: in every reachable world the call counter of `d` is the number of
  dicts `d` has been offered so far; `collected_errors_reachable` puts the two together.
* `reports_per_raiser`: one `send` stages the message plus one report per destination that raised.
* `reports_match_failures` (run level): after any program from the initial world, the number of staged
  dicts of type `eliot:destination_failure` equals the number of deliveries of other dicts that raised —
  for every environment and every program that does not itself produce dicts of that type:
  `p.allC acctCond` (no `log_message` of type `eliot:destination_failure`; no start field, declared
  serializer field or global field named `message_type`), `ExtOK env` (no exception extractor returns a
  field named `message_type`), `ActsOK` of the final world (no action has a success field or a declared
  field named `message_type`; success fields are only ever added, so this speaks about the whole run).
  Without these the equation is false: such a dict is staged and counted as a report although nothing failed.
-/
namespace Sys.C08
open Sys

/-- **collected_errors** -/
theorem collected_errors (env : Env) (w : World) (m : Msg) :
    (w.deliver env m).2.2 =
      if w.anyAdded = true ∧ isReport (Fields.update m w.globals) = false then raisedBy env w.destCalls w.dests else [] :=
  deliver_errors env w m

/-- **collected_errors_nodup**: with every destination registered once, the collected errors are:
for each registered destination, in registration order, what it raises on its next call, if it does. -/
theorem collected_errors_nodup (env : Env) (w : World) (m : Msg) (ha : w.anyAdded = true)
    (hr : isReport (Fields.update m w.globals) = false) (hn : w.dests.Nodup) :
    (w.deliver env m).2.2 = w.dests.filterMap (fun d => env.destFails d ((lookupNat w.destCalls d).getD 0)) := by
  rw [deliver_errors, if_pos ⟨ha, hr⟩, raisedBy_nodup env _ _ hn]

/-- failures while delivering a failure report are not collected -/
theorem collected_errors_report (env : Env) (w : World) (m : Msg) (hr : isReport (Fields.update m w.globals) = true) :
    (w.deliver env m).2.2 = [] := by
  rw [deliver_errors, if_neg (by simp [hr])]

/-- **call_number_is_offered_count**: after any program from the initial world, the `k` the oracle is
asked with for destination `d` is the number of dicts `d` has been offered so far. -/
theorem call_number_is_offered_count (env : Env) (cur : Option Exc) (p : Block) (d : Nat) :
    let w := (execB env cur {} p).1
    (lookupNat w.destCalls d).getD 0 = (offeredTo w d).length :=
  callsOK_execB env cur {} p (fun _ => rfl) d

/-- **collected_errors_reachable**: in any world a program reaches from the initial one (no destination
registered twice), sending a non-report message collects, in registration order, the exception of every
registered destination `d` that raises on call number "dicts `d` was offered so far". -/
theorem collected_errors_reachable (env : Env) (cur : Option Exc) (p : Block) (m : Msg) :
    let w := (execB env cur {} p).1
    w.anyAdded = true → isReport (Fields.update m w.globals) = false → w.dupAdd = false →
    (w.deliver env m).2.2 = w.dests.filterMap (fun d => env.destFails d (offeredTo w d).length) := by
  intro w ha hr hd
  have r : Reg env w := (reg_execB env cur {} p).2 (Reg.init env)
  rw [collected_errors_nodup env w m ha hr (r.nodup hd).1]
  apply filterMap_congr'
  intro d _
  rw [call_number_is_offered_count env cur p d]

/-- **reports_per_raiser**: one `send` of a non-report message while destinations are registered
stages the message plus exactly one entry per destination that raised on it. -/
theorem reports_per_raiser (env : Env) (w : World) (m : Msg) (ha : w.anyAdded = true)
    (hr : isReport (Fields.update m w.globals) = false) :
    (w.send env m).stage.length = w.stage.length + 1 + (raisedBy env w.destCalls w.dests).length := by
  rw [report_accounting, deliver_errors, if_pos ⟨ha, hr⟩]

/-- deliveries of dicts other than failure reports that raised: offered but not accepted -/
def failedDeliveries (w : World) : Nat := nrCalls w.offered - nrCalls w.accepted

/-- **reports_match_failures**: every environment whose extractors do not return `message_type`, every
program whose own statements do not produce a dict of the report type, from the initial world, under every
handled exception: (staged failure reports) = (failed deliveries of dicts that are not failure reports). -/
theorem reports_match_failures (env : Env) (hext : ExtOK env) (cur : Option Exc) (p : Block) (hp : p.allC acctCond = true) :
    let w' := (execB env cur {} p).1
    ActsOK w' → reportsStaged w' + nrCalls w'.accepted = nrCalls w'.offered ∧ reportsStaged w' = failedDeliveries w' := by
  intro w' hok
  have h := ((acct_execB env hext cur {} p hp).2 hok AI.init).acc
  have h' : reportsStaged w' + nrCalls w'.accepted = nrCalls w'.offered := by simpa using h
  exact ⟨h', by unfold failedDeliveries; omega⟩

/-- the same from any world whose books are balanced (the incremental form) -/
theorem reports_match_failures_from (env : Env) (hext : ExtOK env) (cur : Option Exc) (w : World) (p : Block)
    (hp : p.allC acctCond = true) (hw : AI w) :
    let w' := (execB env cur w p).1
    ActsOK w' → reportsStaged w' + nrCalls w'.accepted = nrCalls w'.offered := by
  intro w' hok
  simpa using ((acct_execB env hext cur w p hp).2 hok hw).acc

/-- untyped actions without a success field `message_type` are fine for the books -/
theorem actsOK_of (w : World) (h : ∀ a ∈ w.acts, a.succ.get? "message_type" = none ∧ a.sers = none) : ActsOK w :=
  fun a ha => ⟨(h a ha).1, fun p hp => by rw [(h a ha).2] at hp; cases hp⟩

/-! ## Non-vacuity: destination 0 raises on its 2nd call, destination 1 never -/
example : let w := (execB Sys.C04.exEnv none {} (.cons (.addDests [0, 1]) (.cons (.log { mtype := "m" }) .nil))).1
    w.destCalls = [(0, 1), (1, 1)] ∧
    (w.deliver Sys.C04.exEnv [("message_type", .str "x")]).2.2 = [Exc.user 9] ∧
    raisedBy Sys.C04.exEnv w.destCalls w.dests = [Exc.user 9] ∧
    w.dests.filterMap (fun d => Sys.C04.exEnv.destFails d (offeredTo w d).length) = [Exc.user 9] ∧
    (w.deliver Sys.C04.exEnv [("message_type", .str DESTINATION_FAILURE)]).2.2 = [] := by
  decide +kernel

/-- run level: destination 0 raises on the start message's successor (its 2nd call); one report is staged; the
report itself and everything after it is delivered without failure -/
def acctProg : Block :=
  .cons (.addDests [0, 1]) (.cons (.withAction false { atype := "a", fields := [("x", .nat 1)] }
    (.cons (.log { mtype := "m" }) (.cons (.addSuccess none [("r", .nat 2)]) .nil))) .nil)

example : acctProg.allC acctCond = true ∧ ExtOK Sys.C04.exEnv ∧ ActsOK (execB Sys.C04.exEnv none {} acctProg).1 := by
  refine ⟨by decide, fun c f e k fs h => by simp [Sys.C04.exEnv] at h, actsOK_of _ (by decide +kernel)⟩

example : let w' := (execB Sys.C04.exEnv none {} acctProg).1
    reportsStaged w' = 1 ∧ failedDeliveries w' = 1 ∧ w'.stage.length = 4 ∧ nrCalls w'.offered = 6 ∧ nrCalls w'.accepted = 5 := by
  decide +kernel

/-- the hypotheses are needed: a program that logs a message of the report type itself stages a "report" without any failure -/
example : let p : Block := .cons (.addDests [1]) (.cons (.log { mtype := DESTINATION_FAILURE }) .nil)
    p.allC acctCond = false ∧ reportsStaged (execB Sys.C04.exEnv none {} p).1 = 1 ∧
    failedDeliveries (execB Sys.C04.exEnv none {} p).1 = 0 := by
  decide +kernel

end Sys.C08
