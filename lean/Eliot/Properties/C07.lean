import Eliot.Proofs.SysLift
/-!
# C07 — logging never raises into, or alters, the application

Model: `Eliot/Model/Sys.lean`.  Every call into user code is an oracle of `Env` that may raise on
any subset of calls: destinations (`destFails`), field serializers (`serialize`), exception
extractors (`extractor`), `str()` of exceptions (`strOf = none`).  The `try/except` structure of
`Logger.write`, `Destinations.send`, `get_fields_for_exception`, `safeunicode`, `saferepr`,
`_safe_unicode_dictionary` is reproduced construct by construct; that the *source* still has that
structure is the regenerated obligation `skeleton_E5`.

* `api_never_raises`: in the model every logging primitive is a total function `World → World`:
  it has no exceptional result at all; the only `Outcome`s of a program are those of its own
  `raise` statements (`Exc.user i`) — stated as `app_outcome_unchanged`.
* `app_outcome_unchanged`: for EVERY environment the outcome of every statement is the outcome of
  the application's own control flow (`pureS`, defined without any world or environment), with the
  same exception identity; `stuck` marks API misuse outside the model (unbound handle).
-/
namespace Sys.C07
open Sys

mutual
/-- the application's own control flow: what the program does with logging erased -/
def pureS : Stmt → Outcome
  | .withAction _ _ b => pureB b
  | .raise i => .raised (.user i)
  | .tryCatch b h => match pureB b with
    | .raised _ => pureB h
    | o => o
  | .withHandle _ b => pureB b
  | .inContext _ b => pureB b
  | .runIn _ b => pureB b
  | .continueWith _ _ b => pureB b
  | _ => .ok
def pureB : Block → Outcome
  | .nil => .ok
  | .cons s r => match pureS s with
    | .ok => pureB r
    | o => o
end

mutual
theorem execS_outcome (env : Env) (cur : Option Exc) (w : World) (s : Stmt) :
    (execS env cur w s).2 = .stuck ∨ (execS env cur w s).2 = pureS s := by
  cases s with
  | withAction task sp body =>
    simp only [execS, withBlock, pureS]
    exact execB_outcome env cur _ body
  | log ms => right; rfl
  | raise i => right; rfl
  | tryCatch body handler =>
    simp only [execS, pureS]
    have hb := execB_outcome env cur w body
    split
    · rename_i w1 e heq
      rw [heq] at hb
      rcases hb with hb | hb
      · cases hb
      · simp only at hb
        rw [← hb]
        exact execB_outcome env (some e) w1 handler
    · rename_i hne
      rcases hb with hb | hb
      · left; exact hb
      · right
        rw [hb]
        cases hp : pureB body with
        | ok => rfl
        | stuck => rfl
        | raised e =>
          exfalso
          rw [hp] at hb
          exact hne _ e (Prod.ext rfl hb)
  | writeTraceback =>
    simp only [execS]
    cases cur with
    | none => left; rfl
    | some e => right; rfl
  | startAs x task sp => right; rfl
  | withHandle x body =>
    simp only [execS, pureS]
    cases lookupNat w.vars x with
    | none => left; rfl
    | some h => simp only [withBlock]; exact execB_outcome env cur _ body
  | inContext x body =>
    simp only [execS, pureS]
    cases lookupNat w.vars x with
    | none => left; rfl
    | some h => simp only [scopedBlock]; exact execB_outcome env cur _ body
  | runIn x body =>
    simp only [execS, pureS]
    cases lookupNat w.vars x with
    | none => left; rfl
    | some h => simp only [scopedBlock]; exact execB_outcome env cur _ body
  | finish x exc =>
    simp only [execS]
    cases lookupNat w.vars x with
    | none => left; rfl
    | some h => right; rfl
  | addSuccess x fs =>
    simp only [execS]
    split
    · split
      · right; rfl
      · left; rfl
    · left; rfl
  | logTo x ms =>
    simp only [execS]
    cases lookupNat w.vars x with
    | none => left; rfl
    | some h => right; rfl
  | serializeAs y x =>
    simp only [execS]
    split
    · split
      · right; rfl
      · left; rfl
    · left; rfl
  | continueWith y sp body =>
    simp only [execS, pureS]
    cases lookupNat w.ids y with
    | none => left; rfl
    | some p => simp only [withBlock]; exact execB_outcome env cur _ body
  | addDests ds => right; rfl
  | removeDest d =>
    simp only [execS]
    split
    · right; rfl
    · left; rfl
  | addGlobals fs => right; rfl
  | probe n => right; rfl
theorem execB_outcome (env : Env) (cur : Option Exc) (w : World) (b : Block) :
    (execB env cur w b).2 = .stuck ∨ (execB env cur w b).2 = pureB b := by
  cases b with
  | nil => right; rfl
  | cons s rest =>
    simp only [execB, pureB]
    have hs := execS_outcome env cur w s
    split
    · rename_i w1 heq
      rw [heq] at hs
      rcases hs with hs | hs
      · cases hs
      · simp only at hs
        rw [← hs]
        exact execB_outcome env cur w1 rest
    · rename_i hne
      rcases hs with hs | hs
      · left; exact hs
      · right
        rw [hs]
        cases hp : pureS s with
        | ok =>
          exfalso
          rw [hp] at hs
          exact hne _ (Prod.ext rfl hs)
        | stuck => rfl
        | raised e => rfl
end

/-- **app_outcome_unchanged**: whatever is logged and wherever it goes — for every environment,
i.e. every pattern of raising destinations, serializers, extractors and `str()` — a program's
result is the result of its own control flow: the same exception (same identity) propagates, or it
completes normally; the logging calls contribute no outcome of their own. -/
theorem app_outcome_unchanged (env : Env) (p : Block) :
    (execB env none {} p).2 = .stuck ∨ (execB env none {} p).2 = pureB p := execB_outcome env none {} p

/-- Two arbitrary environments never make a program end differently. -/
theorem outcome_env_independent (env₁ env₂ : Env) (p : Block)
    (h1 : (execB env₁ none {} p).2 ≠ .stuck) (h2 : (execB env₂ none {} p).2 ≠ .stuck) :
    (execB env₁ none {} p).2 = (execB env₂ none {} p).2 := by
  rcases app_outcome_unchanged env₁ p with h | h
  · exact absurd h h1
  · rcases app_outcome_unchanged env₂ p with h' | h'
    · exact absurd h' h2
    · rw [h, h']

/-- **exc_identity** (also C03): the exception leaving a `with` block is the one its body raised. -/
theorem exc_identity (env : Env) (w : World) (h : Nat) (run : World → World × Outcome) :
    (withBlock env w h run).2 = (run { w with ctx := some h }).2 := rfl

/-! ## Non-vacuity: a failing action inside try/except, a broken destination, str() that raises -/
def exEnv : Env where
  classOf := fun _ => 0
  mro := fun c => [c]
  qualname := fun _ => "m.C"
  strOf := fun _ => none
  keyErrorClass := 1
  extractor := fun c => if c = 0 then some (fun _ k => if k = 0 then Except.error (Exc.user 8) else Except.ok []) else none
  serialize := fun _ _ _ => Except.error (Exc.user 9)
  destFails := fun _ _ => some (Exc.user 7)
def exProg : Block :=
  .cons (.addDests [0]) (.cons (.withAction false { atype := "a", fields := [("x", .nat 1)], sers := some ([("x", 0)], []) }
    (.cons (.log { mtype := "m" }) (.cons (.raise 3) .nil))) .nil)
example : (execB exEnv none {} exProg).2 = .raised (.user 3) ∧ pureB exProg = .raised (.user 3) ∧
    4 < (execB exEnv none {} exProg).1.stage.length := by decide +kernel

end Sys.C07
