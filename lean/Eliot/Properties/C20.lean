import Eliot.Model.Pretty
/-! # C20 — bundled readers render every message completely and survive foreign input

Model: `Eliot/Model/Pretty.lean` (`prettyFormat`, `compactFormat`, `cliLine`/`cliRun` = the body of
`eliot.prettyprint._main`, `filterLine`/`filterRun` = `EliotFilter.run`), all for an arbitrary `Env`
(pprint, json, str, datetime are parameters).  Messages are association lists as `json.loads`
returns them: `NodupKeys`.

Status on the current tree (after the fix 36c5d35 of `_main`)
* `header_first`, `header_then_all_fields_once`, `filter_identity`, `filter_skip` hold as stated.
* `compact_single_line` needs the hypothesis that no field *name* contains a newline (witness
  `compact_not_single_line_newline_in_key` shows it is necessary).
* `cli_total` now holds for every input line — JSON values that are not objects, ill-typed
  `task_level` / `timestamp`, absurdly nested JSON are all reported — under the hypothesis
  `StdlibOK` on the *library parameters*: `json.loads` raises nothing but `ValueError` /
  `RecursionError`, `datetime` and `pprint.pformat` raise nothing outside
  `(TypeError, ValueError, OverflowError, OSError)`.  The `pformat` part is not true of CPython:
  `pprint` recurses in Python and raises `RecursionError` on a value nested a few hundred deep that
  `json.loads` still accepts; `cli_aborts_on_pformat_recursion` shows the program then aborts
  (pretty format only).
-/
namespace PP

def keys (m : Fields) : List Text := m.map (·.1)
def NodupKeys (m : Fields) : Prop := (keys m).Nodup

/-! ## Dict and sorting facts -/

theorem get?_of_mem_nodup : ∀ (m : Fields) (k : Text) (v : JVal), NodupKeys m → (k, v) ∈ m → get? m k = some v
  | [], _, _, _, h => by cases h
  | (k', v') :: rest, k, v, hn, h => by
    simp only [NodupKeys, keys, List.map_cons, List.nodup_cons] at hn
    cases h with
    | head => simp [get?]
    | tail _ h =>
      have hne : k' ≠ k := by
        intro e
        subst e
        exact hn.1 (List.mem_map.mpr ⟨(k', v), h, rfl⟩)
      simp only [get?, hne, if_false]
      exact get?_of_mem_nodup rest k v hn.2 h

theorem mem_of_get? : ∀ (m : Fields) (k : Text) (v : JVal), get? m k = some v → (k, v) ∈ m
  | [], _, _, h => by simp [get?] at h
  | (k', v') :: rest, k, v, h => by
    by_cases hk : k' = k
    · simp [get?, hk] at h
      simp [hk, h]
    · simp only [get?, hk, if_false] at h
      exact List.mem_cons_of_mem _ (mem_of_get? rest k v h)

theorem insertItem_perm (e : Text × JVal) : ∀ xs : Fields, (insertItem e xs).Perm (e :: xs)
  | [] => List.Perm.refl _
  | x :: xs => by
    unfold insertItem
    split
    · exact List.Perm.refl _
    · exact ((insertItem_perm e xs).cons x).trans (List.Perm.swap e x xs)

theorem sortItems_perm : ∀ m : Fields, (sortItems m).Perm m
  | [] => List.Perm.refl _
  | e :: es => (insertItem_perm e (sortItems es)).trans ((sortItems_perm es).cons e)

theorem count_one_of_nodup_mem {k : Text} : ∀ {l : List Text}, l.Nodup → k ∈ l → l.count k = 1
  | [], _, h => by cases h
  | x :: xs, hn, h => by
    simp only [List.nodup_cons] at hn
    by_cases hx : x = k
    · subst hx
      have : xs.count x = 0 := List.count_eq_zero.mpr hn.1
      simp [this]
    · have hmem : k ∈ xs := by
        cases h with
        | head => exact absurd rfl hx
        | tail _ h => exact h
      have hb : (x == k) = false := by simpa using hx
      simp [List.count_cons, hb, count_one_of_nodup_mem hn.2 hmem]

theorem count_keys_filter (q : Text → Bool) (k : Text) : ∀ l : Fields,
    ((l.filter fun e => q e.1).map (·.1)).count k = if q k then (l.map (·.1)).count k else 0
  | [] => by simp
  | (k', v) :: rest => by
    have ih := count_keys_filter q k rest
    by_cases hq' : q k' = true
    · simp only [List.filter_cons, hq', if_true, List.map_cons, List.count_cons, ih]
      by_cases hk : k' = k
      · subst hk; simp [hq']
      · have hb : (k' == k) = false := by simpa using hk
        simp only [hb]
        split <;> simp
    · have hq'' : q k' = false := by simpa using hq'
      simp only [List.filter_cons, hq'', Bool.false_eq_true, if_false, List.map_cons, List.count_cons, ih]
      by_cases hk : k' = k
      · subst hk; simp [hq'']
      · have hb : (k' == k) = false := by simpa using hk
        simp [hb]

theorem keys_filterMap_first (m : Fields) : ∀ l : List Text,
    (l.filterMap fun f => (get? m f).map fun v => (f, v)).map (·.1) = l.filter fun f => (get? m f).isSome
  | [] => rfl
  | f :: fs => by
    cases h : get? m f with
    | none => simp [List.filterMap_cons, h, keys_filterMap_first m fs]
    | some v => simp [List.filterMap_cons, h, keys_filterMap_first m fs]

theorem textLt_irrefl : ∀ a : Text, textLt a a = false
  | [] => rfl
  | x :: xs => by simp [textLt, textLt_irrefl xs]

theorem textLt_trans : ∀ {a b c : Text}, textLt a b = true → textLt b c = true → textLt a c = true
  | [], [], _, h, _ => by simp [textLt] at h
  | [], _ :: _, [], _, h => by simp [textLt] at h
  | [], _ :: _, _ :: _, _, _ => rfl
  | _ :: _, [], _, h, _ => by simp [textLt] at h
  | _ :: _, _ :: _, [], _, h => by simp [textLt] at h
  | x :: xs, y :: ys, z :: zs, h1, h2 => by
    simp only [textLt] at h1 h2 ⊢
    by_cases hxy : x < y
    · by_cases hyz : y < z
      · have : x < z := by omega
        simp [this]
      · by_cases hzy : z < y
        · simp [hyz, hzy] at h2
        · have : y = z := by omega
          subst this; simp [hxy]
    · by_cases hyx : y < x
      · simp [hxy, hyx] at h1
      · have : x = y := by omega
        subst this
        simp only [Nat.lt_irrefl, if_false] at h1
        by_cases hyz : x < z
        · simp [hyz]
        · by_cases hzy : z < x
          · simp [hyz, hzy] at h2
          · simp only [hyz, hzy, if_false] at h2 ⊢
            exact textLt_trans h1 h2

/-- `a ≤ b` in Python's `str` order -/
def textLe (a b : Text) : Prop := textLt b a = false

theorem textLe_of_lt {a b : Text} (h : textLt a b = true) : textLe a b := by
  unfold textLe
  cases hb : textLt b a with
  | false => rfl
  | true =>
    have := textLt_trans h hb
    rw [textLt_irrefl] at this
    cases this

theorem textLe_of_lt_of_le {a b c : Text} (h1 : textLt a b = true) (h2 : textLe b c) : textLe a c := by
  unfold textLe at *
  cases hc : textLt c a with
  | false => rfl
  | true =>
    have := textLt_trans hc h1
    rw [h2] at this
    cases this

theorem insertItem_sorted (e : Text × JVal) : ∀ xs : Fields,
    xs.Pairwise (fun a b => textLe a.1 b.1) → (insertItem e xs).Pairwise (fun a b => textLe a.1 b.1)
  | [], _ => by simp [insertItem]
  | x :: xs, h => by
    obtain ⟨hx, hxs⟩ := List.pairwise_cons.mp h
    unfold insertItem
    split
    · rename_i hlt
      refine List.pairwise_cons.mpr ⟨?_, h⟩
      intro y hy
      cases hy with
      | head => exact textLe_of_lt hlt
      | tail _ hy => exact textLe_of_lt_of_le hlt (hx y hy)
    · rename_i hlt
      refine List.pairwise_cons.mpr ⟨?_, insertItem_sorted e xs hxs⟩
      intro y hy
      have := (insertItem_perm e xs).mem_iff.mp hy
      cases this with
      | head => simpa [textLe] using hlt
      | tail _ hy => exact hx y hy

theorem sortItems_sorted : ∀ m : Fields, (sortItems m).Pairwise (fun a b => textLe a.1 b.1)
  | [] => List.Pairwise.nil
  | e :: es => insertItem_sorted e _ (sortItems_sorted es)

/-- The non-skip fields are shown in ascending key order (Python's `str` order). -/
theorem shown_rest_sorted (m : Fields) :
    (((sortItems m).filter fun e => !skipFields.contains e.1).map (·.1)).Pairwise textLe := by
  have h := (sortItems_sorted m).filter (fun e => !skipFields.contains e.1)
  exact List.pairwise_map.mpr h

/-- the keys shown after the header -/
def shownKeys (m : Fields) : List Text := (shown m).map (·.1)

theorem shownKeys_eq (m : Fields) :
    shownKeys m = (firstFields.filter fun f => (get? m f).isSome)
      ++ ((sortItems m).filter fun e => !skipFields.contains e.1).map (·.1) := by
  simp only [shownKeys, shown, List.map_append, keys_filterMap_first]

/-! ## `header_first` -/

/-- `pretty_format` output = `str(task_uuid)`, `" -> "`, the `/`-joined `str` of the level's elements, a
newline, the timestamp line, a newline, then the fields; the UTC timestamp line is the `isoformat()`
text followed by `Z`.  (That the `isoformat()` text has microsecond precision is a fact about
`datetime`, checked by the harness oracle, not a theorem.) -/
theorem header_first (E : Env) (m : Fields) (localTz : Bool) (out : Text) (h : prettyFormat E m localTz = .ok out) :
    ∃ uuid lv xs iso body, get? m kTaskUuid = some uuid ∧ get? m kTaskLevel = some lv ∧ iterOf lv = some xs
      ∧ (∃ tv, get? m kTimestamp = some tv ∧ E.isoTime tv localTz = .ok iso)
      ∧ prettyBody E m = .ok body
      ∧ out = E.pyStr uuid ++ t " -> " ++ (t "/" ++ join (t "/") (xs.map E.pyStr)) ++ [10]
              ++ (if localTz then iso else iso ++ t "Z") ++ [10] ++ body := by
  unfold prettyFormat at h
  split at h
  · cases h
  · rename_i body hbody
    split at h
    · cases h
    · rename_i level hl
      split at h
      · cases h
      · rename_i uuid hu
        split at h
        · cases h
        · rename_i ts hts
          cases h
          unfold levelText at hl
          split at hl
          · cases hl
          · rename_i lv hlv
            split at hl
            · cases hl
            · rename_i xs hxs
              cases hl
              unfold uuidText at hu
              split at hu
              · cases hu
              · rename_i uv huv
                cases hu
                unfold renderTimestamp at hts
                split at hts
                · cases hts
                · rename_i tv htv
                  split at hts
                  · cases hts
                  · rename_i iso hiso
                    cases hts
                    exact ⟨uv, lv, xs, iso, body, huv, hlv, hxs, ⟨tv, htv, hiso⟩, hbody, rfl⟩

/-- The same for `compact_format`: `str(task_uuid)` immediately followed by the level, a blank, the
timestamp, a blank, the parts. -/
theorem header_first_compact (E : Env) (m : Fields) (localTz : Bool) (out : Text) (h : compactFormat E m localTz = .ok out) :
    ∃ uuid lv xs iso, get? m kTaskUuid = some uuid ∧ get? m kTaskLevel = some lv ∧ iterOf lv = some xs
      ∧ (∃ tv, get? m kTimestamp = some tv ∧ E.isoTime tv localTz = .ok iso)
      ∧ out = E.pyStr uuid ++ (t "/" ++ join (t "/") (xs.map E.pyStr)) ++ t " "
              ++ (if localTz then iso else iso ++ t "Z") ++ t " " ++ compactBody E m := by
  unfold compactFormat at h
  split at h
  · cases h
  · rename_i uuid hu
    split at h
    · cases h
    · rename_i level hl
      split at h
      · cases h
      · rename_i ts hts
        cases h
        unfold levelText at hl
        split at hl
        · cases hl
        · rename_i lv hlv
          split at hl
          · cases hl
          · rename_i xs hxs
            cases hl
            unfold uuidText at hu
            split at hu
            · cases hu
            · rename_i uv huv
              cases hu
              unfold renderTimestamp at hts
              split at hts
              · cases hts
              · rename_i tv htv
                split at hts
                · cases hts
                · rename_i iso hiso
                  cases hts
                  exact ⟨uv, lv, xs, iso, huv, hlv, hxs, ⟨tv, htv, hiso⟩, rfl⟩

/-! ## `header_then_all_fields_once` -/

/-- the text `pformat` returned (empty when it raised) -/
def pformatOf (E : Env) (v : JVal) : Text :=
  match E.pformat v with
  | .ok p => p
  | .error _ => []

theorem bodyOf_ok (E : Env) : ∀ (es : Fields) (body : Text), bodyOf E es = .ok body →
    body = es.flatMap (fun e => addFieldText e.1 (pformatOf E e.2)) ∧ ∀ e ∈ es, E.pformat e.2 = .ok (pformatOf E e.2)
  | [], body, h => by simp [bodyOf] at h; subst h; simp
  | e :: es, body, h => by
    unfold bodyOf at h
    split at h
    · cases h
    · rename_i a ha
      split at h
      · cases h
      · rename_i r hr
        cases h
        obtain ⟨hr1, hr2⟩ := bodyOf_ok E es r hr
        unfold addField at ha
        split at ha
        · cases ha
        · rename_i p hp
          cases ha
          have hpf : pformatOf E e.2 = p := by simp [pformatOf, hp]
          refine ⟨by simp [List.flatMap_cons, hpf, hr1], ?_⟩
          intro x hx
          cases hx with
          | head => rw [hpf]; exact hp
          | tail _ hx => exact hr2 x hx

/-- After the header both formats show exactly the pairs `shown m`, each through `add_field` / as
`key=dumps(value)`; `shown m` lists `action_type, message_type, action_status` (those present) and
then the remaining non-skip keys; every non-skip key of the message and every present first field
occurs exactly once, with the message's value, and nothing else occurs. -/
theorem header_then_all_fields_once (E : Env) (m : Fields) (hn : NodupKeys m) :
    (∀ body, prettyBody E m = .ok body →
        body = (shown m).flatMap (fun e => addFieldText e.1 (pformatOf E e.2)) ∧ ∀ e ∈ shown m, E.pformat e.2 = .ok (pformatOf E e.2))
    ∧ compactBody E m = join (t " ") ((shown m).map fun e => e.1 ++ t "=" ++ E.dumps e.2)
    ∧ shownKeys m = (firstFields.filter fun f => (get? m f).isSome)
        ++ ((sortItems m).filter fun e => !skipFields.contains e.1).map (·.1)
    ∧ (∀ k, k ∈ keys m → k ∉ skipFields → (shownKeys m).count k = 1)
    ∧ (∀ f, f ∈ firstFields → f ∈ keys m → (shownKeys m).count f = 1)
    ∧ (∀ k v, (k, v) ∈ shown m → get? m k = some v)
    ∧ (∀ k, k ∈ shownKeys m → k ∈ keys m ∧ (k ∈ firstFields ∨ k ∉ skipFields)) := by
  have hperm := sortItems_perm m
  have hcountSorted : ∀ k, ((sortItems m).map (·.1)).count k = (keys m).count k :=
    fun k => (hperm.map (·.1)).count_eq k
  refine ⟨fun body hb => bodyOf_ok E (shown m) body hb, rfl, shownKeys_eq m, ?_, ?_, ?_, ?_⟩
  · intro k hk hskip
    rw [shownKeys_eq, List.count_append]
    have h1 : (firstFields.filter fun f => (get? m f).isSome).count k = 0 := by
      apply List.count_eq_zero.mpr
      intro hmem
      have : k ∈ firstFields := (List.mem_filter.mp hmem).1
      have hsub : ∀ f ∈ firstFields, f ∈ skipFields := by decide
      exact hskip (hsub k this)
    have h2 := count_keys_filter (fun k => !skipFields.contains k) k (sortItems m)
    have hq : (!skipFields.contains k) = true := by simpa using hskip
    rw [h1, h2, hq, if_pos rfl, hcountSorted, count_one_of_nodup_mem hn hk]
  · intro f hf hk
    rw [shownKeys_eq, List.count_append]
    have hsub : ∀ f ∈ firstFields, f ∈ skipFields := by decide
    have h2 := count_keys_filter (fun k => !skipFields.contains k) f (sortItems m)
    have hq : (!skipFields.contains f) = false := by simpa using hsub f hf
    rw [h2, hq]
    simp only [Bool.false_eq_true, if_false, Nat.add_zero]
    have hpres : (get? m f).isSome = true := by
      simp only [keys, List.mem_map] at hk
      obtain ⟨⟨k', v⟩, hmem, rfl⟩ := hk
      rw [get?_of_mem_nodup m k' v hn hmem]; rfl
    rw [List.count_filter (by simpa using hpres)]
    exact count_one_of_nodup_mem (by decide) hf
  · intro k v hmem
    simp only [shown, List.mem_append, List.mem_filterMap, List.mem_filter] at hmem
    rcases hmem with ⟨f, _, hf⟩ | ⟨hs, _⟩
    · cases hg : get? m f with
      | none => simp [hg] at hf
      | some v' =>
        simp [hg] at hf
        obtain ⟨rfl, rfl⟩ := hf
        exact hg
    · exact get?_of_mem_nodup m k v hn (hperm.mem_iff.mp hs)
  · intro k hk
    rw [shownKeys_eq, List.mem_append] at hk
    rcases hk with hk | hk
    · obtain ⟨hf, hs⟩ := List.mem_filter.mp hk
      refine ⟨?_, Or.inl hf⟩
      cases hg : get? m k with
      | none => simp [hg] at hs
      | some v => exact List.mem_map.mpr ⟨(k, v), mem_of_get? m k v hg, rfl⟩
    · obtain ⟨⟨k', v⟩, hmem, rfl⟩ := List.mem_map.mp hk
      obtain ⟨hs, hq⟩ := List.mem_filter.mp hmem
      refine ⟨List.mem_map.mpr ⟨(k', v), hperm.mem_iff.mp hs, rfl⟩, Or.inr ?_⟩
      simpa using hq

/-! ## `compact_single_line` -/

theorem not_mem_join (sep : Text) (c : Nat) (hs : c ∉ sep) : ∀ parts : List Text, (∀ p ∈ parts, c ∉ p) → c ∉ join sep parts
  | [], _ => by simp [join]
  | [p], h => by simpa [join] using h p (by simp)
  | p :: q :: ps, h => by
    have ih := not_mem_join sep c hs (q :: ps) (fun x hx => h x (List.mem_cons_of_mem _ hx))
    simp only [join, List.mem_append, not_or]
    exact ⟨⟨h p (by simp), hs⟩, ih⟩

/-
Full statement — FALSE without the hypothesis on the keys (witness below):
theorem compact_single_line : compactFormat E m l = .ok out → 10 ∉ out
-/

/-- The compact form is one line — provided no field name contains a newline, and `json.dumps`,
`str` of the uuid and of the level elements, and the `isoformat()` text do not (the latter four are
facts about the standard library on Eliot-emitted values). -/
theorem compact_single_line (E : Env) (m : Fields) (localTz : Bool) (out : Text) (hn : NodupKeys m)
    (h : compactFormat E m localTz = .ok out)
    (hkeys : ∀ k ∈ keys m, 10 ∉ k)
    (hdumps : ∀ v, 10 ∉ E.dumps v)
    (huuid : ∀ v, get? m kTaskUuid = some v → 10 ∉ E.pyStr v)
    (hlevel : ∀ lv xs, get? m kTaskLevel = some lv → iterOf lv = some xs → ∀ x ∈ xs, 10 ∉ E.pyStr x)
    (hiso : ∀ v s, E.isoTime v localTz = .ok s → 10 ∉ s) :
    10 ∉ out ∧ compactBody E m = join (t " ") ((shown m).map fun e => e.1 ++ t "=" ++ E.dumps e.2) := by
  refine ⟨?_, rfl⟩
  obtain ⟨uuid, lv, xs, iso, hu, hl, hx, ⟨tv, _, hi⟩, rfl⟩ := header_first_compact E m localTz out h
  have hbody : 10 ∉ compactBody E m := by
    unfold compactBody
    apply not_mem_join _ _ (by decide)
    intro p hp
    obtain ⟨⟨k, v⟩, hmem, rfl⟩ := List.mem_map.mp hp
    have hk : k ∈ keys m := by
      have := (header_then_all_fields_once E m hn).2.2.2.2.2.2 k (List.mem_map.mpr ⟨(k, v), hmem, rfl⟩)
      exact this.1
    simp only [compactPart, List.mem_append, not_or]
    exact ⟨⟨hkeys k hk, by decide⟩, hdumps v⟩
  have hlev : 10 ∉ join (t "/") (xs.map E.pyStr) := by
    apply not_mem_join _ _ (by decide)
    intro p hp
    obtain ⟨x, hxm, rfl⟩ := List.mem_map.mp hp
    exact hlevel lv xs hl hx x hxm
  have hts : 10 ∉ (if localTz then iso else iso ++ t "Z") := by
    split
    · exact hiso tv iso hi
    · simp only [List.mem_append, not_or]
      exact ⟨hiso tv iso hi, by decide⟩
  have h1 : (10 : Nat) ∉ t "/" := by decide
  have h2 : (10 : Nat) ∉ t " " := by decide
  simp only [List.mem_append, not_or]
  exact ⟨⟨⟨⟨⟨huuid uuid hu, h1, hlev⟩, h2⟩, hts⟩, h2⟩, hbody⟩

/-- an environment whose renderings never contain a newline -/
def flatEnv : Env where
  pformat := fun _ => .ok (t "v")
  dumps := fun _ => t "1"
  pyStr := fun _ => t "u"
  isoTime := fun _ _ => .ok (t "1970-01-01T00:00:01")
  loads := fun _ => .notJson
  reprBytes := fun _ => t "b''"
  filterDumps := fun _ => .ok (t "1")
  encodable := fun _ => true
  backslashreplace := fun s => s

/-- `{"task_uuid":"u","task_level":[1],"timestamp":1.0,"a\nb":1}` — every rendering is newline-free,
the compact output is not. -/
theorem compact_not_single_line_newline_in_key :
    ∃ (m : Fields) (out : Text), NodupKeys m ∧ compactFormat flatEnv m false = .ok out ∧ 10 ∈ out :=
  ⟨[(kTaskUuid, .str (t "u")), (kTaskLevel, .arr [.int 1]), (kTimestamp, .num (t "1.0")), ([97, 10, 98], .int 1)],
   _, by unfold NodupKeys; decide, rfl, by decide⟩

/-! ## `cli_total` -/

def Out.isAbort : Out → Bool
  | .aborts _ => true
  | _ => false

/-- What `_main` relies on about the standard library: `json.loads` raises nothing but `ValueError`
(= `notJson`) and `RecursionError`; `datetime.(utc)fromtimestamp` and `pprint.pformat` raise nothing
outside `(TypeError, ValueError, OverflowError, OSError)`. -/
structure StdlibOK (E : Env) : Prop where
  loads : ∀ line e, E.loads line = .raises e → e = .recursionError
  isoTime : ∀ v l e, E.isoTime v l = .error e → caught e = true
  pformat : ∀ v e, E.pformat v = .error e → caught e = true
  /-- the two report lines (`repr` of a bytes object after an ASCII prefix) can be written to stdout -/
  reports : ∀ b, E.encodable (t "Not JSON: " ++ E.reprBytes b ++ [10, 10]) = true
              ∧ E.encodable (t "Not an Eliot message: " ++ E.reprBytes b ++ [10, 10]) = true
  /-- what `backslashreplace` produces can be encoded -/
  escaped : ∀ s, E.encodable (E.backslashreplace s) = true

theorem has_all_required {m : Fields} (h : (requiredFields.any fun r => !has m r) = false) :
    (∃ v, get? m kTaskLevel = some v) ∧ (∃ v, get? m kTaskUuid = some v) ∧ (∃ v, get? m kTimestamp = some v) := by
  simp only [requiredFields, List.any_cons, List.any_nil, Bool.or_false, Bool.or_eq_false_iff, Bool.not_eq_false', has,
    Option.isSome_iff_exists] at h
  exact h

theorem bodyOf_error (E : Env) : ∀ (es : Fields) (e : Exc), bodyOf E es = .error e → ∃ v, E.pformat v = .error e
  | [], e, h => by simp [bodyOf] at h
  | x :: xs, e, h => by
    unfold bodyOf at h
    split at h
    · rename_i err ha
      cases h
      unfold addField at ha
      split at ha
      · rename_i e' he'; cases ha; exact ⟨x.2, he'⟩
      · cases ha
    · split at h
      · rename_i err hr; cases h; exact bodyOf_error E xs _ hr
      · cases h

/-- Where an exception of a formatter can come from, for a message that has the three required fields:
a `task_level` that cannot be iterated (`TypeError`), `datetime`, or (pretty only) `pformat`. -/
theorem format_error_cases (E : Env) (compact localTz : Bool) (m : Fields) (e : Exc)
    (hreq : (requiredFields.any fun r => !has m r) = false)
    (h : (if compact then compactFormat E m localTz else prettyFormat E m localTz) = .error e) :
    e = .typeError ∨ (∃ v l, E.isoTime v l = .error e) ∨ (compact = false ∧ ∃ v, E.pformat v = .error e) := by
  obtain ⟨⟨lv, hlv⟩, ⟨uv, huv⟩, ⟨tv, htv⟩⟩ := has_all_required hreq
  have hlevel : ∀ x, levelText E m = .error x → x = .typeError := by
    intro x hx
    unfold levelText at hx
    rw [hlv] at hx
    simp only at hx
    split at hx
    · cases hx; rfl
    · cases hx
  have huuid : ∀ x, uuidText E m ≠ .error x := by
    intro x hx
    simp [uuidText, huv] at hx
  have hts : ∀ x, renderTimestamp E m localTz = .error x → E.isoTime tv localTz = .error x := by
    intro x hx
    unfold renderTimestamp at hx
    rw [htv] at hx
    simp only at hx
    split at hx
    · rename_i e' he'; cases hx; exact he'
    · cases hx
  cases compact with
  | true =>
    simp only [if_true] at h
    unfold compactFormat at h
    split at h
    · rename_i x hx; exact absurd hx (huuid x)
    · split at h
      · rename_i x hx; cases h; exact Or.inl (hlevel _ hx)
      · split at h
        · rename_i x hx; cases h; exact Or.inr (Or.inl ⟨tv, localTz, hts _ hx⟩)
        · cases h
  | false =>
    simp only [Bool.false_eq_true, if_false] at h
    unfold prettyFormat at h
    split at h
    · rename_i x hx; cases h
      exact Or.inr (Or.inr ⟨rfl, bodyOf_error E _ _ hx⟩)
    · split at h
      · rename_i x hx; cases h; exact Or.inl (hlevel _ hx)
      · split at h
        · rename_i x hx; exact absurd hx (huuid x)
        · split at h
          · rename_i x hx; cases h; exact Or.inr (Or.inl ⟨tv, localTz, hts _ hx⟩)
          · cases h

theorem report_ok (E : Env) (mk : Text → Out) (s : Text) (h : E.encodable s = true) : report E mk s = mk s := by
  simp [report, write, h]

/-- the guarded write of a rendering never aborts once `backslashreplace` output is encodable; what is
written is the rendering itself when stdout can encode it, else its escaped form -/
theorem writeResult_spec (E : Env) (hesc : ∀ s, E.encodable (E.backslashreplace s) = true) (s : Text) :
    writeResult E s = .formatted (if E.encodable s then s else E.backslashreplace s) := by
  unfold writeResult write
  by_cases h : E.encodable s = true
  · simp [h]
  · simp [h, hesc]

/-- **`cli_total`.**  For every input line whatsoever — arbitrary bytes, any JSON value, objects with
or without the required fields, well or ill typed, with text stdout cannot encode in names, uuid or
level — the program writes a formatted message, a `Not JSON` report or a `Not an Eliot message` report,
and goes on; it never aborts. -/
theorem cli_total (E : Env) (hE : StdlibOK E) (compact localTz : Bool) (line : Bytes) :
    (cliLine E compact localTz line).isAbort = false := by
  have hNJ := report_ok E Out.notJson _ (hE.reports (rstripNl line)).1
  have hNE := report_ok E Out.notEliot _ (hE.reports (rstripNl line)).2
  unfold cliLine
  simp only [hNJ, hNE]
  split
  · rfl
  · rename_i e hl
    rw [hE.loads line e hl]
    simp [Out.isAbort]
  · rename_i m hl
    split
    · rfl
    · rename_i hreq
      have hreq' : (requiredFields.any fun r => !has m r) = false := by simpa using hreq
      split
      · rw [writeResult_spec E hE.escaped]; rfl
      · rename_i e he
        have hc : caught e = true := by
          rcases format_error_cases E compact localTz m e hreq' he with h | ⟨v, l, h⟩ | ⟨-, v, h⟩
          · subst h; rfl
          · exact hE.isoTime v l e h
          · exact hE.pformat v e h
        simp [hc, Out.isAbort]
  · rfl

/-- Whole stream: every line is read, one chunk is written per line, the program ends normally. -/
theorem cli_run_total (E : Env) (hE : StdlibOK E) (compact localTz : Bool) : ∀ (lines : List Bytes),
    (cliRun E compact localTz lines).2 = none ∧ (cliRun E compact localTz lines).1.length = lines.length
  | [] => by simp [cliRun]
  | l :: ls => by
    have h1 := cli_total E hE compact localTz l
    have ih := cli_run_total E hE compact localTz ls
    unfold cliRun
    cases hc : cliLine E compact localTz l with
    | aborts e => rw [hc] at h1; cases h1
    | formatted s => simp [ih]
    | notJson s => simp [ih]
    | notEliot s => simp [ih]

/-- A message whose rendering stdout cannot encode (a lone surrogate in a field name, the task uuid
or a level element) is written in escaped form, for every `Env` whose `backslashreplace` output is
encodable (it used to abort the program with `UnicodeEncodeError`). -/
theorem cli_escapes_unencodable (E : Env) (hesc : ∀ s, E.encodable (E.backslashreplace s) = true)
    (compact localTz : Bool) (line : Bytes) (m : Fields) (s : Text)
    (hl : E.loads line = .value (.obj m)) (hreq : (requiredFields.any fun r => !has m r) = false)
    (hf : (if compact then compactFormat E m localTz else prettyFormat E m localTz) = .ok s)
    (hbad : E.encodable (s ++ [10]) = false) :
    cliLine E compact localTz line = .formatted (E.backslashreplace (s ++ [10])) := by
  unfold cliLine
  simp only [hl, hreq, Bool.false_eq_true, if_false, hf]
  rw [writeResult_spec E hesc]
  simp [hbad]

/-- `[1,2]`, `5`, `"s"`, `null`, `true`: a JSON value that is not an object is reported, for every `Env`
that can write the report (it used to abort the program with `AttributeError`). -/
theorem cli_reports_non_object (E : Env) (compact localTz : Bool) (line : Bytes) (v : JVal)
    (hl : E.loads line = .value v) (hv : ∀ m, v ≠ .obj m)
    (henc : E.encodable (t "Not an Eliot message: " ++ E.reprBytes (rstripNl line) ++ [10, 10]) = true) :
    cliLine E compact localTz line = .notEliot (t "Not an Eliot message: " ++ E.reprBytes (rstripNl line) ++ [10, 10]) := by
  unfold cliLine
  simp only [report_ok E Out.notEliot _ henc]
  rw [hl]
  cases v with
  | obj m => exact absurd rfl (hv m)
  | _ => rfl

/-- An object with the three required fields whose `task_level` is a number, `null` or a boolean is
reported, in the compact format for every such `Env`, in the pretty format whenever `pformat` copes with
the values (it used to abort with `TypeError`). -/
theorem cli_reports_bad_task_level (E : Env) (localTz : Bool) (line : Bytes) (m : Fields) (lv : JVal)
    (hl : E.loads line = .value (.obj m)) (hreq : (requiredFields.any fun r => !has m r) = false)
    (hlv : get? m kTaskLevel = some lv) (hit : iterOf lv = none)
    (henc : E.encodable (t "Not an Eliot message: " ++ E.reprBytes (rstripNl line) ++ [10, 10]) = true) :
    cliLine E true localTz line = .notEliot (t "Not an Eliot message: " ++ E.reprBytes (rstripNl line) ++ [10, 10])
    ∧ (∀ body, prettyBody E m = .ok body →
        cliLine E false localTz line = .notEliot (t "Not an Eliot message: " ++ E.reprBytes (rstripNl line) ++ [10, 10])) := by
  obtain ⟨-, ⟨uv, huv⟩, -⟩ := has_all_required hreq
  constructor
  · unfold cliLine
    simp only [report_ok E Out.notEliot _ henc]
    rw [hl]
    simp [hreq, compactFormat, levelText, uuidText, hlv, hit, huv, caught]
  · intro body hb
    unfold cliLine
    simp only [report_ok E Out.notEliot _ henc]
    rw [hl]
    simp [hreq, prettyFormat, hb, levelText, hlv, hit, caught]

/-- The remaining way to abort `eliot-prettyprint` (pretty format): `pprint.pformat` raising
`RecursionError` on a field value — a genuine Eliot message with one value nested deeper than Python's
recursion limit allows `pprint` to follow, though `json.loads` accepted it. -/
theorem cli_aborts_on_pformat_recursion (E : Env) (localTz : Bool) (line : Bytes) (m : Fields) (k : Text) (v : JVal)
    (hl : E.loads line = .value (.obj m)) (hreq : (requiredFields.any fun r => !has m r) = false)
    (hmem : (k, v) ∈ shown m) (hrec : ∀ x, E.pformat x = .error .recursionError ∨ ∃ p, E.pformat x = .ok p)
    (hv : E.pformat v = .error .recursionError) :
    cliLine E false localTz line = .aborts .recursionError := by
  have hbody : ∀ es : Fields, (k, v) ∈ es → bodyOf E es = .error .recursionError := by
    intro es
    induction es with
    | nil => intro h; cases h
    | cons x xs ih =>
      intro h
      unfold bodyOf
      rcases hrec x.2 with hx | ⟨p, hx⟩
      · simp [addField, hx]
      · have hmem' : (k, v) ∈ xs := by
          cases h with
          | head => rw [hv] at hx; cases hx
          | tail _ h => exact h
        simp [addField, hx, ih hmem']
  unfold cliLine
  rw [hl]
  simp [hreq, prettyFormat, prettyBody, hbody (shown m) hmem, caught]

/-- an environment whose `pformat` gives up on arrays -/
def deepEnv : Env := { flatEnv with
  pformat := fun v => match v with | .arr _ => .error .recursionError | _ => .ok (t "v")
  loads := fun _ => .value (.obj [(kTaskUuid, .str (t "u")), (kTaskLevel, .arr [.int 1]), (kTimestamp, .num (t "1.0")), (t "x", .arr [])]) }

/-- The hypothesis `StdlibOK.pformat` of `cli_total` is necessary. -/
theorem cli_total_needs_pformat :
    ¬ (∀ (E : Env), (∀ line e, E.loads line = .raises e → e = .recursionError) →
        (∀ v l e, E.isoTime v l = .error e → caught e = true) →
        (∀ s, E.encodable s = true) →
        ∀ (compact localTz : Bool) (line : Bytes), (cliLine E compact localTz line).isAbort = false) := by
  intro h
  have := h deepEnv (by intro line e he; simp [deepEnv] at he) (by intro v l e he; simp [deepEnv, flatEnv] at he)
    (by intro s; rfl) false false []
  rw [cli_aborts_on_pformat_recursion deepEnv false [] _ (t "x") (.arr []) rfl (by decide)
    (by rw [show shown _ = [(t "x", JVal.arr [])] from rfl]; exact List.mem_singleton.mpr rfl)
    (by intro x; cases x <;> simp [deepEnv]) rfl] at this
  cases this

/-! ## The filter -/

/-- what `eliot.filter` writes for one line (nothing when skipped) -/
def lineOut (E : Env) (expr : JVal → Except Exc (Option JVal)) (line : Bytes) : Option Text :=
  match filterLine E expr line with
  | .wrote s => some s
  | _ => none

/-- The identity expression `J` writes, for every line, the JSON encoding of the decoded line. -/
theorem filter_identity (E : Env) (line : Bytes) (v : JVal) (s : Text)
    (hl : E.loads line = .value v) (hd : E.filterDumps v = .ok s) :
    filterLine E (fun j => .ok (some j)) line = .wrote (s ++ [10]) := by
  simp [filterLine, hl, hd]

/-- Stream level: when no line aborts, the output is, in order, the encodings of the expression's
value for exactly the lines the expression does not `SKIP`. -/
theorem filter_skip (E : Env) (expr : JVal → Except Exc (Option JVal)) : ∀ (lines : List Bytes),
    (∀ l ∈ lines, ∀ e, filterLine E expr l ≠ .aborts e) →
    filterRun E expr lines = (lines.filterMap (lineOut E expr), none)
  | [], _ => rfl
  | l :: ls, h => by
    have ih := filter_skip E expr ls (fun x hx => h x (List.mem_cons_of_mem _ hx))
    unfold filterRun
    cases hc : filterLine E expr l with
    | aborts e => exact absurd hc (h l (by simp) e)
    | skipped => simp [ih, List.filterMap_cons, lineOut, hc]
    | wrote s => simp [ih, List.filterMap_cons, lineOut, hc]

/-- `SKIP` writes nothing for the line; any other value writes its encoding. -/
theorem filter_skip_line (E : Env) (expr : JVal → Except Exc (Option JVal)) (line : Bytes) (v : JVal)
    (hl : E.loads line = .value v) :
    (expr v = .ok none → lineOut E expr line = none)
    ∧ (∀ r s, expr v = .ok (some r) → E.filterDumps r = .ok s → lineOut E expr line = some (s ++ [10])) := by
  constructor
  · intro h; simp [lineOut, filterLine, hl, h]
  · intro r s h hs; simp [lineOut, filterLine, hl, h, hs]

/-! ## Non-vacuity -/

def exMsg : Fields :=
  [(t "x", .str (t "a\nb")), (kTaskLevel, .arr [.int 1, .int 2]), (kActionStatus, .str (t "started")),
   (kTimestamp, .num (t "1.5")), (t "k", .arr [.int 1]), (kTaskUuid, .str (t "u1")), (kActionType, .str (t "t"))]

example : NodupKeys exMsg := by unfold NodupKeys; decide
example : shownKeys exMsg = [kActionType, kActionStatus, t "k", t "x"] := by decide
example : prettyFormat flatEnv exMsg false
    = .ok (t "u -> /u/u\n1970-01-01T00:00:01Z\n  action_type: v\n  action_status: v\n  k: v\n  x: v\n") := by rfl
example : compactFormat flatEnv exMsg false
    = .ok (t "u/u/u 1970-01-01T00:00:01Z action_type=1 action_status=1 k=1 x=1") := by rfl
/-- stdout is UTF-8-like (refuses the code point D800), `str()` of everything holds that code point -/
def surEnv : Env := { flatEnv with
  pyStr := fun _ => [117, 0xD800]
  encodable := fun s => !s.contains 0xD800
  backslashreplace := fun s => s.flatMap fun c => if c = 0xD800 then t "\\ud800" else [c]
  loads := fun _ => .value (.obj exMsg) }

example : cliLine surEnv true false [] =
    .formatted (t "u\\ud800/u\\ud800/u\\ud800 1970-01-01T00:00:01Z action_type=1 action_status=1 k=1 x=1\n") := by rfl

example : StdlibOK flatEnv :=
  ⟨by intro line e he; simp [flatEnv] at he, by intro v l e he; simp [flatEnv] at he, by intro v e he; simp [flatEnv] at he,
   by intro b; exact ⟨rfl, rfl⟩, by intro s; rfl⟩
example : cliLine { flatEnv with loads := fun _ => .value (.arr [.int 1, .int 2]) } false false [91, 10]
    = .notEliot (t "Not an Eliot message: b''\n\n") := by rfl
example : cliLine { flatEnv with loads := fun _ => .raises .recursionError } true false [91, 10] = .notJson (t "Not JSON: b''\n\n") := by rfl

end PP
