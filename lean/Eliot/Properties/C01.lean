import Eliot.Proofs.SysEmitParse
import Eliot.Properties.C08
import Eliot.Properties.C09
import Eliot.Properties.C10
import Eliot.Properties.C11
/-!
# C01 — emitted logs parse back to exactly the action tree the program executed

Models composed: `Eliot/Model/Sys.lean` (`execS`/`execB`: `_action.py` + `_output.py`; `stage` = the
dicts that reached `Destinations.send`), `Eliot/Model/Parse.lean` (`parseStream` = `eliot.parse`),
`Eliot/Model/Json.lean` + `File.lean` (`FileDestination`, orjson-format codec, `json.loads`).

**Quantifier.**  Every *structured* program (`Block.structured`, `Eliot/Proofs/SysEmit.lean`): any
nesting and sequence of `with start_action(..)` / `with start_task(..)` / `with ActionType(..)`
blocks (typed or untyped), `log_message` / `MessageType.log`, `add_success_fields`, `raise` of any
application exception, `try/except` whose handler may call `write_traceback()`, probes, and the
explicit spelling of an action (`x = start_action(..)`; `with x.context():` / `x.run(..)` segments;
`x.finish(..)`: see the section "The explicit spelling of an action" below) — started
outside any action, after `add_destinations(*ds)`.  Every environment `env` such that (`EnvOK`)
field serializers do not raise (`σ sid v k` = what serializer `sid` returns for `v` as the `k`-th
serializer call overall: the output may depend on the call number, as the harness's tagging serializers'
does), registered exception extractors — for any
classes, returning any fields, possibly different ones on every call — do not raise (one that raises
adds an `eliot:traceback` message of its own: C07), and the registered destinations never raise (a
raising destination adds `eliot:destination_failure` messages to the current action: C08).  The end
message of a failed action, and the message of `write_traceback()`, carry the fields returned by the
extractor of the nearest class in the exception's MRO (`extOf`, `extracted_fields`) under eliot's own
`exception` / `reason` / `action_status` (resp. `reason` / `traceback` / `exception`), which win on a
key clash (`field_values`).  `wf` = no declared (typed) field is missing when its
serializer runs; `clean` = no typed field is declared under one of the five keys the parser reads
and no plain message has a field called `action_type`/`action_status` (for the `eliot:traceback`
message that is a condition on what the extractor returns: `extClean`, `tb_clean`, `extOf_clean`; in a
failed end message all five keys are written over the extracted fields, so nothing is required).  Explicit handles
used in any other way than that pattern (an action left unfinished, finished twice, logged into while
a child is open, handles passed around), `serialize_task_id`/`continue_task`, and changing
destinations / global fields *while* the program runs are outside this fragment (C02/C04/C06 treat
them); global fields are empty.

**Denotation** (`denB`, defined without the machine): the forest `F` of `T.leaf tick ms` /
`T.node sp st et succ res xf kids` (`xf` = the extracted fields of a failure), `F.sep u t` marking a tree of its own (task started / message
logged outside the enclosing tree), carrying what was logged; payload id of a message = number of
the clock read that stamped it = (`roundtrip`) its index in the stage.
-/
namespace Sys.C01
open Sys Sys.Emit

/-- **execB_emits** (emission lemma, inside an action).  Let action `c` be current, unfinished, with
uuid `i.uuid`, level `i.level`, `n` positions handed out and success fields `s`; let `r` be the
denotation of the structured block `b` from counters `d` (clock reads, uuids, extractor calls, serializer calls).  Running `b` (under handled exception
`cur`) stages exactly `F.dicts … r.f i.level (n+1)` — the dicts of the performed forest at levels
`i.level ++ [n+1]`, `i.level ++ [n+2]`, … in depth-first emission order, a task started inside being
emitted in place as a whole separate tree —, leaves `c` unfinished with `n + r.f.len` positions
handed out and success fields `r.s`, leaves every other existing action untouched, restores the
context, consumes exactly the clock reads / uuids the denotation says, and ends with outcome `r.out`. -/
theorem execB_emits {env : Env} {σ : Nat → FV → Nat → FV} {ds : List Nat} (H : EnvOK env σ ds) (cur : Option Exc) (inH : Bool)
    (hcur : inH = true → cur.isSome = true) (b : Block) (hs : b.structured inH true = true)
    (w : World) (c : Nat) (i : AI) (n : Nat) (s : Fields) (d : DS) (pre : Pre ds w c i n s d)
    (hwf : (denB env cur true b d s).wf = true) :
    Post env σ ds w (execB env cur w b).1 c i n (denB env cur true b d s) ∧
      (execB env cur w b).2 = (denB env cur true b d s).out ∧ (denB env cur true b d s).out ≠ .stuck :=
  Sys.Emit.execB_emits H cur inH hcur b hs w c i n s d pre hwf

/-- the initial world after `add_destinations(*ds)` -/
theorem init_eq (env : Env) (ds : List Nat) (p : Block) :
    execB env none {} (.cons (.addDests ds) p) = execB env none ({ anyAdded := true, dests := ds, dupAdd := hasDup ds } : World) p := by
  simp only [execB, execS, World.addDests]
  rfl

/-- **emitted_is_forest.**  Running a structured program from the initial state (destinations
`ds` registered first) stages exactly the concatenation, in emission order, of the dicts of its
top-level trees — one tree per top-level `with` block, one one-message task per message logged
outside any action (`T.top`: start dict, content at positions 2, 3, …, end dict; a task started
inside emitted in place) —; the program's outcome is the denotation's; no action is current at the
end; and every registered destination is offered, and accepts, exactly the stage. -/
theorem emitted_is_forest {env : Env} {σ : Nat → FV → Nat → FV} {ds : List Nat} (H : EnvOK env σ ds) (hn : ds.Nodup) (p : Block)
    (hs : p.structured false false = true) (hwf : (denB env none false p ⟨0, 0, 0, 0⟩ []).wf = true) :
    let run := execB env none {} (.cons (.addDests ds) p)
    let r := denB env none false p ⟨0, 0, 0, 0⟩ []
    run.1.stage = (F.tops r.f).flatMap (fun e => T.top env σ e.1 e.2) ∧ r.f.len = 0 ∧
    run.2 = r.out ∧ r.out ≠ .stuck ∧ run.1.ctx = none ∧
    ∀ d ∈ ds, offeredTo run.1 d = run.1.stage ∧ acceptedBy run.1 d = run.1.stage := by
  intro run r
  have pre : PreT ds ({ anyAdded := true, dests := ds, dupAdd := hasDup ds } : World) ⟨0, 0, 0, 0⟩ := ⟨⟨fun _ h => h, rfl⟩, rfl, rfl, rfl, rfl, rfl⟩
  obtain ⟨post, ho, hns⟩ := execB_top H none false (by simp) p hs _ [] _ pre hwf
  have hrun : run = execB env none ({ anyAdded := true, dests := ds, dupAdd := hasDup ds } : World) p := init_eq env ds p
  refine ⟨?_, post.flat, by rw [hrun]; exact ho, hns, by rw [hrun]; exact post.ctx, ?_⟩
  · rw [hrun, post.stage, F.dicts_flat env σ 0 [] 0 _ post.flat]
    rfl
  · intro d hd
    have := Sys.C08.run_offered_eq_stage env ds hn p (Block.structured_noCfg false false p hs) d hd
    exact ⟨this.1, this.2 (fun k => H.healthy d hd k)⟩

/-- the level at which the parser's specification tree of a whole task sits -/
def specRoot : PM.Tree → PM.Level
  | .leaf _ => [1]
  | .node .. => []

/-- `out` is what parsing should give for the specification `trees`: exactly one task per tree
(same uuids, each once), every one complete, and the root of each is the *whole* specification tree
(`Tree.view (fun _ => true)`: start message, end message with its status, children in order with
their payload ids, recursively) — nothing lost, duplicated, re-parented or re-ordered. -/
structure Reconstructs (trees : PM.Spec) (out : List (String × PM.Task)) : Prop where
  keys : (out.map (·.1)).Perm (trees.map (·.1))
  complete : ∀ e ∈ out, e.2.isComplete = true
  roots : ∀ u t, (u, t) ∈ trees → ∃ T, (u, T) ∈ out ∧ T.root = PM.Tree.view (fun _ => true) u t (specRoot t)

/-- parsing any permutation of all the messages of a well-formed specification reconstructs it -/
theorem parse_reconstructs {ts : PM.Spec} (hwf : ts.WF) (ms : List PM.PMsg) (hnd : ms.Nodup) (hperm : ms.Perm ts.msgs) :
    ∃ out, PM.parseStream ms = .ok out ∧ Reconstructs ts out := by
  have hin : ∀ m ∈ ms, m ∈ ts.msgs := fun m hm => hperm.mem_iff.mp hm
  obtain ⟨done, p, _, hps, hok, _, _⟩ := PM.C09.feed_ok hwf ms hnd hin
  have hall : ∀ u t, (u, t) ∈ ts → PM.allArrived (PM.C09.arrived ms) u t := by
    intro u t ht m hm
    simp only [PM.C09.arrived, List.contains_iff_mem]
    exact hperm.mem_iff.mpr (List.mem_flatMap.mpr ⟨(u, t), ht, hm⟩)
  have hne : ∀ u t, PM.tmsgs u t ≠ [] := by intro u t; cases t <;> simp [PM.tmsgs, PM.Tree.msgs]
  have hsome : ∀ u t, (u, t) ∈ ts → PM.someArrived (PM.C09.arrived ms) u t := by
    intro u t ht
    obtain ⟨m, hm⟩ := List.exists_mem_of_ne_nil _ (hne u t)
    exact ⟨m, hm, hall u t ht m hm⟩
  refine ⟨done ++ p, hps, ?_, ?_, ?_⟩
  · rw [List.perm_ext_iff_of_nodup hok.nodup hwf]
    intro u
    simp only [List.mem_map]
    constructor
    · rintro ⟨e, he, rfl⟩
      obtain ⟨t, ht, _⟩ := hok.sound e.1 e.2 he
      exact ⟨(e.1, t), ht, rfl⟩
    · rintro ⟨e, he, rfl⟩
      obtain ⟨T, hT⟩ := hok.compl e.1 e.2 he (hsome e.1 e.2 he)
      exact ⟨(e.1, T), hT, rfl⟩
  · intro e he
    obtain ⟨t, ht, _, _, hc⟩ := hok.sound e.1 e.2 he
    exact hc.mpr (hall e.1 t ht)
  · intro u t ht
    obtain ⟨T, hT⟩ := hok.compl u t ht (hsome u t ht)
    obtain ⟨t', ht', _, hI, _⟩ := hok.sound u T hT
    have := hwf.unique ht ht'; subst this
    refine ⟨T, hT, ?_⟩
    cases t with
    | leaf b =>
      rw [hI.1]
      simp [specRoot, PM.Tree.view, PM.pick]
    | node a sb eb ok kids =>
      have hI' : PM.TaskOK (PM.C09.arrived ms) u (.node a sb eb ok kids) T := hI
      rw [hI'.root]
      exact PM.Tree.view_congr _ _ u _ [] (fun m hm => hall u _ ht m hm)

/-- the parser-side specification of everything a program performed: one tree per separate tree
of the denotation (top-level actions, context-less messages, tasks started inside actions), in
completion order -/
def specOf (f : F) : PM.Spec := (F.seps f).map fun e => (ustr e.1, T.pm e.2)

/-- **roundtrip** (stage → parser).  For a structured program whose performed forest is `clean`:
every staged dict is a well-formed Eliot message (`toPMsg` succeeds on each: nothing lost), the
payload id of the `i`-th staged dict is `i`, the projected messages are — up to order — exactly the
messages of the specification trees of what the program performed (`specOf`: the trees have
pairwise distinct uuids), and feeding them to `parse_stream` in **any order** yields exactly one
complete task per tree whose root is that whole tree: same shape, child order, action types,
statuses, payload ids. -/
theorem roundtrip {env : Env} {σ : Nat → FV → Nat → FV} {ds : List Nat} (H : EnvOK env σ ds) (p : Block)
    (hs : p.structured false false = true) (hwf : (denB env none false p ⟨0, 0, 0, 0⟩ []).wf = true)
    (hR : F.clean (denB env none false p ⟨0, 0, 0, 0⟩ []).f = true) :
    let stage := (execB env none {} (.cons (.addDests ds) p)).1.stage
    let trees := specOf (denB env none false p ⟨0, 0, 0, 0⟩ []).f
    ∃ l : List PM.PMsg, stage.map toPMsg = l.map some ∧ l.map (·.body) = List.range' 0 stage.length ∧
      trees.WF ∧ l.Perm trees.msgs ∧
      ∀ ms : List PM.PMsg, ms.Perm l → ∃ out, PM.parseStream ms = .ok out ∧ Reconstructs trees out := by
  intro stage trees
  have pre : PreT ds ({ anyAdded := true, dests := ds, dupAdd := hasDup ds } : World) ⟨0, 0, 0, 0⟩ := ⟨⟨fun _ h => h, rfl⟩, rfl, rfl, rfl, rfl, rfl⟩
  obtain ⟨post, _, _⟩ := execB_top H none false (by simp) p hs _ [] _ pre hwf
  have hstage : stage = F.dicts env σ 0 (denB env none false p ⟨0, 0, 0, 0⟩ []).f [] 0 := by
    simp only [stage, init_eq, post.stage]; rfl
  have rg := denB_range env none false p ⟨0, 0, 0, 0⟩ []
  obtain ⟨l, h1, h2, h3⟩ := (F.proj env σ 0 _ [] 0 hR).ex
  have hlen : stage.length = l.length := by
    have := congrArg List.length h1
    simpa [hstage] using this
  have hspec : sepMsgs (F.seps (denB env none false p ⟨0, 0, 0, 0⟩ []).f) = PM.Spec.msgs trees := by
    simp only [sepMsgs, PM.Spec.msgs, trees, specOf, List.flatMap_map]
  have hbody : l.map (·.body) = List.range' 0 stage.length := by
    rw [h2, rg.ticks, hlen]
    have : l.length = (l.map (·.body)).length := by simp
    rw [this, h2, rg.ticks]
    simp
  have hwfT : PM.Spec.WF trees := by
    simp only [PM.Spec.WF, trees, specOf, List.map_map]
    have := nodup_map_inj ustr (fun a b => ustr_inj) rg.uun
    rw [List.map_map] at this
    exact this
  have hperm : l.Perm (PM.Spec.msgs trees) := by
    rw [F.pm_flat _ post.flat] at h3
    simpa [PM.Forest.msgs, hspec] using h3
  refine ⟨l, by rw [hstage]; exact h1, hbody, hwfT, hperm, ?_⟩
  intro ms hms
  have hndl : l.Nodup := nodup_of_map (·.body) (by rw [hbody]; exact List.nodup_range' 1)
  exact parse_reconstructs hwfT ms (hms.nodup_iff.mpr hndl) (hms.trans hperm)

/-- **field_values.**  What the dicts of `emitted_is_forest` hold, key by key (the dicts themselves are
`leafDict` / `startDict` / `endDict`, i.e. the field dict with the structural keys written over it
and the declared serializers applied; this theorem reads them):
a message holds its `message_type` and, under every other non-structural key, exactly the value
logged — a typed field its serializer's output (`serOpt σ j sers fields`: the declared fields go through
their serializers in declaration order, as serializer calls number `j`, `j+1`, …, and the output may
depend on the call number); a start message the fields
given to `start_action`; a successful end message the success fields added; a failed end message the
exception's class name and text — eliot's own `exception` / `reason` / `action_status` win over
extracted fields of the same name —, under every other key exactly the fields `xf` the exception
extractor returned (in the denotation: `extOf`, the extractor of the nearest class in the MRO;
nothing if none is registered), and no success field; the `eliot:traceback` message of
`write_traceback()` its own `reason` / `traceback` / `exception` over the extracted fields.
Precondition: no typed field is declared under a structural key. -/
theorem field_values (env : Env) (σ : Nat → FV → Nat → FV) (u : Nat) (L : Level) (tick j : Nat) :
    (∀ ms : MSpec, sersAvoid ms.sers ["timestamp", "task_uuid", "task_level", "message_type"] →
      (leafDict σ u L tick j ms).get? "message_type" = some (.str ms.mtype) ∧
      ∀ k, k ∉ ["timestamp", "task_uuid", "task_level", "message_type"] →
        (leafDict σ u L tick j ms).get? k = (serOpt σ j ms.sers ms.fields).get? k) ∧
    (∀ sp : Spec, sersAvoid (sp.sers.map (·.1)) actionKeys → ∀ k, k ∉ actionKeys →
      (startDict σ u L tick j sp).get? k = (serOpt σ j (sp.sers.map (·.1)) sp.fields).get? k) ∧
    (∀ atype sers succ xf, sersAvoid (sers.map (·.2)) actionKeys → ∀ k, k ∉ actionKeys →
      (endDict env σ u L tick j atype sers succ xf .ok).get? k = (serOpt σ j (sers.map (·.2)) succ).get? k) ∧
    (∀ atype sers succ xf e,
      (endDict env σ u L tick j atype sers succ xf (.raised e)).get? "exception" = some (.str (e.qual env)) ∧
      (endDict env σ u L tick j atype sers succ xf (.raised e)).get? "reason" = some (.str (e.safeStr env)) ∧
      (endDict env σ u L tick j atype sers succ xf (.raised e)).get? "action_status" = some (.str "failed") ∧
      ∀ k, k ∉ actionKeys → k ≠ "exception" → k ≠ "reason" →
        (endDict env σ u L tick j atype sers succ xf (.raised e)).get? k = xf.get? k) ∧
    (∀ e xf,
      (tbSpec env e xf).mtype = "eliot:traceback" ∧ (tbSpec env e xf).sers = none ∧
      (tbSpec env e xf).fields.get? "reason" = some (.str (e.safeStr env)) ∧
      (tbSpec env e xf).fields.get? "traceback" = some (.tbtext e) ∧
      (tbSpec env e xf).fields.get? "exception" = some (.str (e.qual env)) ∧
      ∀ k, k ≠ "reason" → k ≠ "traceback" → k ≠ "exception" → (tbSpec env e xf).fields.get? k = xf.get? k) :=
  ⟨fun ms hs => leafDict_fields σ u L tick j ms hs, fun sp hs k hk => startDict_fields σ u L tick j sp hs k hk,
   fun atype sers succ xf hs k hk => endDict_fields_ok env σ u L tick j atype sers succ xf hs k hk,
   fun atype sers succ xf e =>
     ⟨(endDict_fields_failed env σ u L tick j atype sers succ xf e).1, (endDict_fields_failed env σ u L tick j atype sers succ xf e).2.1,
      by simp only [endDict]
         rw [Sys.C04.Fields.get?_set_ne _ _ _ _ (by decide), Sys.C04.Fields.get?_set_ne _ _ _ _ (by decide), Sys.C04.Fields.get?_set_ne _ _ _ _ (by decide),
           Sys.C04.Fields.get?_set_ne _ _ _ _ (by decide), Sys.C04.Fields.get?_set_self],
      (endDict_fields_failed env σ u L tick j atype sers succ xf e).2.2⟩,
   fun e xf => tbSpec_fields env e xf⟩

/-- **extracted_fields** (which extractor).  The fields a failed action's end message and a
`write_traceback()` message carry (`extOf`, used by the denotation `denB`) are those returned — on
that call — by the extractor registered for the first class of the exception's MRO that has one;
classes before it in the MRO have none; with no extractor along the MRO there are no extra fields and
no extractor call. -/
theorem extracted_fields (env : Env) (e : Exc) (k : Nat) :
    (∀ pre c post f fs, env.mro (e.cls env) = pre ++ c :: post → (∀ c' ∈ pre, env.extractor c' = none) →
      env.extractor c = some f → f e k = .ok fs → extOf env e k = (fs, k + 1)) ∧
    ((∀ c ∈ env.mro (e.cls env), env.extractor c = none) → extOf env e k = ([], k)) := by
  refine ⟨fun pre c post f fs hm hpre hc hf => extOf_nearest hm hpre hc k fs hf, fun h => ?_⟩
  have : ∀ l : List Nat, (∀ c ∈ l, env.extractor c = none) → firstExtractor env l = none := by
    intro l hl
    induction l with
    | nil => rfl
    | cons c cs ih =>
      simp only [firstExtractor, hl c List.mem_cons_self]
      exact ih (fun c' h' => hl c' (List.mem_cons_of_mem _ h'))
  simp only [extOf, this _ h]

-- a typed message {"k": "v"} with serializer 5 on "k", and an untyped field
example : (leafDict (fun s v k => FV.serOut s k v) 3 [2] 9 4 { mtype := "m", fields := [("k", .str "v"), ("n", .nat 4)], sers := some [("k", 5)] }).get? "k"
      = some (.serOut 5 4 (.str "v")) ∧
    (leafDict (fun s v k => FV.serOut s k v) 3 [2] 9 4 { mtype := "m", fields := [("k", .str "v"), ("n", .nat 4)], sers := some [("k", 5)] }).get? "n"
      = some (.nat 4) := by decide +kernel

/-! ## Through the file: one JSON line per staged dict, read back, decoded, parsed -/

/-- **roundtrip_lines** (codec step, for any codec with the two C10 laws on the staged dicts).
Writing every staged dict as `enc m ++ "\n"`, splitting what was written on newlines, decoding each
line and projecting gives back exactly the projected stage — so `roundtrip` applies to what a reader
of the file sees. -/
theorem roundtrip_lines (c : Codec) (stage : List Msg) (hc : ∀ m ∈ stage, c.OK m) :
    EJ.readLines ((stage.map fun m => c.enc m ++ [10]).flatten) = stage.map c.enc ∧
    (EJ.readLines ((stage.map fun m => c.enc m ++ [10]).flatten)).filterMap c.dec = stage := by
  have h1 : EJ.readLines ((stage.map fun m => c.enc m ++ [10]).flatten) = stage.map c.enc := by
    have := EJ.C11.reader_drops_only_fragment (stage.map c.enc) [] (by
      intro l hl
      obtain ⟨m, hm, rfl⟩ := List.mem_map.mp hl
      exact (hc m hm).2) (by simp)
    simpa [List.map_map, Function.comp_def] using this
  exact ⟨h1, by rw [h1]; exact filterMap_dec c stage hc⟩

open EJ in
/-- How the model's dicts are seen by `orjson` and `json.loads`: `py m` is the Python-level dict
handed to `FileDestination`, `jv m` the JSON-native value it denotes, `back` reads a decoded JSON
object back as a dict.  **This is the assumed link between the value domain of the core model
(`FV`: opaque application objects, serializer outputs, clock and uuid values) and `JVal`.** -/
structure JsonView where
  py : Msg → PyVal
  jv : Msg → JVal
  back : JVal → Option Msg

open EJ in
/-- … and what is assumed of it for one dict: `json_default`/orjson lower `py m` to `jv m`, which is
JSON-native (C10's domain) with distinct keys, and `back` inverts `jv` there. -/
structure JsonView.Faithful (v : JsonView) (ext : Bool) (m : Msg) : Prop where
  lower : lower ext (v.py m) = .ok (v.jv m)
  native : JsonNative (v.jv m)
  keys : NodupKeysDeep (v.jv m)
  /-- orjson refuses values nested in more than 254 containers (C10 `deep_nesting_refused`) -/
  depth : (v.jv m).depth ≤ maxDepth
  back : v.back (v.jv m) = some m

open EJ in
/-- the line codec C10 gives for such a view: the compact JSON text, `json.loads` + `back` -/
def JsonView.codec (v : JsonView) (ext : Bool) : Codec where
  enc := fun m => match dumpsCP ext (v.py m) with
    | .ok t => t
    | .error _ => []
  dec := fun s => (loads s).bind v.back

open EJ in
/-- C10 instantiates the codec laws: on a faithful dict the text line of the real
`FileDestination` is `enc m ++ "\n"`, the binary line its UTF-8 encoding, `enc m` holds no newline
and `json.loads` + `back` return the dict. -/
theorem JsonView.codec_ok (v : JsonView) (ext : Bool) (m : Msg) (h : v.Faithful ext m) :
    (v.codec ext).OK m ∧
    (FileDest.mk .text ext).line (v.py m) = some ((v.codec ext).enc m ++ [10]) ∧
    (FileDest.mk .binary ext).line (v.py m) = some (utf8enc ((v.codec ext).enc m) ++ [10]) := by
  obtain ⟨t, ht⟩ := encode_native_ok (v.jv m) h.native h.depth
  have hcp : dumpsCP ext (v.py m) = .ok t := by simp only [dumpsCP, h.lower, ht]
  have henc : (v.codec ext).enc m = t := by simp only [JsonView.codec, hcp]
  have hl := EJ.C10.decode_encode (v.jv m) t h.native h.keys ht
  refine ⟨⟨?_, ?_⟩, ?_, ?_⟩
  · rw [henc]; simp only [JsonView.codec, hl, Option.bind_some, h.back]
  · rw [henc]; exact (dumpsCP_no_newline ext (v.py m) t hcp).1
  · rw [henc]; simp only [FileDest.line, dumps_text, hcp]
  · rw [henc]; simp only [FileDest.line, dumps_binary, hcp]

open EJ in
theorem JsonView.lines_eq (v : JsonView) (ext : Bool) (st : List Msg) (hv : ∀ m ∈ st, v.Faithful ext m) :
    (st.map v.py).filterMap (FileDest.mk .text ext).line = st.map fun m => (v.codec ext).enc m ++ [10] := by
  induction st with
  | nil => rfl
  | cons m r ih =>
    have := (v.codec_ok ext m (hv m List.mem_cons_self)).2.1
    simp only [List.map_cons, List.filterMap_cons, this]
    rw [ih (fun x hx => hv x (List.mem_cons_of_mem _ hx))]

open EJ in
/-- **roundtrip_file** (stage → real `FileDestination` → reader → `json.loads` → parser).  Under the
hypotheses of `roundtrip`, and a `JsonView` faithful on every staged dict: the text-mode file
receives exactly one line `enc m ++ "\n"` per staged dict, in order; the binary-mode file receives
the UTF-8 encoding of the same content; splitting on newlines, `json.loads`-ing and reading back
every line returns exactly the staged dicts; and parsing their projections — in file order or any
other order — yields exactly one complete task per performed tree with that whole tree as root. -/
theorem roundtrip_file {env : Env} {σ : Nat → FV → Nat → FV} {ds : List Nat} (H : EnvOK env σ ds) (p : Block)
    (hs : p.structured false false = true) (hwf : (denB env none false p ⟨0, 0, 0, 0⟩ []).wf = true)
    (hR : F.clean (denB env none false p ⟨0, 0, 0, 0⟩ []).f = true) (v : JsonView) (ext : Bool)
    (hv : ∀ m ∈ (execB env none {} (.cons (.addDests ds) p)).1.stage, v.Faithful ext m) :
    let stage := (execB env none {} (.cons (.addDests ds) p)).1.stage
    let text := content (fileCalls .text ext (stage.map v.py))
    text = (stage.map fun m => (v.codec ext).enc m ++ [10]).flatten ∧
    utf8dec (content (fileCalls .binary ext (stage.map v.py))) = some text ∧
    (readLines text).filterMap (v.codec ext).dec = stage ∧
    ∀ ms : List PM.PMsg, ms.Perm (((readLines text).filterMap (v.codec ext).dec).filterMap toPMsg) →
      ∃ out, PM.parseStream ms = .ok out ∧ Reconstructs (specOf (denB env none false p ⟨0, 0, 0, 0⟩ []).f) out := by
  intro stage text
  have hok : ∀ m ∈ stage, (v.codec ext).OK m := fun m hm => (v.codec_ok ext m (hv m hm)).1
  have htext : text = (stage.map fun m => (v.codec ext).enc m ++ [10]).flatten := by
    have h := EJ.C10.no_partial_between_calls .text ext (stage.map v.py) (stage.map v.py).length
    rw [List.take_length] at h
    simp only [text, h]
    rw [v.lines_eq ext stage hv]
  have hread := roundtrip_lines (v.codec ext) stage hok
  rw [← htext] at hread
  obtain ⟨l, h1, _, _, _, hparse⟩ := roundtrip H p hs hwf hR
  refine ⟨htext, EJ.C10.bytes_text_same ext _, hread.2, ?_⟩
  rw [hread.2]
  have : stage.filterMap toPMsg = l := by
    have := congrArg (List.filterMap id) h1
    simpa [List.filterMap_map, Function.comp_def] using this
  rw [this]
  exact hparse

/-! ## Non-vacuity: a typed action with a message, success fields, a nested failing action holding a
task of its own, a handler writing a traceback; a context-less message; a second, failing, tree.
Destination 0 (not registered) raises; the registered destinations 1 and 2 never do. -/
def exEnv : Env where
  classOf := fun _ => 0
  mro := fun c => [c]
  qualname := fun _ => "m.C"
  strOf := fun _ => some "boom"
  keyErrorClass := 1
  extractor := fun _ => none
  serialize := fun s v k => Except.ok (FV.serOut s k v)
  destFails := fun d k => if d = 0 && k = 1 then some (Exc.user 9) else none
/-- the serializers of the examples tag their output with the call number, as the harness's do -/
def exσ : Nat → FV → Nat → FV := fun s v k => FV.serOut s k v

theorem exOK : EnvOK exEnv exσ [1, 2] := by
  refine EnvOK.ofNoExtractor (fun _ _ _ => rfl) (fun _ => rfl) ?_
  intro d hd k
  simp only [List.mem_cons, List.not_mem_nil, or_false] at hd
  rcases hd with rfl | rfl <;> simp [exEnv]

def exProg : Block :=
  .cons (.withAction false { atype := "a", fields := [("x", .nat 1)], sers := some ([("x", 7)], [("y", 8)]) }
    (.cons (.log { mtype := "m", fields := [("k", .str "v")], sers := some [("k", 5)] })
    (.cons (.addSuccess none [("y", .nat 2)])
    (.cons (.tryCatch
        (.cons (.withAction false { atype := "b" }
          (.cons (.log { mtype := "m2" })
          (.cons (.withAction true { atype := "t" } (.cons (.log { mtype := "in-task" }) .nil))
          (.cons (.raise 3) (.cons (.log { mtype := "never" }) .nil))))) .nil)
        (.cons .writeTraceback (.cons (.log { mtype := "h" }) .nil)))
    .nil))))
  (.cons (.log { mtype := "outside" })
  (.cons (.tryCatch (.cons (.withAction false { atype := "c" } (.cons (.raise 4) .nil)) .nil) .nil)
  .nil))

/-- the hypotheses hold for it -/
theorem exHyps : exProg.structured false false = true ∧ (denB exEnv none false exProg ⟨0, 0, 0, 0⟩ []).wf = true ∧
    F.clean (denB exEnv none false exProg ⟨0, 0, 0, 0⟩ []).f = true := by decide +kernel

-- 14 messages in 4 trees: uuid 0 (action "a": 8 messages), 1 (the task, 3), 2 (the context-less message), 3 (action "c": 2)
example : (execB exEnv none {} (.cons (.addDests [1, 2]) exProg)).1.stage.length = 14 ∧
    (execB exEnv none {} (.cons (.addDests [1, 2]) exProg)).2 = .ok ∧
    (specOf (denB exEnv none false exProg ⟨0, 0, 0, 0⟩ []).f).map (fun e => (e.1, (PM.tmsgs e.1 e.2).length)) =
      [("u1", 3), ("u0", 8), ("u2", 1), ("u3", 2)] := by decide +kernel

-- the model's stage is what `emitted_is_forest` says, computed
example : (execB exEnv none {} (.cons (.addDests [1, 2]) exProg)).1.stage =
    (F.tops (denB exEnv none false exProg ⟨0, 0, 0, 0⟩ []).f).flatMap (fun e => T.top exEnv exσ e.1 e.2) :=
  (emitted_is_forest exOK (by decide) exProg exHyps.1 exHyps.2.1).1

-- levels, types and statuses of the staged dicts, in emission order
example : ((execB exEnv none {} (.cons (.addDests [1, 2]) exProg)).1.stage.filterMap toPMsg).map
      (fun m => (m.uuid, m.level, m.atype, m.status)) =
    [("u0", [1], some "a", some "started"), ("u0", [2], none, none),
     ("u0", [3, 1], some "b", some "started"), ("u0", [3, 2], none, none),
     ("u1", [1], some "t", some "started"), ("u1", [2], none, none), ("u1", [3], some "t", some "succeeded"),
     ("u0", [3, 3], some "b", some "failed"), ("u0", [4], none, none), ("u0", [5], none, none),
     ("u0", [6], some "a", some "succeeded"), ("u2", [1], none, none),
     ("u3", [1], some "c", some "started"), ("u3", [2], some "c", some "failed")] := by decide +kernel

-- field values: the typed start field and the typed success field went through their serializers,
-- the failed end carries the exception's class and text and no success field
example : ((execB exEnv none {} (.cons (.addDests [1, 2]) exProg)).1.stage[0]?.bind (·.get? "x")) = some (.serOut 7 0 (.nat 1)) ∧
    ((execB exEnv none {} (.cons (.addDests [1, 2]) exProg)).1.stage[10]?.bind (·.get? "y")) = some (.serOut 8 2 (.nat 2)) ∧
    ((execB exEnv none {} (.cons (.addDests [1, 2]) exProg)).1.stage[7]?.bind (·.get? "reason")) = some (.str "boom") ∧
    ((execB exEnv none {} (.cons (.addDests [1, 2]) exProg)).1.stage[7]?.bind (·.get? "y")) = none := by decide +kernel

-- parsing the projected stage in reverse order: four tasks, all complete (computed) …
example : (PM.parseStream ((execB exEnv none {} (.cons (.addDests [1, 2]) exProg)).1.stage.filterMap toPMsg).reverse).toOption.map
      (·.map fun e => (e.1, e.2.isComplete)) = some [("u3", true), ("u2", true), ("u1", true), ("u0", true)] := by
  decide +kernel

-- … and (by the theorem) each with the whole performed tree as root
example : ∃ out, PM.parseStream ((execB exEnv none {} (.cons (.addDests [1, 2]) exProg)).1.stage.filterMap toPMsg).reverse = .ok out ∧
    Reconstructs (specOf (denB exEnv none false exProg ⟨0, 0, 0, 0⟩ []).f) out := by
  obtain ⟨l, h1, _, _, _, hp⟩ := roundtrip (ds := [1, 2]) exOK exProg exHyps.1 exHyps.2.1 exHyps.2.2
  have : (execB exEnv none {} (.cons (.addDests [1, 2]) exProg)).1.stage.filterMap toPMsg = l := by
    have := congrArg (List.filterMap id) h1
    simpa [List.filterMap_map, Function.comp_def] using this
  rw [this]
  exact hp _ (List.reverse_perm l)

/-! ## Non-vacuity with exception extractors.  Classes: 0 = `Base`, 1 = `Mid(Base)`, 2 = `Leaf(Mid)`,
3 = unrelated.  An extractor is registered for `Base` (it returns a `code`, the number of the extractor
call, and a `reason` of its own that must lose against eliot's) and one for `Leaf`; exception `i` has
class `i`. -/
def exEnvX : Env where
  classOf := fun i => i
  mro := fun c => if c = 2 then [2, 1, 0] else if c = 1 then [1, 0] else [c]
  qualname := fun c => if c = 0 then "m.Base" else if c = 1 then "m.Mid" else if c = 2 then "m.Leaf" else "m.Other"
  strOf := fun _ => some "boom"
  keyErrorClass := 9
  extractor := fun c =>
    if c = 0 then some (fun _ k => .ok [("code", .nat 7), ("call", .nat k), ("reason", .str "mine")])
    else if c = 2 then some (fun _ _ => .ok [("leaf", .nat 1)])
    else none
  serialize := fun s v k => Except.ok (FV.serOut s k v)
  destFails := fun _ _ => none

theorem exOKX : EnvOK exEnvX exσ [1, 2] := by
  refine ⟨fun _ _ _ => rfl, ?_, fun _ _ _ => rfl⟩
  intro c f hc e k
  simp only [exEnvX] at hc
  split at hc
  · cases hc; exact ⟨_, rfl⟩
  · split at hc
    · cases hc; exact ⟨_, rfl⟩
    · cases hc

-- the decidable condition on what extractors return (`extClean`: no `action_type` / `action_status`)
-- holds for every field dict these extractors can return, hence for `extOf`
example : ∀ e k, extClean (extOf exEnvX e k).1 = true := by
  refine extOf_clean ?_
  intro c f hc e k fs hf
  simp only [exEnvX] at hc
  split at hc
  · cases hc; cases hf; rfl
  · split at hc
    · cases hc; cases hf; rfl
    · cases hc

-- nearest class in the MRO: a `Mid` exception gets `Base`'s extractor, a `Leaf` exception its own
example : extOf exEnvX (.user 1) 5 = ([("code", .nat 7), ("call", .nat 5), ("reason", .str "mine")], 6) ∧
    extOf exEnvX (.user 2) 5 = ([("leaf", .nat 1)], 6) ∧ extOf exEnvX (.user 3) 5 = ([], 5) := by decide +kernel

/-- an action failing with a `Mid` exception, the handler writes a traceback; an action failing with a
`Leaf` exception inside an action failing with it too; an action failing with an unrelated exception -/
def exProgX : Block :=
  .cons (.tryCatch
      (.cons (.withAction false { atype := "a" } (.cons (.log { mtype := "m" }) (.cons (.raise 1) .nil))) .nil)
      (.cons .writeTraceback .nil))
  (.cons (.tryCatch
      (.cons (.withAction false { atype := "b" } (.cons (.withAction false { atype := "c" } (.cons (.raise 2) .nil)) .nil)) .nil) .nil)
  (.cons (.tryCatch (.cons (.withAction false { atype := "d" } (.cons (.raise 3) .nil)) .nil) .nil)
  .nil))

theorem exHypsX : exProgX.structured false false = true ∧ (denB exEnvX none false exProgX ⟨0, 0, 0, 0⟩ []).wf = true ∧
    F.clean (denB exEnvX none false exProgX ⟨0, 0, 0, 0⟩ []).f = true := by decide +kernel

-- 10 messages; the failed end of "a" (index 2) carries the extractor's `code` and call number 0, but
-- eliot's own `reason`; the traceback (index 3) carries them too (second extractor call) under its own
-- `reason`; the ends of "c" and "b" carry `Leaf`'s field; the end of "d" carries nothing extra
example : (execB exEnvX none {} (.cons (.addDests [1, 2]) exProgX)).1.stage.length = 10 ∧
    ((execB exEnvX none {} (.cons (.addDests [1, 2]) exProgX)).1.stage[2]?.bind (·.get? "code")) = some (.nat 7) ∧
    ((execB exEnvX none {} (.cons (.addDests [1, 2]) exProgX)).1.stage[2]?.bind (·.get? "call")) = some (.nat 0) ∧
    ((execB exEnvX none {} (.cons (.addDests [1, 2]) exProgX)).1.stage[2]?.bind (·.get? "reason")) = some (.str "boom") ∧
    ((execB exEnvX none {} (.cons (.addDests [1, 2]) exProgX)).1.stage[2]?.bind (·.get? "exception")) = some (.str "m.Mid") ∧
    ((execB exEnvX none {} (.cons (.addDests [1, 2]) exProgX)).1.stage[3]?.bind (·.get? "message_type")) = some (.str "eliot:traceback") ∧
    ((execB exEnvX none {} (.cons (.addDests [1, 2]) exProgX)).1.stage[3]?.bind (·.get? "call")) = some (.nat 1) ∧
    ((execB exEnvX none {} (.cons (.addDests [1, 2]) exProgX)).1.stage[3]?.bind (·.get? "reason")) = some (.str "boom") ∧
    ((execB exEnvX none {} (.cons (.addDests [1, 2]) exProgX)).1.stage[6]?.bind (·.get? "leaf")) = some (.nat 1) ∧
    ((execB exEnvX none {} (.cons (.addDests [1, 2]) exProgX)).1.stage[7]?.bind (·.get? "leaf")) = some (.nat 1) ∧
    ((execB exEnvX none {} (.cons (.addDests [1, 2]) exProgX)).1.stage[9]?.bind (·.get? "code")) = none := by decide +kernel

-- … and that stage is the denotation's (by the theorem), and parses back to the four performed trees
example : (execB exEnvX none {} (.cons (.addDests [1, 2]) exProgX)).1.stage =
    (F.tops (denB exEnvX none false exProgX ⟨0, 0, 0, 0⟩ []).f).flatMap (fun e => T.top exEnvX exσ e.1 e.2) :=
  (emitted_is_forest exOKX (by decide) exProgX exHypsX.1 exHypsX.2.1).1

example : ∃ out, PM.parseStream ((execB exEnvX none {} (.cons (.addDests [1, 2]) exProgX)).1.stage.filterMap toPMsg).reverse = .ok out ∧
    Reconstructs (specOf (denB exEnvX none false exProgX ⟨0, 0, 0, 0⟩ []).f) out := by
  obtain ⟨l, h1, _, _, _, hp⟩ := roundtrip (ds := [1, 2]) exOKX exProgX exHypsX.1 exHypsX.2.1 exHypsX.2.2
  have : (execB exEnvX none {} (.cons (.addDests [1, 2]) exProgX)).1.stage.filterMap toPMsg = l := by
    have := congrArg (List.filterMap id) h1
    simpa [List.filterMap_map, Function.comp_def] using this
  rw [this]
  exact hp _ (List.reverse_perm l)

/-! ## The explicit spelling of an action

`x = start_action(sp)` (or `start_task`), then any number of `with x.context(): body` /
`x.run(lambda: body)` segments whose bodies are structured, do not rebind `x` and end normally,
`x.log(..)` / `Message.log(action=x)` and `x.add_success_fields(..)` calls between them, then
`x.finish()` / `x.finish(exc)` or `with x: body` — all adjacent in one block — is part of `Block.structured`
(`Block.structuredX`), so `emitted_is_forest`, `roundtrip`, `roundtrip_file` cover it.  A segment body that
raises would leave the action unfinished (the exception leaves the block before `finish`); that is
excluded through the decidable `wf` (`denX`: `wf = false`), the parser's treatment of unfinished
actions is C09's.  What such a program performed is the *same node* as the `with` block's: -/

/-- **explicit_node** (definitional: it unfolds the denotation's own helpers `closeR` / `withR`; what
connects them to the real code is `execX_emits` / `execB_emits`).  The node closed by `x.finish(exc)` after segments that performed `rb.f`,
collected success fields `rb.s` and left the counters at `rb.ds` is exactly the node of
`with start_action(sp): …` whose body did the same and ended with `finRes exc` (`ok` for `finish()`,
`raised e` for `finish(e)`): same start and end ticks, fields, extracted fields, children; the counters
afterwards agree too.  The difference is control flow only: the outcome of `finish(e)` is `ok`. -/
theorem explicit_node (env : Env) (sepr : Bool) (sp : Spec) (d : DS) (s : Fields) (rb : R) (exc : Option Nat) :
    (closeR env sepr sp d s rb.f rb.s (finRes exc) rb.ds).f = (withR env sepr sp d s { rb with out := finRes exc }).f ∧
    (closeR env sepr sp d s rb.f rb.s (finRes exc) rb.ds).ds = (withR env sepr sp d s { rb with out := finRes exc }).ds ∧
    (closeR env sepr sp d s rb.f rb.s (finRes exc) rb.ds).out = .ok := ⟨rfl, rfl, rfl⟩

/-- **explicit_same_as_with.**  `x = start_action(sp); with x.context(): body; x.finish()` (or `x.run`)
followed by `rest` has the same denotation — forest, outcome, success fields of the enclosing action,
counters, well-formedness — as `with start_action(sp): body` followed by `rest`, whenever the body
ends normally. -/
theorem explicit_same_as_with (env : Env) (cur : Option Exc) (inAct : Bool) (x : Nat) (task : Bool) (sp : Spec)
    (body rest : Block) (d : DS) (s : Fields) (viaRun : Bool)
    (hok : (denB env cur true body
      { tick := d.tick + 1, nu := if (task || !inAct) = true then d.nu + 1 else d.nu, ex := d.ex,
        sc := d.sc + nser (sp.sers.map (·.1)) } []).out = .ok) :
    denB env cur inAct
        (.cons (.startAs x task sp) (.cons (if viaRun then .runIn x body else .inContext x body) (.cons (.finish x none) rest))) d s =
      denB env cur inAct (.cons (.withAction task sp body) rest) d s := by
  rw [denB_start, denB_cons _ _ _ _ _ _ _ (by intro _ _ _ h; cases h), denS_with]
  have hw : (withR env (task || !inAct) sp d s (denB env cur true body
      { tick := d.tick + 1, nu := if (task || !inAct) = true then d.nu + 1 else d.nu, ex := d.ex,
        sc := d.sc + nser (sp.sers.map (·.1)) } [])).out = .ok := hok
  cases viaRun
  · simp only [Bool.false_eq_true, if_false, denX_ctx, segR, hok, denX_finish, hw]
    simp only [closeR, withR, finRes, extOut, hok, F.append, Bool.and_assoc]
  · simp only [if_true, denX_run, segR, hok, denX_finish, hw]
    simp only [closeR, withR, finRes, extOut, hok, F.append, Bool.and_assoc]

/-- **handle_same_as_with.**  `x = start_action(sp); with x: body` followed by `rest` has the same
denotation as `with start_action(sp): body` followed by `rest` — whatever the body does (if it raises,
the node is closed as failed and the exception goes on, as for the `with` block). -/
theorem handle_same_as_with (env : Env) (cur : Option Exc) (inAct : Bool) (x : Nat) (task : Bool) (sp : Spec)
    (body rest : Block) (d : DS) (s : Fields) :
    denB env cur inAct (.cons (.startAs x task sp) (.cons (.withHandle x body) rest)) d s =
      denB env cur inAct (.cons (.withAction task sp body) rest) d s := by
  rw [denB_start, denB_cons _ _ _ _ _ _ _ (by intro _ _ _ h; cases h), denS_with, denX_with]
  have hco : ∀ rb : R, (closeW env (task || !inAct) sp d s .nil rb).out = rb.out := fun _ => rfl
  have hwo : ∀ rb : R, (withR env (task || !inAct) sp d s rb).out = rb.out := fun _ => rfl
  simp only [hco, hwo]
  cases ho : (denB env cur true body
      { tick := d.tick + 1, nu := if (task || !inAct) = true then d.nu + 1 else d.nu, ex := d.ex,
        sc := d.sc + nser (sp.sers.map (·.1)) } []).out <;>
    simp only [closeW, closeR, withR, ho, F.append, Bool.and_assoc, Bool.and_true]

/-- the explicit spelling, at top level and nested, succeeding and failing: an action `a` spelled
`x0 = start_action; with x0.context(): …; x0.finish()` holding a message, a `with` block and an action
`b` spelled with `x1.run` and finished with exception 1 (class `Mid`: `Base`'s extractor), then a
message; then a task spelled explicitly with two context segments -/
def exProgE : Block :=
  .cons (.startAs 0 false { atype := "a", fields := [("x", .nat 1)], sers := some ([("x", 7)], [("y", 8)]) })
  (.cons (.inContext 0
    (.cons (.log { mtype := "m" })
    (.cons (.addSuccess none [("y", .nat 2)])
    (.cons (.withAction false { atype := "w" } (.cons (.log { mtype := "in-w" }) .nil))
    (.cons (.startAs 1 false { atype := "b" })
    (.cons (.runIn 1 (.cons (.log { mtype := "in-b" }) .nil))
    (.cons (.finish 1 (some 1))
    (.cons (.log { mtype := "after-b" }) .nil))))))))
  (.cons (.finish 0 none)
  (.cons (.startAs 0 true { atype := "t" })
  (.cons (.inContext 0 (.cons (.log { mtype := "t1" }) .nil))
  (.cons (.runIn 0 (.cons (.log { mtype := "t2" }) .nil))
  (.cons (.finish 0 none) .nil))))))

theorem exHypsE : exProgE.structured false false = true ∧ (denB exEnvX none false exProgE ⟨0, 0, 0, 0⟩ []).wf = true ∧
    F.clean (denB exEnvX none false exProgE ⟨0, 0, 0, 0⟩ []).f = true := by decide +kernel

/-- the same program spelled with `with` blocks (`b` fails by raising, caught outside) -/
def exProgEW : Block :=
  .cons (.withAction false { atype := "a", fields := [("x", .nat 1)], sers := some ([("x", 7)], [("y", 8)]) }
    (.cons (.log { mtype := "m" })
    (.cons (.addSuccess none [("y", .nat 2)])
    (.cons (.withAction false { atype := "w" } (.cons (.log { mtype := "in-w" }) .nil))
    (.cons (.tryCatch (.cons (.withAction false { atype := "b" } (.cons (.log { mtype := "in-b" }) (.cons (.raise 1) .nil))) .nil) .nil)
    (.cons (.log { mtype := "after-b" }) .nil))))))
  (.cons (.withAction true { atype := "t" } (.cons (.log { mtype := "t1" }) (.cons (.log { mtype := "t2" }) .nil)))
  .nil)

-- both spellings put exactly the same 14 dicts on the wire (computed on the model of the real code) …
example : (execB exEnvX none {} (.cons (.addDests [1, 2]) exProgE)).1.stage =
      (execB exEnvX none {} (.cons (.addDests [1, 2]) exProgEW)).1.stage ∧
    (execB exEnvX none {} (.cons (.addDests [1, 2]) exProgE)).1.stage.length = 14 ∧
    (execB exEnvX none {} (.cons (.addDests [1, 2]) exProgE)).2 = .ok := by decide +kernel

-- … have the same denotation …
example : (F.tops (denB exEnvX none false exProgE ⟨0, 0, 0, 0⟩ []).f).flatMap (fun e => T.top exEnvX exσ e.1 e.2) =
      (F.tops (denB exEnvX none false exProgEW ⟨0, 0, 0, 0⟩ []).f).flatMap (fun e => T.top exEnvX exσ e.1 e.2) ∧
    (specOf (denB exEnvX none false exProgE ⟨0, 0, 0, 0⟩ []).f).map (fun e => PM.tmsgs e.1 e.2) =
      (specOf (denB exEnvX none false exProgEW ⟨0, 0, 0, 0⟩ []).f).map (fun e => PM.tmsgs e.1 e.2) := by
  decide +kernel

-- … which is what was staged (by the theorem), and parses back to the two performed trees
example : (execB exEnvX none {} (.cons (.addDests [1, 2]) exProgE)).1.stage =
    (F.tops (denB exEnvX none false exProgE ⟨0, 0, 0, 0⟩ []).f).flatMap (fun e => T.top exEnvX exσ e.1 e.2) :=
  (emitted_is_forest exOKX (by decide) exProgE exHypsE.1 exHypsE.2.1).1

example : ((execB exEnvX none {} (.cons (.addDests [1, 2]) exProgE)).1.stage.filterMap toPMsg).map
      (fun m => (m.uuid, m.level, m.atype, m.status)) =
    [("u0", [1], some "a", some "started"), ("u0", [2], none, none),
     ("u0", [3, 1], some "w", some "started"), ("u0", [3, 2], none, none), ("u0", [3, 3], some "w", some "succeeded"),
     ("u0", [4, 1], some "b", some "started"), ("u0", [4, 2], none, none), ("u0", [4, 3], some "b", some "failed"),
     ("u0", [5], none, none), ("u0", [6], some "a", some "succeeded"),
     ("u1", [1], some "t", some "started"), ("u1", [2], none, none), ("u1", [3], none, none),
     ("u1", [4], some "t", some "succeeded")] := by decide +kernel

example : ∃ out, PM.parseStream ((execB exEnvX none {} (.cons (.addDests [1, 2]) exProgE)).1.stage.filterMap toPMsg).reverse = .ok out ∧
    Reconstructs (specOf (denB exEnvX none false exProgE ⟨0, 0, 0, 0⟩ []).f) out := by
  obtain ⟨l, h1, _, _, _, hp⟩ := roundtrip (ds := [1, 2]) exOKX exProgE exHypsE.1 exHypsE.2.1 exHypsE.2.2
  have : (execB exEnvX none {} (.cons (.addDests [1, 2]) exProgE)).1.stage.filterMap toPMsg = l := by
    have := congrArg (List.filterMap id) h1
    simpa [List.filterMap_map, Function.comp_def] using this
  rw [this]
  exact hp _ (List.reverse_perm l)

/-- `x.log(..)`, `x.add_success_fields(..)` and `with x:` on a handle: action `a` gets a message through
its handle before and after a context segment, success fields through the handle, and is closed by
`with x0:` whose body fails; a task is started and entered later with `with x1:` -/
def exProgH : Block :=
  .cons (.tryCatch
    (.cons (.startAs 0 false { atype := "a", sers := some ([], [("y", 8)]) })
    (.cons (.logTo 0 { mtype := "first", fields := [("k", .str "v")], sers := some [("k", 5)] })
    (.cons (.inContext 0 (.cons (.log { mtype := "m" }) .nil))
    (.cons (.addSuccess (some 0) [("y", .nat 2)])
    (.cons (.logTo 0 { mtype := "second" })
    (.cons (.withHandle 0 (.cons (.log { mtype := "in-with" }) (.cons (.raise 2) .nil)))
    (.cons (.log { mtype := "never" }) .nil)))))))
    (.cons .writeTraceback .nil))
  (.cons (.startAs 1 true { atype := "t" })
  (.cons (.withHandle 1 (.cons (.log { mtype := "t1" }) .nil))
  (.cons (.log { mtype := "outside" }) .nil)))

theorem exHypsH : exProgH.structured false false = true ∧ (denB exEnvX none false exProgH ⟨0, 0, 0, 0⟩ []).wf = true ∧
    F.clean (denB exEnvX none false exProgH ⟨0, 0, 0, 0⟩ []).f = true := by decide +kernel

/-- the same with `with` blocks -/
def exProgHW : Block :=
  .cons (.tryCatch
    (.cons (.withAction false { atype := "a", sers := some ([], [("y", 8)]) }
      (.cons (.log { mtype := "first", fields := [("k", .str "v")], sers := some [("k", 5)] })
      (.cons (.log { mtype := "m" })
      (.cons (.addSuccess none [("y", .nat 2)])
      (.cons (.log { mtype := "second" })
      (.cons (.log { mtype := "in-with" })
      (.cons (.raise 2) .nil)))))))
    (.cons (.log { mtype := "never" }) .nil))
    (.cons .writeTraceback .nil))
  (.cons (.withAction true { atype := "t" } (.cons (.log { mtype := "t1" }) .nil))
  (.cons (.log { mtype := "outside" }) .nil))

-- same 11 dicts on the wire, in the same order; the failed end of "a" carries `Leaf`'s extracted field
example : (execB exEnvX none {} (.cons (.addDests [1, 2]) exProgH)).1.stage =
      (execB exEnvX none {} (.cons (.addDests [1, 2]) exProgHW)).1.stage ∧
    (execB exEnvX none {} (.cons (.addDests [1, 2]) exProgH)).1.stage.length = 11 ∧
    ((execB exEnvX none {} (.cons (.addDests [1, 2]) exProgH)).1.stage[5]?.bind (·.get? "leaf")) = some (.nat 1) ∧
    ((execB exEnvX none {} (.cons (.addDests [1, 2]) exProgH)).1.stage[1]?.bind (·.get? "k")) = some (.serOut 5 0 (.str "v")) := by
  decide +kernel

example : (execB exEnvX none {} (.cons (.addDests [1, 2]) exProgH)).1.stage =
    (F.tops (denB exEnvX none false exProgH ⟨0, 0, 0, 0⟩ []).f).flatMap (fun e => T.top exEnvX exσ e.1 e.2) :=
  (emitted_is_forest exOKX (by decide) exProgH exHypsH.1 exHypsH.2.1).1

example : ∃ out, PM.parseStream ((execB exEnvX none {} (.cons (.addDests [1, 2]) exProgH)).1.stage.filterMap toPMsg).reverse = .ok out ∧
    Reconstructs (specOf (denB exEnvX none false exProgH ⟨0, 0, 0, 0⟩ []).f) out := by
  obtain ⟨l, h1, _, _, _, hp⟩ := roundtrip (ds := [1, 2]) exOKX exProgH exHypsH.1 exHypsH.2.1 exHypsH.2.2
  have : (execB exEnvX none {} (.cons (.addDests [1, 2]) exProgH)).1.stage.filterMap toPMsg = l := by
    have := congrArg (List.filterMap id) h1
    simpa [List.filterMap_map, Function.comp_def] using this
  rw [this]
  exact hp _ (List.reverse_perm l)

-- a segment body that raises is outside the fragment: `wf` says so
example : (denB exEnvX none false
    (.cons (.startAs 0 false { atype := "a" }) (.cons (.inContext 0 (.cons (.raise 1) .nil)) (.cons (.finish 0 none) .nil))) ⟨0, 0, 0, 0⟩ []).wf
      = false := by decide +kernel

/-- a concrete `JsonView` for dicts of natural numbers (keys as code points, values as JSON integers) -/
def natView : JsonView where
  py := fun m => .dict (m.map fun kv => (.str (kv.1.toList.map Char.toNat), match kv.2 with | .nat n => .int n | _ => .null))
  jv := fun m => .obj (m.map fun kv => (kv.1.toList.map Char.toNat, match kv.2 with | .nat n => .int n | _ => .null))
  back := fun j => match j with
    | .obj kvs => some (kvs.map fun kv => (String.ofList (kv.1.map Char.ofNat), match kv.2 with | .int i => FV.nat i.toNat | _ => FV.nat 0))
    | _ => none

-- on {"a": 1, "b": 20} it is faithful, and C10's codec writes the line {"a":1,"b":20}
example : natView.Faithful false [("a", .nat 1), ("b", .nat 20)] ∧
    (natView.codec false).enc [("a", .nat 1), ("b", .nat 20)] = [123, 34, 97, 34, 58, 49, 44, 34, 98, 34, 58, 50, 48, 125] := by
  refine ⟨⟨by rfl, ?_, ?_, by decide, by decide⟩, by rfl⟩
  · simp [natView, EJ.JsonNative, EJ.JsonNativeM, EJ.inRange, EJ.Scalar]
  · simp [natView, EJ.NodupKeysDeep, EJ.NodupKeysDeepM]

-- the codec step on two concrete lines: {"a":1}\n{"b":2}\n
example : EJ.readLines [123, 34, 97, 34, 58, 49, 125, 10, 123, 34, 98, 34, 58, 50, 125, 10] =
    [[123, 34, 97, 34, 58, 49, 125], [123, 34, 98, 34, 58, 50, 125]] := by decide

end Sys.C01
