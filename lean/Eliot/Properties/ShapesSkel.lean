import Eliot.Generated.Shapes
/-!
# Skeleton E16 — four small functions are still written the way the models transcribe them

`_MessageSerializer.serialize` (one pass over the declared fields, each replaced by its serializer's output: `Sys.serializeFields`,
C13), `_MessageSerializer.validate` (presence, per-field validation, then the no-extras rule: `Model/Validation.lean`, C14),
`ErrorExtraction.get_fields_for_exception` (guard, walk of the MRO, the first registered class wins, a failing extractor is logged
under the guard and yields `{}`: `World.getFields` / `firstExtractor`, C03 / C07) and `register_exception_extractor` (a plain
assignment into the registry).
-/
namespace Eliot.ShapesSkel
open Eliot.Generated

theorem serialize_shape : Shapes.serializeBody = ["for key, field in self.fields.items():\n    message[key] = field.serialize(message[key])"] := rfl
theorem validate_shape : Shapes.validateBody = ["for key, field in self.fields.items():\n    if key not in message:\n        raise ValidationError(message, 'Field %r is missing' % (key,))\n    field.validate(message[key])", "if self.allow_additional_fields:\n    return", "fieldSet = set(self.fields) | set(RESERVED_FIELDS)", "for key in message:\n    if key not in fieldSet:\n        raise ValidationError(message, 'Unexpected field %r' % (key,))"] := rfl
theorem extractor_lookup_shape : Shapes.extractorLookupBody = ["if _LOGGING_EXTRACTOR_FAILURE.get():\n    return {}", "for klass in getmro(exception.__class__):\n    if klass in self.registry:\n        extractor = self.registry[klass]\n        try:\n            return extractor(exception)\n        except:\n            from ._traceback import write_traceback\n            token = _LOGGING_EXTRACTOR_FAILURE.set(True)\n            try:\n                write_traceback(logger)\n            finally:\n                _LOGGING_EXTRACTOR_FAILURE.reset(token)\n            return {}", "return {}"] := rfl
theorem register_shape : Shapes.registerBody = ["self.registry[exception_class] = extractor"] := rfl

end Eliot.ShapesSkel
