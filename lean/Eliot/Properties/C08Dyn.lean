import Eliot.Proofs.SysReg
import Eliot.Properties.C08
/-!
# C08, unrestricted — destinations registered and removed while the program runs

`Properties/C08.lean` states `offered_same_everywhere` / `healthy_unaffected` for programs that do
not (un)register destinations.  Here the quantifier is **every** program of the model's language
(`addDests` / `removeDest` / `addGlobals` anywhere, also inside actions and handlers; the first
`addDests` re-delivers the start-up buffer) and every environment (all failure masks).

`World.stageAt` is a ghost list parallel to `stage`: `deliver` records `dests` — the registered
destinations — at the moment it stages an entry (`World.staged` = the two zipped).  A message that
is buffered before the first `Destinations.add` is staged twice, as in the code: once when it is
buffered (registered: nobody) and once when the first `add(*ds)` sends it again (registered: `ds`).

* `calls_exact`: the complete sequence of destination calls of a run, across destinations, is
  entry by entry "every destination registered at that moment, in registration order" — nothing
  else is ever called, nothing is skipped, no call is late.
* `offered_while_registered`: for every destination `d`, what `d` is offered is exactly the
  subsequence of staged entries that were staged while `d` was registered, in stage order, each
  exactly once (each as often as `d` was registered, should some `add` have registered it twice —
  `dupAdd`).
* `healthy_accepts_while_registered`: a destination that never raises accepts all of these,
  whatever the others do.
* `offered_since`: the incremental form, from any reachable world.
* `unregistered_gets_nothing`, `removed_gets_nothing_after`, `added_later_gets_nothing_before`:
  the syntactic corollaries (a program that never adds `d` never makes `d` receive anything).
* `offered_same_everywhere_reg`, `run_offered_eq_stage_reg`: the fixed-registration theorems of
  `Properties/C08.lean` as special cases.
-/
namespace Sys.C08
open Sys

/-- the registration invariant holds after every program, from every world in which it holds -/
theorem reg_preserved (env : Env) (cur : Option Exc) (w : World) (p : Block) (hw : Reg env w) :
    Reg env (execB env cur w p).1 :=
  (reg_execB env cur w p).2 hw

/-- **calls_exact**: every program, every environment.  `stageAt` is parallel to `stage`, and the
whole sequence of destination calls (`offered`, all destinations interleaved as they were called)
is: for each staged entry in turn, one call of each destination registered at that moment. -/
theorem calls_exact (env : Env) (cur : Option Exc) (p : Block) :
    let w' := (execB env cur {} p).1
    w'.stageAt.length = w'.stage.length ∧ w'.offered = fanCalls w'.staged := by
  intro w'
  have r := reg_preserved env cur {} p (Reg.init env)
  exact ⟨r.len, r.off⟩

theorem reg_offeredTo {env : Env} {w : World} (r : Reg env w) (d : Nat) : offeredTo w d = seenBy d w.staged := by
  rw [offeredTo, r.off, fanCalls_filter]

theorem reg_staged_nodup {env : Env} {w : World} (r : Reg env w) (hd : w.dupAdd = false) : ∀ e ∈ w.staged, e.2.Nodup :=
  fun _ he => (r.nodup hd).2 _ (mem_zip_snd he)

/-- **offered_while_registered**: every program (destinations added and removed anywhere), every
environment, every destination: the sequence offered to `d` is the sequence of staged entries
that were staged while `d` was registered, in stage order; each exactly once unless some
`Destinations.add` registered a destination twice (then: once per registration). -/
theorem offered_while_registered (env : Env) (cur : Option Exc) (p : Block) (d : Nat) :
    let w' := (execB env cur {} p).1
    offeredTo w' d = seenBy d w'.staged ∧ (w'.dupAdd = false → offeredTo w' d = stagedWhile d w'.staged) := by
  intro w'
  have r := reg_preserved env cur {} p (Reg.init env)
  refine ⟨reg_offeredTo r d, fun hd => ?_⟩
  rw [reg_offeredTo r d, seenBy_eq_stagedWhile d _ (reg_staged_nodup r hd)]

/-- **healthy_accepts_while_registered**: a destination that never raises accepts every entry
staged while it was registered, whatever the other destinations do and whenever they come and go. -/
theorem healthy_accepts_while_registered (env : Env) (cur : Option Exc) (p : Block) (d : Nat) (hh : healthy env d) :
    let w' := (execB env cur {} p).1
    acceptedBy w' d = seenBy d w'.staged ∧ (w'.dupAdd = false → acceptedBy w' d = stagedWhile d w'.staged) := by
  intro w'
  have r := reg_preserved env cur {} p (Reg.init env)
  have h := offered_while_registered env cur p d
  exact ⟨(r.acc d hh).trans h.1, fun hd => (r.acc d hh).trans (h.2 hd)⟩

/-- nothing is offered to anybody before the first `Destinations.add` -/
theorem nothing_before_first_add (env : Env) (cur : Option Exc) (p : Block) :
    let w' := (execB env cur {} p).1
    w'.anyAdded = false → w'.offered = [] ∧ w'.dests = [] := by
  intro w' ha
  have r := reg_preserved env cur {} p (Reg.init env)
  refine ⟨?_, r.idle ha⟩
  rw [r.off, fanCalls]
  apply List.flatMap_eq_nil_iff.mpr
  intro e he
  rw [r.quiet ha e.2 (mem_zip_snd he)]
  rfl

/-- **offered_since**: the incremental form.  From any world in which the invariant holds (every
world a program reaches from the initial one), any program: `d` is offered, in addition, exactly
the entries staged from now on while it is registered. -/
theorem offered_since (env : Env) (cur : Option Exc) (w : World) (p : Block) (hw : Reg env w) (d : Nat) :
    let w' := (execB env cur w p).1
    offeredTo w' d = offeredTo w d ++ seenBy d (newStaged w w') ∧
    (w'.dupAdd = false → offeredTo w' d = offeredTo w d ++ stagedWhile d (newStaged w w')) ∧
    (healthy env d → acceptedBy w' d = acceptedBy w d ++ seenBy d (newStaged w w')) := by
  intro w'
  have s := reg_execB env cur w p
  have r' : Reg env w' := s.2 hw
  have e := staged_split s.1 hw r'
  have h1 : offeredTo w' d = offeredTo w d ++ seenBy d (newStaged w w') := by
    rw [reg_offeredTo r' d, reg_offeredTo hw d, ← seenBy_append, ← e]
  refine ⟨h1, fun hd => ?_, fun hh => ?_⟩
  · have hn : ∀ x ∈ newStaged w w', x.2.Nodup := fun x hx => reg_staged_nodup r' hd x (List.mem_of_mem_drop hx)
    rw [h1, seenBy_eq_stagedWhile d (newStaged w w') hn]
  · rw [r'.acc d hh, hw.acc d hh, h1]

/-- **unregistered_gets_nothing**: from *any* world in which `d` is not registered, a program that
never passes `d` to `add_destinations` leaves `d` unregistered and `d` is offered (and accepts)
nothing — whatever else is registered, removed, logged or fails meanwhile. -/
theorem unregistered_gets_nothing (env : Env) (cur : Option Exc) (w : World) (p : Block) (d : Nat)
    (hd : d ∉ w.dests) (hp : p.neverAdds d = true) :
    let w' := (execB env cur w p).1
    d ∉ w'.dests ∧ offeredTo w' d = offeredTo w d ∧ acceptedBy w' d = acceptedBy w d :=
  unreg_execB env d cur w p hp hd

/-- **removed_gets_nothing_after** (a): `remove_destination(d)` followed by any program that does
not add `d` again: `d` receives nothing that is staged afterwards.  (`Nodup`: `d` was registered
once; `Destinations.remove` removes one registration.) -/
theorem removed_gets_nothing_after (env : Env) (cur : Option Exc) (w : World) (p : Block) (d : Nat)
    (hn : w.dests.Nodup) (hp : p.neverAdds d = true) :
    let w' := (execB env cur w (.cons (.removeDest d) p)).1
    offeredTo w' d = offeredTo w d ∧ acceptedBy w' d = acceptedBy w d := by
  intro w'
  by_cases hd : d ∈ w.dests
  · have e : w' = (execB env cur ({ w with dests := w.dests.erase d } : World) p).1 := by
      simp only [w', execB, execS, hd, if_true]
    have hd' : d ∉ ({ w with dests := w.dests.erase d } : World).dests := fun h => by
      have := (List.Nodup.mem_erase_iff hn).mp h
      exact this.1 rfl
    rw [e]
    exact (unreg_execB env d cur _ p hp hd').2
  · have e : w' = w := by
      simp only [w', execB, execS, hd, if_false]
    rw [e]
    exact ⟨rfl, rfl⟩

/-- (a) for whole runs: any program `p1` from the initial world (no destination registered twice
so far), then `remove_destination(d)`, then any program that does not add `d` again. -/
theorem removed_gets_nothing_after_run (env : Env) (cur cur' : Option Exc) (p1 p2 : Block) (d : Nat)
    (hp : p2.neverAdds d = true) :
    let w1 := (execB env cur {} p1).1
    let w2 := (execB env cur' w1 (.cons (.removeDest d) p2)).1
    w1.dupAdd = false → offeredTo w2 d = offeredTo w1 d ∧ acceptedBy w2 d = acceptedBy w1 d := by
  intro w1 w2 hd
  have r := reg_preserved env cur {} p1 (Reg.init env)
  exact removed_gets_nothing_after env cur' w1 p2 d (r.nodup hd).1 hp

/-- **added_later_gets_nothing_before** (b): while a run has not yet added `d`, `d` has received
nothing; whatever follows, `d` is offered exactly the entries staged *afterwards* while it is
registered — nothing that was staged before (messages still buffered at that moment are staged
again by the first `add`, and only that copy counts). -/
theorem added_later_gets_nothing_before (env : Env) (cur cur' : Option Exc) (p1 p2 : Block) (d : Nat)
    (hp : p1.neverAdds d = true) :
    let w1 := (execB env cur {} p1).1
    let w2 := (execB env cur' w1 p2).1
    offeredTo w1 d = [] ∧ d ∉ w1.dests ∧ offeredTo w2 d = seenBy d (newStaged w1 w2) := by
  intro w1 w2
  have h := unreg_execB env d cur {} p1 hp (fun h => nomatch h)
  have r := reg_preserved env cur {} p1 (Reg.init env)
  have h2 := (offered_since env cur' w1 p2 r d).1
  refine ⟨h.2.1, h.1, ?_⟩
  show offeredTo (execB env cur' w1 p2).1 d = _
  rw [h2, h.2.1]
  rfl

/-! ### the fixed-registration theorems as special cases -/

/-- (c) `offered_same_everywhere` + `healthy_unaffected` from the registration invariant: a program
that does not (un)register destinations, from a reachable world: every registered destination is
offered exactly the new stage. -/
theorem offered_same_everywhere_reg (env : Env) (cur : Option Exc) (w : World) (p : Block) (hp : p.noCfg = true)
    (hw : Reg env w) (hn : w.dests.Nodup) :
    let w' := (execB env cur w p).1
    w'.dests = w.dests ∧ ∀ d ∈ w.dests, offeredTo w' d = offeredTo w d ++ newStage w w' ∧
      (healthy env d → acceptedBy w' d = acceptedBy w d ++ newStage w w') := by
  intro w'
  have c : Const w w' := const_execB env cur w p hp
  have s := reg_execB env cur w p
  have r' : Reg env w' := s.2 hw
  refine ⟨c.1, fun d hd => ?_⟩
  have h := offered_since env cur w p hw d
  have e : seenBy d (newStaged w w') = newStage w w' := seenBy_const s.1 hw r' c hn hd
  exact ⟨by rw [h.1, e], fun hh => by rw [h.2.2 hh, e]⟩

/-- (c) `run_offered_eq_stage` from the registration invariant: destinations registered once at the
start (after any number of buffered messages: `p0` is any program without configuration
statements), then any program without configuration statements — every destination's offered
sequence is the stage from the registration on. -/
theorem run_offered_eq_stage_reg (env : Env) (ds : List Nat) (hn : ds.Nodup) (p : Block) (hp : p.noCfg = true) :
    let w' := (execB env none {} (.cons (.addDests ds) p)).1
    ∀ d ∈ ds, offeredTo w' d = w'.stage ∧ (healthy env d → acceptedBy w' d = w'.stage) := by
  intro w' d hd
  have hdup : hasDup ds = false := (hasDup_eq_false_iff ds).mpr hn
  have e : w' = (execB env none ({ anyAdded := true, dests := ds } : World) p).1 := by
    simp only [w', execB, execS, World.addDests, hdup]
    rfl
  have hw0 : Reg env ({ anyAdded := true, dests := ds } : World) :=
    ⟨rfl, rfl, fun _ _ => rfl, fun h => (by cases h), fun h => (by cases h), fun _ => ⟨hn, fun _ hl => (nomatch hl)⟩⟩
  have h := (offered_same_everywhere_reg env none _ p hp hw0 hn).2 d hd
  rw [e]
  refine ⟨?_, fun hh => ?_⟩
  · simpa [offeredTo, newStage] using h.1
  · simpa [acceptedBy, newStage] using h.2 hh

/-! ## Non-vacuity: three destinations with three different registration periods

`z` is logged before anything is registered (buffered), then `add(0, 1)` re-delivers it; `a`;
destination 0 fails on its second call (`a`), which stages a report `r`; `add(2)`; `b`;
`remove(0)`; `c`.  Destination 0 is offered `z a r b`, destination 1 `z a r b c`, destination 2
`b c`. -/
def dynProg : Block :=
  .cons (.log { mtype := "z" }) <| .cons (.addDests [0, 1]) <| .cons (.log { mtype := "a" }) <|
  .cons (.addDests [2]) <| .cons (.log { mtype := "b" }) <| .cons (.removeDest 0) <| .cons (.log { mtype := "c" }) .nil

def mtypes (l : List Msg) : List (Option FV) := l.map (fun m => m.get? "message_type")

example :
    let w' := (execB Sys.C04.exEnv none {} dynProg).1
    w'.stageAt = [[], [0, 1], [0, 1], [0, 1], [0, 1, 2], [1, 2]] ∧ w'.dupAdd = false ∧
    mtypes w'.stage = [some (.str "z"), some (.str "z"), some (.str "a"), some (.str DESTINATION_FAILURE), some (.str "b"), some (.str "c")] ∧
    mtypes (offeredTo w' 0) = [some (.str "z"), some (.str "a"), some (.str DESTINATION_FAILURE), some (.str "b")] ∧
    mtypes (offeredTo w' 1) = [some (.str "z"), some (.str "a"), some (.str DESTINATION_FAILURE), some (.str "b"), some (.str "c")] ∧
    mtypes (offeredTo w' 2) = [some (.str "b"), some (.str "c")] ∧
    mtypes (acceptedBy w' 0) = [some (.str "z"), some (.str DESTINATION_FAILURE), some (.str "b")] ∧
    offeredTo w' 0 = stagedWhile 0 w'.staged ∧ offeredTo w' 1 = stagedWhile 1 w'.staged ∧
    offeredTo w' 2 = stagedWhile 2 w'.staged ∧ acceptedBy w' 2 = stagedWhile 2 w'.staged ∧
    offeredTo w' 0 ≠ offeredTo w' 1 ∧ offeredTo w' 1 ≠ offeredTo w' 2 ∧ offeredTo w' 3 = [] := by
  decide +kernel

/-- the hypotheses of the corollaries are satisfiable on this run: the tail after `remove(0)` never
adds 0 again, the head before `add(2)` never adds 2 -/
example : (Block.cons (.log { mtype := "c" }) .nil).neverAdds 0 = true ∧
    (Block.cons (.log { mtype := "z" }) (.cons (.addDests [0, 1]) (.cons (.log { mtype := "a" }) .nil))).neverAdds 2 = true ∧
    dynProg.neverAdds 2 = false ∧ dynProg.noCfg = false := by
  decide

/-- a destination registered twice is offered every entry twice: `seenBy`, not `stagedWhile` -/
example :
    let w' := (execB Sys.C04.exEnv none {} (.cons (.addDests [1, 1]) (.cons (.log { mtype := "m" }) .nil))).1
    w'.dupAdd = true ∧ (offeredTo w' 1).length = 2 ∧ offeredTo w' 1 = seenBy 1 w'.staged ∧
    (stagedWhile 1 w'.staged).length = 1 := by
  decide +kernel

end Sys.C08
