import Eliot.Proofs.CtxSched
import Eliot.Generated.ActionContext
/-! # C05 — concurrent threads and coroutines never leak action context into each other

Model: `Eliot.Conc.Ctx`.  `run p σ` executes schedule `σ` (a list of unit ids, disabled picks
stutter) from the initial state of program `p`; `seqLog p` is the log of the sequential reference run.
*Partial by nature*: the theorems are about the modelled `ContextVar` semantics (one value per
thread, copied into an asyncio task when it is created); that CPython behaves so is validated by the
correspondence run, not proved.  Two units sharing one `Action` object is outside the model. -/
namespace Ctx.C05
open Ctx

/-- **Non-interference**: a step of unit `u` changes nothing — in particular not the current action —
of any other unit that is already running.  (The only other thing a step can touch is the fresh
context of the unit it spawns.) -/
theorem ctx_noninterference {p : Prog} {s s' : State} {u : Nat} (h : step p s u = some s') :
    ∀ w, w ≠ u → (s.units w).started = true → s'.units w = s.units w ∧ (s'.units w).ctx = (s.units w).ctx := by
  intro w hw hws
  obtain ⟨st, rest, _, _, _, _, _, ho⟩ := step_shape h
  have : s'.units w = s.units w := by
    rcases ho with ho | ⟨v, _, _, _, hvs, _, _, _, _, ho⟩
    · exact ho w hw
    · exact ho w hw (fun e => by rw [e, hvs] at hws; cases hws)
  exact ⟨this, by rw [this]⟩

/-- a new thread starts with no current action, whatever its creator is doing -/
theorem new_thread_no_action {p : Prog} {s s' : State} {u v : Nat} {rest : List Stmt}
    (hc : (s.units u).code = .spawnThread v :: rest) (h : step p s u = some s') :
    (s'.units v).started = true ∧ (s'.units v).ctx = none ∧ (s'.units v).toks = [] ∧ (s'.units v).code = p.code v := by
  obtain ⟨st, rest', _, hc', _, _, _, ho⟩ := step_shape h
  rw [hc] at hc'
  obtain ⟨rfl, rfl⟩ := List.cons.inj hc'
  rcases ho with ho | ⟨v', hst, _, _, _, h1, h2, h3, h4, _⟩
  · -- a spawn step always takes the second alternative: `v` is not started before, started after
    exfalso
    unfold step at h
    simp only [hc] at h
    split at h
    · cases h
    · split at h
      · rename_i hg
        simp only [Option.some.injEq] at h
        have huv : v ≠ u := (Nat.ne_of_lt hg.1).symm
        have := ho v huv
        rw [← h] at this
        simp [State.setUnit, hg.2.2] at this
        rw [← this] at hg
        simp at hg
      · cases h
  · rcases hst with hst | hst
    · cases hst; exact ⟨h1, by simpa using h4, h3, h2⟩
    · cases hst

/-- an asyncio task starts with the action that was current in its creator when it was created -/
theorem task_inherits_creator {p : Prog} {s s' : State} {u v : Nat} {rest : List Stmt}
    (hc : (s.units u).code = .spawnTask v :: rest) (h : step p s u = some s') :
    (s'.units v).started = true ∧ (s'.units v).ctx = (s.units u).ctx ∧ (s'.units v).toks = [] ∧ (s'.units v).code = p.code v := by
  obtain ⟨st, rest', _, hc', _, _, _, ho⟩ := step_shape h
  rw [hc] at hc'
  obtain ⟨rfl, rfl⟩ := List.cons.inj hc'
  rcases ho with ho | ⟨v', hst, _, _, _, h1, h2, h3, h4, _⟩
  · exfalso
    unfold step at h
    simp only [hc] at h
    split at h
    · cases h
    · split at h
      · rename_i hg
        simp only [Option.some.injEq] at h
        have huv : v ≠ u := (Nat.ne_of_lt hg.1).symm
        have := ho v huv
        rw [← h] at this
        simp [State.setUnit, hg.2.2] at this
        rw [← this] at hg
        simp at hg
      · cases h
  · rcases hst with hst | hst
    · cases hst
    · cases hst; exact ⟨h1, by simpa using h4, h3, h2⟩

/-- **Attribution is schedule independent.**  For every program with unique occurrence ids, any two
schedules (complete or not) and every occurrence emitted under both: the action it is attributed to
is the same.  (`Joined p` is not needed for this in the model; it is kept so that the statement is
the one of the property.  Unique ids: `OccUnique p`, every (occurrence, kind) is emitted at most
once by the sequential reference run.) -/
theorem attribution_schedule_independent {p : Prog} (hU : OccUnique p) (_hJ : Joined p) (σ₁ σ₂ : List Nat) :
    ∀ r₁ ∈ (run p σ₁).log, ∀ r₂ ∈ (run p σ₂).log, r₁.key = r₂.key → r₁.parent = r₂.parent ∧ r₁.unit = r₂.unit := by
  intro r₁ h₁ r₂ h₂ hk
  have := eq_of_key_eq hU (log_subset_seq p σ₁ r₁ h₁) (log_subset_seq p σ₂ r₂ h₂) hk
  subst this
  exact ⟨rfl, rfl⟩

/-- the same, through the lookup function `parentOcc` -/
theorem attribution_schedule_independent_lookup {p : Prog} (hU : OccUnique p) (hJ : Joined p) (σ₁ σ₂ : List Nat)
    (k : Nat × Kind) (a b : Option Nat) :
    parentOcc (run p σ₁).log k = some a → parentOcc (run p σ₂).log k = some b → a = b := by
  intro h1 h2
  unfold parentOcc at h1 h2
  cases hf1 : (run p σ₁).log.find? (fun r => r.key = k) with
  | none => rw [hf1] at h1; cases h1
  | some r1 =>
    cases hf2 : (run p σ₂).log.find? (fun r => r.key = k) with
    | none => rw [hf2] at h2; cases h2
    | some r2 =>
      rw [hf1] at h1; rw [hf2] at h2
      simp only [Option.map_some, Option.some.injEq] at h1 h2
      have k1 : r1.key = k := by simpa using List.find?_some hf1
      have k2 : r2.key = k := by simpa using List.find?_some hf2
      have := (attribution_schedule_independent hU hJ σ₁ σ₂ r1 (List.mem_of_find?_eq_some hf1) r2
        (List.mem_of_find?_eq_some hf2) (k1.trans k2.symm)).1
      rw [← h1, ← h2, this]

/-- **The tree is schedule independent** (as the multiset of (unit, occurrence, kind, parent
occurrence) records, i.e. the unordered tree): in a fork–join program, any two schedules under which
the main unit finishes produce the same records, namely those of the sequential run. -/
theorem tree_shape_schedule_independent {p : Prog} (hJ : Joined p) (σ₁ σ₂ : List Nat)
    (h₁ : MainDone (run p σ₁)) (h₂ : MainDone (run p σ₂)) :
    (run p σ₁).log.Perm (run p σ₂).log ∧ (run p σ₁).log.Perm (seqLog p) :=
  have a₁ := log_perm_seq p σ₁ (allDone_of_mainDone (jinv_run hJ σ₁) h₁)
  have a₂ := log_perm_seq p σ₂ (allDone_of_mainDone (jinv_run hJ σ₂) h₂)
  ⟨a₁.trans a₂.symm, a₁⟩

/-- without the fork–join hypothesis: any two schedules that finish every started unit -/
theorem tree_shape_schedule_independent_allDone {p : Prog} (σ₁ σ₂ : List Nat)
    (h₁ : AllDone (run p σ₁)) (h₂ : AllDone (run p σ₂)) : (run p σ₁).log.Perm (run p σ₂).log :=
  (log_perm_seq p σ₁ h₁).trans (log_perm_seq p σ₂ h₂).symm

/-- **Every unit logs in its own program order**, under every schedule: the keys unit `u` has logged so far are
a prefix of the keys its own statements emit in program order (`ownKeys`), all of them once it has finished.
So "the same tree up to the order of siblings that ran concurrently" does not allow reordering the
messages / child actions of ONE unit. -/
theorem unit_order (p : Prog) (σ : List Nat) (u : Nat) :
    unitKeys (run p σ).log u <+: ownKeys [] (p.code u) ∧
    (((run p σ).units u).started = true → ((run p σ).units u).code = [] →
      unitKeys (run p σ).log u = ownKeys [] (p.code u)) := by
  have h := oinv_run p σ
  constructor
  · by_cases hs : ((run p σ).units u).started = true
    · exact ⟨_, h.started u hs⟩
    · have : ((run p σ).units u).started = false := by simpa using hs
      rw [h.idle u this]; exact List.nil_prefix
  · intro hs hc
    have := h.started u hs
    rw [hc] at this
    simpa [ownKeys] using this

/-- … and the records themselves (with their parents), in that order, are the same under any two schedules
that finish the unit. -/
theorem unit_order_schedule_independent {p : Prog} (hU : OccUnique p) (σ₁ σ₂ : List Nat) (u : Nat)
    (s₁ : ((run p σ₁).units u).started = true) (d₁ : ((run p σ₁).units u).code = [])
    (s₂ : ((run p σ₂).units u).started = true) (d₂ : ((run p σ₂).units u).code = []) :
    unitLog (run p σ₁).log u = unitLog (run p σ₂).log u := by
  apply eq_of_map_key_eq hU
  · have a := (unit_order p σ₁ u).2 s₁ d₁
    have b := (unit_order p σ₂ u).2 s₂ d₂
    unfold unitKeys at a b
    unfold unitLog
    rw [a, b]
  · intro r hr
    have : r ∈ (run p σ₁).log := by
      have := (List.mem_filter.mp hr).1
      exact List.mem_reverse.mp this
    exact log_subset_seq p σ₁ r this
  · intro r hr
    have : r ∈ (run p σ₂).log := by
      have := (List.mem_filter.mp hr).1
      exact List.mem_reverse.mp this
    exact log_subset_seq p σ₂ r this

/-! ## Generated-skeleton obligation (E7): the current action lives in a `ContextVar` that is only
read with `.get`, written with `.set` and restored with `.reset`, nowhere else in the package, and every
`.reset(x)` restores a token that a `.set` in the same function / class stored in `x`. -/
example : Eliot.Generated.actionContext.isContextVar = true ∧ Eliot.Generated.actionContext.otherUses = 0 ∧
    Eliot.Generated.actionContext.foreignUses = 0 ∧ Eliot.Generated.actionContext.currentActionIsGet = true ∧
    Eliot.Generated.actionContext.sets = Eliot.Generated.actionContext.resets ∧ 0 < Eliot.Generated.actionContext.sets ∧
    Eliot.Generated.actionContext.pairedResets = Eliot.Generated.actionContext.resets := by
  decide

/-! ## Non-vacuity -/

/-- main: action 1 { thread 1; task 2; msg 3; join both } ; thread 1: msg 10, action 11 { msg 12 };
task 2: msg 20, action 21 { msg 22 } -/
def ex : Prog :=
  ⟨[[.enter 1, .spawnThread 1, .spawnTask 2, .log 3, .join 1, .join 2, .exit],
    [.log 10, .enter 11, .log 12, .exit],
    [.log 20, .enter 21, .log 22, .exit]]⟩

def σa : List Nat := [0, 0, 0, 1, 2, 1, 2, 0, 1, 2, 1, 2, 0, 0, 0]
def σb : List Nat := [0, 0, 0, 2, 2, 2, 2, 0, 1, 0, 1, 1, 1, 0, 0, 0]

example : Joined ex := by unfold Joined; decide
example : OccUnique ex := by
  unfold OccUnique seqLog
  simp [ex, Prog.code, Prog.n, denCode, Rec.key]
example : MainDone (run ex σa) ∧ MainDone (run ex σb) := by unfold MainDone; decide
example : (run ex σa).log.reverse.map (fun r => (r.unit, r.occ, r.parent)) =
    [(0, 1, none), (1, 10, none), (2, 20, some 1), (1, 11, none), (2, 21, some 1), (0, 3, some 1), (1, 12, some 11),
     (2, 22, some 21), (1, 11, some 11), (2, 21, some 21), (0, 1, some 1)] := by decide
example : (run ex σa).log ≠ (run ex σb).log := by decide
/-- a thread's message is attributed to no action although its creator is inside action 1; a task's to action 1 -/
example : parentOcc (run ex σb).log (10, .msg) = some none ∧ parentOcc (run ex σb).log (20, .msg) = some (some 1) := by decide

/-- shared Action objects.  Main: action 1 { create job 5; tasks 1 and 2; join both }.
Task 1: own action 11 { `with action_1.context():` msg 12 } msg 13.
Task 2: own action 21 { `with job_5:` msg 22 } msg 23.  Overlapping blocks (1 enters, 2 enters, 1 leaves, 2 leaves). -/
def exShared : Prog :=
  ⟨[[.enter 1, .create 5, .spawnTask 1, .spawnTask 2, .join 1, .join 2, .exit],
    [.enter 11, .ctxOf 1, .log 12, .exit, .log 13, .exit],
    [.enter 21, .withOf 5, .log 22, .exit, .log 23, .exit]]⟩
def σs : List Nat := [0, 0, 0, 0, 1, 2, 1, 2, 1, 2, 1, 2, 1, 2, 1, 2, 0, 0, 0]

example : Joined exShared := by unfold Joined; decide
example : OccUnique exShared := by
  unfold OccUnique seqLog
  simp [exShared, Prog.code, Prog.n, denCode, Rec.key]
example : MainDone (run exShared σs) := by unfold MainDone; decide
/-- inside the shared blocks the messages go to the shared actions; after them each task is back in its own action -/
example : (run exShared σs).log.reverse.filterMap (fun r => if r.kind = .msg then some (r.unit, r.occ, r.parent) else none) =
    [(1, 12, some 1), (2, 22, some 5), (1, 13, some 11), (2, 23, some 21)] := by decide
/-- a unit waits for a handle that has not been created yet -/
example : (step exShared (init exShared) 0).isSome ∧
    (step ⟨[[.withOf 5]]⟩ (init ⟨[[.withOf 5]]⟩) 0).isNone := by decide

/-- `preserve_context`: the wrapper is made inside action 1 (`spawnTask` = the action current there is what
unit 1 continues), the parent logs msg 2 before the thread calls it; the thread's messages go to the
continued action 10, a child of action 1, and after it the thread has no current action -/
def exRemote : Prog :=
  ⟨[[.enter 1, .spawnTask 1, .log 2, .join 1, .exit], [.remote 10, .log 11, .exit, .log 12]]⟩

example : Joined exRemote := by unfold Joined; decide
example : (run exRemote [0, 0, 0, 1, 1, 1, 1, 0, 0]).log.reverse.map (fun r => (r.unit, r.occ, r.kind, r.parent)) =
    [(0, 1, .start, none), (0, 2, .msg, some 1), (1, 10, .start, some 1), (1, 11, .msg, some 10), (1, 10, .end_, some 10),
     (1, 12, .msg, none), (0, 1, .end_, some 1)] := by decide

/-- a task spawned inside a `with job_5.context():` block of its creator and joined after that block: it keeps
action 5 although the creator has left it (msg 11 is logged after the creator's `exit`) -/
def exSegment : Prog :=
  ⟨[[.enter 1, .create 5, .ctxOf 5, .spawnTask 1, .exit, .log 2, .join 1, .withOf 5, .exit, .exit], [.log 11]]⟩

example : Joined exSegment := by unfold Joined; decide
example : (run exSegment [0, 0, 0, 0, 0, 0, 1, 0, 0, 0, 0]).log.reverse.filterMap
      (fun r => if r.kind = .msg then some (r.unit, r.occ, r.parent) else none) =
    [(0, 2, some 1), (1, 11, some 5)] := by decide

/-- unit 1 of `ex` logs msg 10, start 11, msg 12, end 11 — in this order under σa and σb -/
example : unitKeys (run ex σa).log 1 = [(10, .msg), (11, .start), (12, .msg), (11, .end_)] ∧
    unitKeys (run ex σb).log 1 = ownKeys [] (ex.code 1) := by decide

/-- entering an Action that is inside a `with` block of another unit is out of domain (disabled) -/
example : (run ⟨[[.create 5, .spawnTask 1, .withOf 5, .join 1, .exit], [.withOf 5, .exit]]⟩ [0, 0, 0, 1]).log.length = 1 := by
  decide

end Ctx.C05
