import Eliot.Model.Sys
import Eliot.Generated.ActionScope
/-! Skeleton obligations of C04: data regenerated from /repo's source on every run, compared by `decide`.
Kept in a module of their own so that a source change that breaks one of them does not also take the
property theorems' build down. -/
namespace Sys.C04

/-- **E6 (regenerated from /repo on every run)**: the source of `Action.__enter__/__exit__/run/context`
has the shape the model's `withBlock`/`scopedBlock` transliterate: the token is saved at entry, the
reset uses that token, `run`/`context` reset in a `finally`, `__exit__` resets the context (whether
before or after `finish` does not matter for C04 — that order is C02's obligation). -/
theorem skeleton_E6 :
    Generated.actionEnter = ["set", "return-self"] ∧
    Generated.actionExit.filter (· != "finish(exception)") = ["reset", "clear"] ∧
    Generated.actionRun = ["set", "try[return-call]finally[reset]"] ∧
    Generated.actionContext = ["@contextmanager", "set", "try[yield]finally[reset]"] := by decide

end Sys.C04
