import Eliot.Model.Validation
/-! # C14 — test-time validation accepts exactly the messages matching their declared types

Model: `Eliot/Model/Validation.lean`.  All theorems are for an arbitrary `Env` (user serializers and
extra validators are deterministic oracles) and hold at full strength. -/
namespace VM

/-! ## Dict facts -/

theorem Msg.get?_set_self (m : Msg) (k : String) (v : Val) : (m.set k v).get? k = some v := by
  induction m with
  | nil => simp [Msg.set, Msg.get?]
  | cons e rest ih =>
    obtain ⟨k', v'⟩ := e
    by_cases h : k' = Key.s k
    · simp [Msg.set, Msg.get?, h]
    · simp [Msg.set, Msg.get?, h, ih]

theorem Msg.get?_set_ne (m : Msg) (k k₂ : String) (v : Val) (h : k₂ ≠ k) : (m.set k v).get? k₂ = m.get? k₂ := by
  induction m with
  | nil =>
    have : ¬ (Key.s k = Key.s k₂) := by intro e; cases e; exact h rfl
    simp [Msg.set, Msg.get?, this]
  | cons e rest ih =>
    obtain ⟨k', v'⟩ := e
    by_cases h' : k' = Key.s k
    · subst h'
      have : ¬ (Key.s k = Key.s k₂) := by intro e; cases e; exact h rfl
      simp [Msg.set, Msg.get?, this]
    · by_cases h'' : k' = Key.s k₂
      · subst h''
        simp [Msg.set, Msg.get?, h']
      · simp [Msg.set, Msg.get?, h', h'', ih]

theorem Msg.mem_of_get? (m : Msg) (k : String) (v : Val) (h : m.get? k = some v) : (Key.s k, v) ∈ m := by
  induction m with
  | nil => simp [Msg.get?] at h
  | cons e rest ih =>
    obtain ⟨k', v'⟩ := e
    by_cases hk : k' = Key.s k
    · simp [Msg.get?, hk] at h
      simp [hk, h]
    · simp only [Msg.get?, hk, if_false] at h
      exact List.mem_cons_of_mem _ (ih h)

/-- `del m[k]` -/
def Msg.del (m : Msg) (k : String) : Msg := m.filter fun e => e.1 != Key.s k

theorem Msg.get?_del_self (m : Msg) (k : String) : (m.del k).get? k = none := by
  induction m with
  | nil => rfl
  | cons e rest ih =>
    obtain ⟨k', v'⟩ := e
    simp only [Msg.del] at ih
    by_cases h : k' = Key.s k
    · simp [Msg.del, List.filter_cons, h, ih]
    · have hb : (k' != Key.s k) = true := by simpa using h
      simp [Msg.del, List.filter_cons, hb, Msg.get?, h, ih]

/-! ## `validate_iff` -/

theorem accepts_iff (E : Env) (f : FieldSpec) (v : Val) : accepts E f v = true ↔ fieldValidate E f v = .ok () := by
  unfold accepts
  cases h : fieldValidate E f v with
  | ok u => cases u; simp
  | error e => simp

theorem validateFields_iff (E : Env) (m : Msg) : ∀ fs : List FieldSpec,
    validateFields E m fs = .ok () ↔ ∀ f ∈ fs, ∃ v, m.get? f.key = some v ∧ accepts E f v = true
  | [] => by simp [validateFields]
  | f :: fs => by
    have ih := validateFields_iff E m fs
    unfold validateFields
    cases hg : m.get? f.key with
    | none =>
      simp only [List.mem_cons, forall_eq_or_imp]
      constructor
      · intro h; cases h
      · intro h; obtain ⟨v, hv, _⟩ := h.1; rw [hg] at hv; cases hv
    | some v =>
      simp only [List.mem_cons, forall_eq_or_imp]
      cases hv : fieldValidate E f v with
      | error e =>
        constructor
        · intro h; cases h
        · intro h
          obtain ⟨v', hv', ha⟩ := h.1
          rw [hg] at hv'; cases hv'
          rw [accepts_iff, hv] at ha; cases ha
      | ok u =>
        cases u
        simp only
        rw [ih]
        constructor
        · intro h
          exact ⟨⟨v, hg, (accepts_iff E f v).mpr hv⟩, h⟩
        · intro h; exact h.2

theorem keyAllowed_iff (ser : Serializer) (k : Key) :
    keyAllowed ser k = true ↔ ∃ s, k = .s s ∧ (s ∈ ser.declared ∨ s ∈ reserved) := by
  cases k with
  | s s => simp [keyAllowed]
  | b i u => simp [keyAllowed]
  | o i => simp [keyAllowed]

/-- A declared type accepts a message iff every declared field is present with a value its field
accepts and — unless the type allows extra fields — every key is a declared one or one of
`task_uuid`, `task_level`, `timestamp`. -/
theorem validate_iff (E : Env) (ser : Serializer) (m : Msg) :
    validate E ser m = .ok () ↔
      (∀ f ∈ ser.fields, ∃ v, m.get? f.key = some v ∧ accepts E f v = true)
      ∧ (ser.allowExtra = false → ∀ e ∈ m, ∃ s, e.1 = .s s ∧ (s ∈ ser.declared ∨ s ∈ reserved)) := by
  unfold validate
  cases hf : validateFields E m ser.fields with
  | error e =>
    constructor
    · intro h; cases h
    · intro h
      have := (validateFields_iff E m ser.fields).mpr h.1
      rw [hf] at this; cases this
  | ok u =>
    cases u
    have h1 := (validateFields_iff E m ser.fields).mp hf
    simp only
    cases ha : ser.allowExtra with
    | true =>
      simp only [if_true, true_iff]
      exact ⟨h1, fun h => by cases h⟩
    | false =>
      simp only [Bool.false_eq_true, if_false, true_implies]
      by_cases hall : (m.all fun e => keyAllowed ser e.1) = true
      · simp only [hall, if_true, true_iff]
        refine ⟨h1, ?_⟩
        intro e he
        exact (keyAllowed_iff ser e.1).mp (List.all_eq_true.mp hall e he)
      · simp only [hall, if_false]
        constructor
        · intro h; cases h
        · intro h
          exfalso
          apply hall
          apply List.all_eq_true.mpr
          intro e he
          exact (keyAllowed_iff ser e.1).mpr (h.2 e he)

/-! ## `failure_and_traceback_allow_extra` -/

/-- Only the failure serializer of an `ActionType` and `TRACEBACK_MESSAGE` allow extra fields. -/
theorem failure_and_traceback_allow_extra (a : String) (start success : List FieldSpec) (mt : String) (fs : List FieldSpec) :
    (actionTypeSerializers a start success).failure.allowExtra = true
    ∧ (actionTypeSerializers a start success).start.allowExtra = false
    ∧ (actionTypeSerializers a start success).success.allowExtra = false
    ∧ (messageTypeSerializer mt fs).allowExtra = false
    ∧ tracebackSerializer.allowExtra = true := ⟨rfl, rfl, rfl, rfl, rfl⟩

/-! ## `conforming_validates` -/

theorem checkKeys_ok : ∀ (m : Msg), (∀ e ∈ m, ∃ s, e.1 = Key.s s) → checkKeys m = .ok ()
  | [], _ => rfl
  | (k, v) :: rest, h => by
    obtain ⟨s, hs⟩ := h (k, v) (by simp)
    simp only at hs
    subst hs
    simp only [checkKeys]
    exact checkKeys_ok rest (fun e he => h e (List.mem_cons_of_mem _ he))

theorem fieldSerialize_ok_of_accepts {E : Env} {f : FieldSpec} {v : Val} (h : accepts E f v = true) :
    ∃ v', fieldSerialize E f v = .ok v' := by
  rw [accepts_iff] at h
  unfold fieldValidate at h
  cases hs : fieldSerialize E f v with
  | ok v' => exact ⟨v', rfl⟩
  | error e => rw [hs] at h; cases h

/-- With distinct declared keys, serialization of a message whose declared fields are all accepted
succeeds (each serializer has already accepted its input during validation). -/
theorem serializeAll_ok (E : Env) : ∀ (fs : List FieldSpec) (m : Msg), (fs.map (·.key)).Nodup →
    (∀ f ∈ fs, ∃ v, m.get? f.key = some v ∧ accepts E f v = true) → ∃ m', serializeAll E fs m = .ok m'
  | [], m, _, _ => ⟨m, rfl⟩
  | f :: fs, m, hn, h => by
    simp only [List.map_cons, List.nodup_cons] at hn
    obtain ⟨v, hv, ha⟩ := h f (by simp)
    obtain ⟨v', hv'⟩ := fieldSerialize_ok_of_accepts ha
    have hrest : ∀ g ∈ fs, ∃ w, (m.set f.key v').get? g.key = some w ∧ accepts E g w = true := by
      intro g hg
      obtain ⟨w, hw, haw⟩ := h g (List.mem_cons_of_mem _ hg)
      have hne : g.key ≠ f.key := by
        intro e
        exact hn.1 (List.mem_map.mpr ⟨g, hg, e⟩)
      exact ⟨w, by rw [Msg.get?_set_ne _ _ _ _ hne]; exact hw, haw⟩
    obtain ⟨m', hm'⟩ := serializeAll_ok E fs (m.set f.key v') hn.2 hrest
    exact ⟨m', by simp [serializeAll, hv, hv', hm']⟩

/-- A message that matches its declared type (fields present and accepted, no undeclared field
unless allowed), has `str` keys only and encodes to JSON once serialized, validates. -/
theorem conforming_validates (E : Env) (ser : Serializer) (m : Msg) (hn : ser.declared.Nodup)
    (hacc : ∀ f ∈ ser.fields, ∃ v, m.get? f.key = some v ∧ accepts E f v = true)
    (hextra : ser.allowExtra = false → ∀ e ∈ m, ∃ s, e.1 = .s s ∧ (s ∈ ser.declared ∨ s ∈ reserved))
    (hkeys : ∀ e ∈ m, ∃ s, e.1 = Key.s s)
    (hjson : ∀ m', serializeAll E ser.fields m = .ok m' → jsonEncodable m' = true) :
    memValidate E (some ser) m = .ok () := by
  have hv := (validate_iff E ser m).mpr ⟨hacc, hextra⟩
  obtain ⟨m', hm'⟩ := serializeAll_ok E ser.fields m hn hacc
  simp [memValidate, hv, checkKeys_ok m hkeys, hm', hjson m' hm']

/-! ## `single_deviation_rejected` -/

theorem memValidate_ok_validate {E : Env} {ser : Serializer} {m : Msg} (h : memValidate E (some ser) m = .ok ()) :
    validate E ser m = .ok () := by
  unfold memValidate at h
  cases hv : validate E ser m with
  | ok u => cases u; rfl
  | error e => simp [hv] at h

/-- a declared key removed -/
theorem single_deviation_rejected_missing (E : Env) (ser : Serializer) (m : Msg) (f : FieldSpec) (hf : f ∈ ser.fields) :
    memValidate E (some ser) (m.del f.key) ≠ .ok () := by
  intro h
  obtain ⟨v, hv, _⟩ := ((validate_iff E ser _).mp (memValidate_ok_validate h)).1 f hf
  rw [Msg.get?_del_self] at hv
  cases hv

/-- an undeclared, non-reserved key added to a message of a type that does not allow extras -/
theorem single_deviation_rejected_extra (E : Env) (ser : Serializer) (m : Msg) (k : String) (v : Val)
    (hx : ser.allowExtra = false) (hd : k ∉ ser.declared) (hr : k ∉ reserved) :
    memValidate E (some ser) (m.set k v) ≠ .ok () := by
  intro h
  have := ((validate_iff E ser _).mp (memValidate_ok_validate h)).2 hx _ (Msg.mem_of_get? _ k v (Msg.get?_set_self m k v))
  obtain ⟨s, hs, hmem⟩ := this
  cases hs
  rcases hmem with h1 | h1
  · exact hd h1
  · exact hr h1

/-- a declared field's value replaced by one the field does not accept -/
theorem single_deviation_rejected_value (E : Env) (ser : Serializer) (m : Msg) (f : FieldSpec) (v : Val)
    (hf : f ∈ ser.fields) (hrej : accepts E f v = false) :
    memValidate E (some ser) (m.set f.key v) ≠ .ok () := by
  intro h
  obtain ⟨w, hw, ha⟩ := ((validate_iff E ser _).mp (memValidate_ok_validate h)).1 f hf
  rw [Msg.get?_set_self] at hw
  cases hw
  rw [hrej] at ha
  cases ha

theorem serializeAll_get?_other (E : Env) (k : String) : ∀ (fs : List FieldSpec) (m m' : Msg),
    k ∉ fs.map (·.key) → serializeAll E fs m = .ok m' → m'.get? k = m.get? k
  | [], m, m', _, h => by simp [serializeAll] at h; subst h; rfl
  | f :: fs, m, m', hk, h => by
    simp only [List.map_cons, List.mem_cons, not_or] at hk
    unfold serializeAll at h
    split at h
    · cases h
    · rename_i v hv
      split at h
      · cases h
      · rename_i v' hv'
        rw [serializeAll_get?_other E k fs _ m' hk.2 h, Msg.get?_set_ne _ _ _ _ hk.1]

/-- a value that does not encode to JSON under a key no serializer rewrites (a reserved or extra
field, or any field of a message without a declared type) -/
theorem single_deviation_rejected_not_json (E : Env) (ser : Option Serializer) (m : Msg) (k : String) (v : Val)
    (hk : ∀ s, ser = some s → k ∉ s.declared) (hv : v.encodable = false) :
    memValidate E ser (m.set k v) ≠ .ok () := by
  intro h
  have hget := Msg.get?_set_self m k v
  unfold memValidate at h
  split at h
  · cases h
  · split at h
    · cases h
    · split at h
      · cases h
      · rename_i m' hm'
        have hg' : m'.get? k = some v := by
          cases ser with
          | none => simp at hm'; subst hm'; exact hget
          | some s =>
            simp only at hm'
            rw [serializeAll_get?_other E k s.fields _ m' (hk s rfl) hm']; exact hget
        by_cases hj : jsonEncodable m' = true
        · have := List.all_eq_true.mp hj _ (Msg.mem_of_get? m' k v hg')
          simp [hv] at this
        · simp [hj] at h

/-! ## `tracebacks_fail`, `check_for_errors` -/

/-- Unflushed tracebacks make `check_for_errors` raise `UnflushedTracebacks`, before any validation;
and a traceback message that is written is recorded as such. -/
theorem tracebacks_fail (E : Env) (l : MemLogger) :
    (l.tracebacks ≠ [] → checkForErrors E l = .error .unflushedTracebacks)
    ∧ (∀ w, w.isTraceback = true → (l.write E w).tracebacks ≠ []) := by
  constructor
  · intro h; simp [checkForErrors, h]
  · intro w hw; simp [MemLogger.write, hw]

theorem validateAll_iff (E : Env) : ∀ ws : List Written,
    validateAll E ws = .ok () ↔ ∀ w ∈ ws, memValidate E w.ser w.msg = .ok ()
  | [] => by simp [validateAll]
  | w :: ws => by
    have ih := validateAll_iff E ws
    unfold validateAll
    cases hw : memValidate E w.ser w.msg with
    | error e => simp [hw]
    | ok u => cases u; simp [hw, ih]

/-- Without tracebacks, `check_for_errors` passes iff every written message validates. -/
theorem check_for_errors_iff (E : Env) (l : MemLogger) (h : l.tracebacks = []) :
    checkForErrors E l = .ok () ↔ ∀ w ∈ l.messages, memValidate E w.ser w.msg = .ok () := by
  simp [checkForErrors, h, validateAll_iff]

/-! ## A logger's history: `validate()` and `reset()` -/

theorem memValidateS_fst (E : Env) (ser : Option Serializer) (m : Msg) : (memValidateS E ser m).1 = memValidate E ser m := by
  unfold memValidateS memValidate
  split
  · rfl
  · split
    · rfl
    · split
      · rfl
      · split <;> rfl

/-- Whatever `validate()` leaves in the stored messages, what it *raises* is decided by the stored
messages alone, first failure first. -/
theorem validateAllS_fst (E : Env) : ∀ ws : List Written, (validateAllS E ws).1 = validateAll E ws
  | [] => rfl
  | w :: ws => by
    unfold validateAllS validateAll
    simp only [memValidateS_fst]
    cases h : memValidate E w.ser w.msg with
    | error e => rfl
    | ok u => simp only [validateAllS_fst E ws]

theorem messages_foldl_write (E : Env) : ∀ (ws : List Written) (l : MemLogger),
    (ws.foldl (fun l w => l.write E w) l).messages = l.messages ++ ws
  | [], l => by simp
  | w :: ws, l => by
    simp only [List.foldl_cons]
    rw [messages_foldl_write E ws]
    simp [MemLogger.write]

/-- `reset()` really starts over: whatever was written, validated or reset before, a message written
after a `reset()` that does not validate makes the next `validate()` raise. -/
theorem invalid_after_reset_reported (E : Env) (l : MemLogger) (ws : List Written) (w : Written)
    (hw : w ∈ ws) (hbad : memValidate E w.ser w.msg ≠ .ok ()) :
    ((ws.foldl (fun l w => l.write E w) l.reset).step E .validate).2 ≠ some (.ok ()) := by
  simp only [MemLogger.step, messages_foldl_write, MemLogger.reset, List.nil_append, validateAllS_fst]
  intro h
  have h' : validateAll E ws = .ok () := by simpa using h
  exact hbad ((validateAll_iff E ws).mp h' w hw)

/-! ## `default_logger_restored` -/

/-- the wrapped method only ever pushes cleanups -/
theorem exec_cleanups_suffix : ∀ (t : Test) (s : St), ∃ pre, (exec t s).cleanups = pre ++ s.cleanups
  | .body _, s => ⟨[], by simp [exec]⟩
  | .logsBad rest, s => by
    rw [exec]
    exact exec_cleanups_suffix rest _
  | .swaps rest, s => by
    rw [exec]
    exact exec_cleanups_suffix rest _
  | .captured t, s => by
    rw [exec]
    obtain ⟨pre, h⟩ := exec_cleanups_suffix t
      { s with default := s.fresh, fresh := s.fresh + 1, cleanups := .restore s.default :: .check s.fresh :: s.cleanups }
    exact ⟨pre ++ [.restore s.default, .check s.fresh], by rw [h]; simp⟩
  | .inner t rest, s => by
    rw [exec]
    exact exec_cleanups_suffix rest _

theorem runCleanups_append_restore : ∀ (pre rest : List Cleanup) (p x : Nat),
    runCleanups (pre ++ .restore p :: rest) x = runCleanups rest p
  | [], rest, p, x => by simp [runCleanups]
  | .restore q :: pre, rest, p, x => by
    simp only [List.cons_append, runCleanups]
    exact runCleanups_append_restore pre rest p q
  | .check q :: pre, rest, p, x => by
    simp only [List.cons_append, runCleanups]
    exact runCleanups_append_restore pre rest p x

/-- **`capture_logging` always restores the previous default logger**: whatever the outcome(s) of the
decorated test, however `capture_logging` is nested inside it, whatever inner test cases its body runs,
and even when the body (or an inner test) replaces the default logger itself and never puts it back. -/
theorem default_logger_restored (t : Test) (d fresh : Nat) (seen bad rep : List Nat) :
    (runCase (.captured t) d fresh seen bad rep).default = d := by
  rw [runCase]
  simp only
  rw [exec]
  simp only
  obtain ⟨pre, h⟩ := exec_cleanups_suffix t
    { default := fresh, fresh := fresh + 1, cleanups := [.restore d, .check fresh], seen := seen, bad := bad, reported := rep }
  rw [h, runCleanups_append_restore]
  simp [runCleanups]

/-! ### what a captured log holds is reported, whatever the outcome -/

theorem exec_bad_mono (x : Nat) : ∀ (t : Test) (s : St), x ∈ s.bad → x ∈ (exec t s).bad
  | .body _, s, h => by simpa [exec] using h
  | .logsBad rest, s, h => by
    rw [exec]
    exact exec_bad_mono x rest _ (List.mem_cons_of_mem _ h)
  | .swaps rest, s, h => by
    rw [exec]
    exact exec_bad_mono x rest _ h
  | .captured t, s, h => by
    rw [exec]
    exact exec_bad_mono x t _ h
  | .inner t rest, s, h => by
    rw [exec]
    apply exec_bad_mono x rest
    simp only
    rw [runCase]
    exact exec_bad_mono x t _ h

theorem mem_reportsOf {l : Nat} {cs : List Cleanup} {bad : List Nat} (hc : Cleanup.check l ∈ cs) (hb : l ∈ bad) :
    l ∈ reportsOf cs bad := by
  unfold reportsOf
  apply List.mem_filterMap.mpr
  refine ⟨.check l, hc, ?_⟩
  simp [hb]

/-- A test wrapped by `capture_logging` whose body logs an entry that must be reported — a message
deviating from its type, one that is not JSON, an unflushed traceback — has it reported by the
`check_for_errors` cleanup: whatever the body does afterwards and however it ends (pass, fail, error,
**skip**), since `unittest` runs every cleanup for every outcome. -/
theorem bad_entry_reported (rest : Test) (d fresh : Nat) (seen bad rep : List Nat) :
    fresh ∈ (runCase (.captured (.logsBad rest)) d fresh seen bad rep).reported := by
  rw [runCase]
  simp only
  rw [exec, exec]
  simp only
  apply List.mem_append_right
  obtain ⟨pre, h⟩ := exec_cleanups_suffix rest
    { default := fresh, fresh := fresh + 1, cleanups := [.restore d, .check fresh], seen := seen, bad := fresh :: bad, reported := rep }
  apply mem_reportsOf
  · rw [h]; simp
  · exact exec_bad_mono fresh rest _ (by simp)

def Test.noSwaps : Test → Bool
  | .body _ => true
  | .logsBad rest => rest.noSwaps
  | .swaps _ => false
  | .captured t => t.noSwaps
  | .inner t rest => t.noSwaps && rest.noSwaps

/-- Running a wrapped method that does not touch the default logger itself leaves a cleanup stack
whose execution ends where the execution of the stack before it would have ended. -/
theorem exec_cleanups : ∀ (t : Test) (s : St), t.noSwaps = true →
    runCleanups (exec t s).cleanups (exec t s).default = runCleanups s.cleanups s.default
  | .body _, s, _ => by simp [exec]
  | .logsBad rest, s, h => by
    rw [exec, exec_cleanups rest _ (by simpa [Test.noSwaps] using h)]
  | .swaps _, s, h => by simp [Test.noSwaps] at h
  | .captured t, s, h => by
    rw [exec, exec_cleanups t _ (by simpa [Test.noSwaps] using h)]
    simp [runCleanups]
  | .inner t rest, s, h => by
    simp only [Test.noSwaps, Bool.and_eq_true] at h
    rw [exec, exec_cleanups rest _ h.2]
    simp only
    rw [runCase]
    simp only
    rw [exec_cleanups t _ h.1]
    simp [runCleanups]

/-- Any test case, decorated or not, whose bodies leave the default logger alone, leaves it as it was. -/
theorem default_logger_untouched (t : Test) (h : t.noSwaps = true) (d fresh : Nat) (seen bad rep : List Nat) :
    (runCase t d fresh seen bad rep).default = d := by
  rw [runCase]
  simp only
  rw [exec_cleanups t _ h]
  simp [runCleanups]

/-! ## Non-vacuity -/

def exEnv : Env := { serialize := fun _ v => .ok v, extra := fun _ v => if v = .int 5 then .error .validationError else .ok () }
def exSer : Serializer := messageTypeSerializer "m" [.forTypes "x" [.int, .noneType] (some 0), .forValue "y" (.flt 3 1)]
def exMsg : Msg := [(.s "y", .flt 6 2), (.s "x", .bool true), (.s "message_type", .str "m"), (.s "timestamp", .flt 3 1),
  (.s "task_uuid", .str "u"), (.s "task_level", .list 1 true)]

example : memValidate exEnv (some exSer) exMsg = .ok () := by rfl
example : memValidate exEnv (some exSer) (exMsg.del "x") = .error .validationError := by rfl
example : memValidate exEnv (some exSer) (exMsg.set "x" (.int 5)) = .error .validationError := by rfl
example : memValidate exEnv (some exSer) (exMsg.set "zz" (.int 1)) = .error .validationError := by rfl
example : memValidate exEnv (some exSer) (exMsg.set "timestamp" (.obj 7 false)) = .error .typeError := by rfl
example : (runCase (.captured (.inner (.captured (.captured (.body .fail))) (.captured (.body .skip)))) 0 1 [] [] []).seen = [3, 4] := by
  simp [runCase, exec, runCleanups]
-- the body installs its own logger (2) and fails: the cleanup still brings back 0
example : (exec (.captured (.swaps (.body .fail))) { default := 0, fresh := 1, cleanups := [] }).default = 2
    ∧ (runCase (.captured (.swaps (.body .fail))) 0 1 [] [] []).default = 0 := by
  simp [runCase, exec, runCleanups]
-- a decorated test logs a wrong-typed entry and is skipped: logger 1 is reported
example : (runCase (.captured (.logsBad (.body .skip))) 0 1 [] [] []).reported = [1] := by
  simp [runCase, exec, runCleanups, reportsOf]
-- validate, reset, then an invalid message: reported
example : (MemLogger.run exEnv {} [.write ⟨exMsg, some exSer, false⟩, .validate, .reset,
    .write ⟨exMsg.del "x", some exSer, false⟩, .validate]).2 = [.ok (), .error .validationError] := by rfl

end VM
