import Eliot.Proofs.MemLog
import Eliot.Proofs.FileLines
import Eliot.Generated.MemLog
import Eliot.Generated.FileDest
/-! # C16 - loggers are safe to write to from many threads at once

Model: `Eliot.Conc.MemLog` (threads compiled from the skeleton table that extractor E1 regenerates
from `eliot/_output.py` on every check) and `Eliot.Conc.FileLines` (threads writing lines through
one `FileDestination`, compiled from skeleton E2).  `∀ sched` = every interleaving at the
granularity of single shared accesses (finer than source lines), any number of threads and calls.
Trusted: `threading.Lock`, atomicity of one `list.append` / one `file.write` call under the GIL. -/
namespace Eliot.C16
open Eliot.Conc Eliot.Conc.MemLog

/-- thread `t` is inside a method call (between its first and last step) -/
def InCall (s : State) (t : Nat) : Prop := match s.pc t with | .idle => False | .body .. => True

/-- Mutual exclusion: in every reachable state at most one thread is inside a `MemoryLogger`
method, and it is the lock holder. -/
theorem memlog_mutex (tbl : Table) (hL : AllLocked tbl) (prog : Nat → List Call) (sched : List Nat) :
    let s := run tbl (init prog) sched
    (∀ t u, InCall s t → InCall s u → t = u) ∧ (∀ t, InCall s t → s.lock = some t) := by
  intro s
  have hi : MemLog.Inv tbl s := inv_run tbl hL _ (inv_init tbl prog) sched
  have key : ∀ t, InCall s t → s.lock = some t := by
    intro t ht
    unfold MemLog.Inv at hi
    cases hl : s.lock with
    | none =>
      rw [hl] at hi
      have := hi.1 t
      simp [InCall, this] at ht
    | some h =>
      rw [hl] at hi
      obtain ⟨c, rem, pre, hs, sk, qs, _, _, _, _, _, _, hidle⟩ := hi
      by_cases e : t = h
      · rw [e]
      · have := hidle t e
        simp [InCall, this] at ht
  refine ⟨fun t u ht hu => ?_, key⟩
  have a := key t ht
  have b := key u hu
  rw [a] at b
  exact Option.some.inj b

/-- Linearizability: whenever the lock is free, the shared lists *and* everything readers
(`validate`, `serialize`, `flushTracebacks`) have seen so far are exactly those of the sequential
execution of the calls in lock-acquisition order; and per thread the started calls followed by the
pending ones are that thread's program (no call lost, duplicated or reordered). -/
theorem memlog_linearizable (tbl : Table) (hL : AllLocked tbl) (prog : Nat → List Call) (sched : List Nat) :
    let s := run tbl (init prog) sched
    s.lock = none → s.mem = seqRun tbl Mem.empty (s.hist.map (·.2)) ∧
      ∀ t, (s.hist.filter (fun p => decide (p.1 = t))).map (·.2) ++ s.pending t = prog t := by
  intro s hl
  have hi : MemLog.Inv tbl s := inv_run tbl hL _ (inv_init tbl prog) sched
  unfold MemLog.Inv at hi
  rw [hl] at hi
  exact ⟨hi.2, complete_run tbl prog sched⟩

/-- Pairing: at every lock-free reachable state `messages` and `serializers` are the same list of
(call id, tag) items - message `i` sits next to the serializer of its own call - namely the writes
since the last `reset` in lock-acquisition order, and `tracebackMessages` is exactly the
traceback-typed ones among them that no later `flushTracebacks` removed (`spec`). -/
theorem pairs_consistent (tbl : Table) (hL : AllLocked tbl) (hW : WritePairs tbl) (prog : Nat → List Call)
    (sched : List Nat) :
    let s := run tbl (init prog) sched
    s.lock = none →
      s.mem.fld .messages = s.mem.fld .serializers ∧
      s.mem.fld .messages = (spec (s.hist.map (·.2))).1 ∧
      s.mem.fld .tracebacks = (spec (s.hist.map (·.2))).2 := by
  intro s hl
  have h := (memlog_linearizable tbl hL prog sched hl).1
  have g := seq_spec tbl hW (s.hist.map (·.2))
  rw [← h] at g
  exact ⟨g.1.trans g.2.1.symm, g.1, g.2.2⟩

/-- What `spec` says about the traceback list when nothing was flushed: it is the traceback-typed
sub-list of `messages`. -/
theorem spec_tracebacks_filter (cs : List Call) (hnf : ∀ c ∈ cs, c.meth ≠ "flushTracebacks") :
    (spec cs).2 = (spec cs).1.filter (fun it => it.tag != 0) := by
  have gen : ∀ (cs : List Call) (st : List Item × List Item), (∀ c ∈ cs, c.meth ≠ "flushTracebacks") →
      st.2 = st.1.filter (fun it => it.tag != 0) →
      (cs.foldl specStep st).2 = (cs.foldl specStep st).1.filter (fun it => it.tag != 0) := by
    intro cs
    induction cs with
    | nil => intro st _ h; exact h
    | cons c cs ih =>
      intro st hn h
      refine ih _ (fun x hx => hn x (List.mem_cons_of_mem _ hx)) ?_
      have hc := hn c List.mem_cons_self
      unfold specStep
      by_cases h1 : c.meth = "write"
      · by_cases ht : c.tag = 0 <;> simp [h1, ht, h, List.filter_append, Call.item]
      · by_cases h2 : c.meth = "reset"
        · simp [h2]
        · simp [h1, h2, hc, h]
  exact gen cs ([], []) hnf rfl

/-! ## The generated obligations: the current source satisfies the hypotheses -/

/-- regenerated table: every method touching shared state is locked; the methods do to the three
lists what `spec` says; `exclusively` is `with self._lock: return f(...)`; the lock is a `threading.Lock` -/
example : AllLocked Generated.memoryLogger ∧ WritePairs Generated.memoryLogger := by decide
example : Generated.exclusivelyOk = true ∧ Generated.lockOk = true := by decide

/-! ## Non-vacuity -/

def w (cid : Nat) (tag : Nat := 0) : Call := { meth := "write", cid := cid, tag := tag }
def demoProg : Nat → List Call
  | 0 => [w 1, w 2 3]
  | 1 => [w 11 2, { meth := "flushTracebacks", cid := 12, tag := 3 }, { meth := "serialize", cid := 13 }]
  | _ => []
/-- thread 1 is picked while thread 0 holds the lock (stutters), then they alternate -/
def demoSched : List Nat := [0, 1, 0, 1, 0, 0, 0, 1, 0, 0, 1, 1, 1, 1, 1, 1, 0, 1, 0, 0, 0, 0, 0, 0, 0, 1, 1, 1, 1, 1, 1, 1, 1, 1]

example : (run Generated.memoryLogger (init demoProg) demoSched).lock = none := by decide
example : ((run Generated.memoryLogger (init demoProg) demoSched).mem.fld .messages).map (·.cid) = [1, 11, 2] := by decide
example : ((run Generated.memoryLogger (init demoProg) demoSched).mem.fld .serializers).map (·.cid) = [1, 11, 2] := by decide
example : ((run Generated.memoryLogger (init demoProg) demoSched).mem.fld .tracebacks).map (·.cid) = [11] := by decide
example : (run Generated.memoryLogger (init demoProg) demoSched).mem.reads.length = 3 := by decide

/-- The hypothesis `AllLocked` is needed: with `@exclusively` removed from `write` there is a
schedule after which message `i` is no longer next to its own serializer. -/
def unlockedWrite : Table :=
  Generated.memoryLogger.map (fun p => if p.1 = "write" then (p.1, { p.2 with locked := false }) else p)
example : ¬ AllLocked unlockedWrite := by decide
example : ∃ sched, let s := run unlockedWrite (init (fun t => if t < 2 then [w t] else [])) sched
    s.lock = none ∧ (s.mem.fld .messages).map (·.cid) = [0, 1] ∧ (s.mem.fld .serializers).map (·.cid) = [1, 0] :=
  ⟨[0, 0, 0, 0, 1, 1, 1, 1, 1, 0, 0, 0], by decide⟩

/-! ## File destination -/
open Eliot.Conc.FileLines in
/-- Lines are never torn, merged or dropped: if a destination call performs exactly one write, of
the whole line with its line break (skeleton E2), then after any schedule the file is the
concatenation of whole lines (`render log`), each thread's lines appear in its own order, lines not
yet in the file are still pending or in flight, and once all threads are done every line of every
thread is in the file exactly once. -/
theorem lines_never_torn (ops : List FOp) (h1 : OneWritePerLine ops) (prog : Nat → List Line) (sched : List Nat) :
    let s := FileLines.run ops (FileLines.init prog) sched
    s.content = render s.log ∧
    (∀ t, linesOf s.log t ++ unwritten (s.pc t) ++ s.pending t = prog t) ∧
    (finished s → ∀ t, linesOf s.log t = prog t) := by
  intro s
  have hi := FileLines.inv_run ops h1 prog sched
  refine ⟨hi.1, fun t => (hi.2 t).2, fun hf t => ?_⟩
  have := (hi.2 t).2
  obtain ⟨hp, hpc⟩ := hf t
  rw [hp, hpc] at this
  simpa [unwritten] using this

open Eliot.Conc.FileLines in
/-- skeleton E2 (colleague's table type) as operations of the file model -/
def ofShape : EJ.CallShape → Option FOp
  | .write .dumpsPlusLinebreak => some .writeWhole
  | .write .dumps => some .writeBody
  | .write .linebreak => some .writeBreak
  | .flush => some .flush
  | _ => none

/-- generated obligation: the current `FileDestination.__call__` performs one write per line -/
example : ∃ ops, Generated.fileDestCall.mapM ofShape = some ops ∧ FileLines.OneWritePerLine ops :=
  ⟨[.writeWhole, .flush], by decide⟩

open Eliot.Conc.FileLines in
example : (FileLines.run [.writeWhole, .flush] (FileLines.init (fun t => if t < 2 then [[97, t], [98, t]] else []))
    [0, 1, 1, 0, 0, 0, 1, 1, 0, 0, 1, 1, 1]).content = [97, 1, 10, 97, 0, 10, 98, 0, 10, 98, 1, 10] := by decide
open Eliot.Conc.FileLines in
/-- a write split in two can tear lines -/
example : (FileLines.run [.writeBody, .writeBreak, .flush] (FileLines.init (fun t => if t < 2 then [[97, t]] else []))
    [0, 1, 0, 1, 1, 0]).content = [97, 0, 97, 1, 10, 10] := by decide

end Eliot.C16
