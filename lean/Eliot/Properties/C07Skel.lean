import Eliot.Model.Sys
import Eliot.Generated.Handlers
/-! Skeleton obligations of C07: data regenerated from /repo's source on every run, compared by `decide`.
Kept in a module of their own so that a source change that breaks one of them does not also take the
property theorems' build down. -/
namespace Sys.C07

/-- **E5 (regenerated from /repo on every run)**: every callback call site of the output layer sits
under the handler the model assumes: destinations under `except Exception`, everything else under a
bare `except`. -/
theorem skeleton_E5 : Generated.handlers = [
    ("Destinations._send_to", "dest", "Exception"),
    ("Destinations._send_to", "log_message", "bare"),
    ("Logger.write", "serializer.serialize", "bare"),
    ("_safe_unicode_dictionary", "dict", "bare"),
    ("ErrorExtraction.get_fields_for_exception", "extractor", "bare"),
    ("safeunicode", "str", "bare"),
    ("saferepr", "repr", "bare")] := by decide

end Sys.C07
