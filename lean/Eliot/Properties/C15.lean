import Eliot.Proofs.GenTransparent
import Eliot.Proofs.GenCtx
import Eliot.Generated.GenWrapper
/-! # C15 — decorated generators keep their own action context and stay transparent

Model: `Eliot.Conc.Gen` (generator protocol `proto`, the transliterated wrapper loop, contexts with
ContextVar token semantics, a table of generator bodies, driver scripts).  In the world model every
`log` instruction of a body records `seen` (the value of the ContextVar in the Context the body is
running in) and the ghost `expected` = innermost *own* entered action of that body, else `base`, the
value the body saw when it first ran; the start of a body records (tag 0) `seen` = that first value
and `expected` = the current action of whoever issued the first resumption.  So `seen = expected`
for all records is exactly "context at first resume ⊕ the generator's own enters/exits so far". -/
namespace Gen.C15
open Gen

def AllWrapped (defs : List (Bool × List Instr)) : Prop := ∀ d ∈ defs, d.1 = true

/-- what holds between driver steps -/
structure TopInv (w : World) : Prop where
  inv : InvFrom 0 w
  cur : w.cur = 0
  pos : 0 < w.nctx
  no : NotOwnedFrom 0 w 0
  good : Good w

theorem topInv_init (defs : List (Bool × List Instr)) (h : AllWrapped defs) : TopInv (initWorld defs) := by
  have hg : ∀ k g, (initWorld defs).gens k = some g → g.wrapped = true ∧ g.wctx = none ∧ g.toks = [] ∧ g.own = [] ∧ g.ist = .unstarted := by
    intro k g hk
    simp only [initWorld] at hk
    cases hd : defs[k]? with
    | none => rw [hd] at hk; cases hk
    | some d =>
      rw [hd] at hk
      simp only [Option.map_some, Option.some.injEq] at hk
      subst hk
      exact ⟨h d (List.mem_of_getElem? hd), rfl, rfl, rfl, rfl⟩
  refine ⟨⟨?_, ?_⟩, rfl, Nat.one_pos, ?_, ⟨(by intro o ho; cases ho), (by intro r hr; cases hr)⟩⟩
  · intro k g _ hk
    obtain ⟨h1, h2, h3, h4, h5⟩ := hg k g hk
    refine ⟨h1, ?_⟩
    rw [h2]; exact ⟨h3, h4, h5⟩
  · intro k k' g g' c _ _ _ hk _ hc
    rw [(hg k g hk).2.1] at hc; cases hc
  · intro k g _ hk hc
    rw [(hg k g hk).2.1] at hc; cases hc

theorem topInv_step (k : Bool) (fuel : Nat) (s : DStep) (w : World) (h : TopInv w) :
    TopInv (dstep k fuel s w).2 ∧
    ((dstep k fuel s w).1 ≠ none → (dstep k fuel s w).2.curAction = w.curAction) := by
  cases s with
  | enter a =>
    refine ⟨⟨?_, h.cur, h.pos, h.no, ⟨h.good.obs, h.good.nrecs⟩⟩, fun hn => absurd rfl hn⟩
    have := h.inv.setCtx (c := w.cur) (v := some a) (h.cur ▸ h.no)
    exact ⟨this.ok, this.distinct⟩
  | exit =>
    simp only [dstep]
    cases hd : w.dtoks with
    | nil => exact ⟨h, fun hn => absurd rfl hn⟩
    | cons t ts =>
      refine ⟨⟨?_, h.cur, h.pos, h.no, ⟨h.good.obs, h.good.nrecs⟩⟩, fun hn => absurd rfl hn⟩
      have := h.inv.setCtx (c := w.cur) (v := t.old) (h.cur ▸ h.no)
      exact ⟨this.ok, this.distinct⟩
  | resume i inp =>
    have hspec := resumeGen_spec k fuel i inp { w with pending := w.ctxs w.cur }
      ((h.inv.mono (Nat.zero_le i)).core ⟨rfl, rfl, rfl, rfl, rfl⟩) (by show w.cur < w.nctx; rw [h.cur]; exact h.pos)
      (by show NotOwnedFrom i w w.cur; rw [h.cur]; exact h.no.mono (Nat.zero_le i)) ⟨h.good.obs, h.good.nrecs⟩ rfl
    have hlift := InvFrom.lift (w := { w with pending := w.ctxs w.cur }) (h.inv.core ⟨rfl, rfl, rfl, rfl, rfl⟩)
      (Nat.zero_le i) hspec.1 hspec.2.1
    have hfr := hspec.2.1.mono (Nat.zero_le i)
    simp only [dstep]
    generalize resumeGen k fuel i inp { w with pending := w.ctxs w.cur } = r at hspec hlift hfr
    obtain ⟨o, w'⟩ := r
    simp only at hspec hlift hfr ⊢
    have hcur : w'.cur = 0 := hfr.cur_eq.trans h.cur
    refine ⟨⟨hlift, hcur, Nat.lt_of_lt_of_le h.pos hfr.nctx_le, hfr.notOwned h.pos h.no, hspec.2.2⟩, fun _ => ?_⟩
    show w'.ctxs w'.cur = w.ctxs w.cur
    rw [hcur, h.cur]
    exact hfr.ctxs_eq 0 h.pos h.no
  | resumeIn fresh i inp =>
    have hfresh : NotOwnedFrom 0 w w.nctx := by
      intro k' g' hk' hg' hc'
      have := h.inv.owned_lt hk' hg' hc'
      omega
    have hinv1a := (h.inv.setCtx (v := if fresh then none else w.ctxs w.cur) hfresh).nctx_le (Nat.le_succ _)
    have hinv1 : InvFrom 0 ({ (w.setCtx w.nctx (if fresh then none else w.ctxs w.cur)) with
        nctx := w.nctx + 1, cur := w.nctx, pending := (if fresh then none else w.ctxs w.cur) } : World) :=
      ⟨hinv1a.ok, hinv1a.distinct⟩
    have hspec := resumeGen_spec k fuel i inp
      { (w.setCtx w.nctx (if fresh then none else w.ctxs w.cur)) with
        nctx := w.nctx + 1, cur := w.nctx, pending := (if fresh then none else w.ctxs w.cur) }
      (hinv1.mono (Nat.zero_le i)) (Nat.lt_succ_self _)
      (hfresh.mono (Nat.zero_le i)) ⟨h.good.obs, h.good.nrecs⟩ (by simp [World.setCtx])
    have hlift := InvFrom.lift hinv1 (Nat.zero_le i) hspec.1 hspec.2.1
    have hfr := hspec.2.1.mono (Nat.zero_le i)
    simp only [dstep]
    generalize resumeGen k fuel i inp _ = r at hspec hlift hfr
    obtain ⟨o, w'⟩ := r
    simp only at hspec hlift hfr ⊢
    have hpos1 : 0 < w.nctx + 1 := Nat.succ_pos _
    have hno' : NotOwnedFrom 0 w' 0 := hfr.notOwned hpos1 h.no
    refine ⟨⟨⟨hlift.ok, hlift.distinct⟩, h.cur, Nat.lt_of_lt_of_le hpos1 hfr.nctx_le, hno', ⟨hspec.2.2.obs, hspec.2.2.nrecs⟩⟩, fun _ => ?_⟩
    show w'.ctxs w.cur = w.ctxs w.cur
    rw [h.cur, hfr.ctxs_eq 0 hpos1 h.no]
    have : (0 : Nat) ≠ w.nctx := Nat.ne_of_lt h.pos
    simp [World.setCtx, this]

theorem runScript_spec (k : Bool) (fuel : Nat) : ∀ (script : List DStep) (w : World), TopInv w →
    TopInv (runScript k fuel script w).2 ∧
    ∀ r ∈ (runScript k fuel script w).1, r.out ≠ none → r.after = r.before := by
  intro script
  induction script with
  | nil => intro w h; exact ⟨h, by intro r hr; cases hr⟩
  | cons s ss ih =>
    intro w h
    have hs := topInv_step k fuel s w h
    simp only [runScript]
    generalize dstep k fuel s w = r1 at hs
    obtain ⟨o, w'⟩ := r1
    have hi := ih w' hs.1
    generalize runScript k fuel ss w' = r2 at hi
    obtain ⟨rs, w''⟩ := r2
    refine ⟨hi.1, ?_⟩
    intro r hr
    rcases List.mem_cons.mp hr with rfl | hr
    · exact hs.2
    · exact hi.2 r hr

/-! ## The property theorems -/

/-- **Context privacy.**  For every table of wrapped generator bodies, every driver script (resumptions
of any of them with send/throw/close, interleaved with the driver entering and leaving surrounding
actions), either variant of the wrapper and every nesting bound: whenever a body looks at
`current_action()` it sees its own innermost entered action, or — if it has none — the action that
was current where it was first resumed.  (Also for bodies resumed from inside other bodies.) -/
theorem gen_ctx_private (k : Bool) (fuel : Nat) (defs : List (Bool × List Instr)) (hw : AllWrapped defs)
    (script : List DStep) :
    ∀ o ∈ (runScript k fuel script (initWorld defs)).2.obs, o.seen = o.expected :=
  ((runScript_spec k fuel script _ (topInv_init defs hw)).1).good.obs

/-- **Resuming never changes the driver's current action**, at every resumption step of every script. -/
theorem driver_ctx_untouched (k : Bool) (fuel : Nat) (defs : List (Bool × List Instr)) (hw : AllWrapped defs)
    (script : List DStep) :
    ∀ r ∈ (runScript k fuel script (initWorld defs)).1, r.out ≠ none → r.after = r.before :=
  (runScript_spec k fuel script _ (topInv_init defs hw)).2

/-- **Nested wrapped generators**: a resumption issued from inside a wrapped generator's body leaves
that body's current action unchanged, and the generators resumed that way see their own context. -/
theorem nested_wrapped (k : Bool) (fuel : Nat) (defs : List (Bool × List Instr)) (hw : AllWrapped defs)
    (script : List DStep) :
    (∀ r ∈ (runScript k fuel script (initWorld defs)).2.nrecs, r.after = r.before) ∧
    (∀ o ∈ (runScript k fuel script (initWorld defs)).2.obs,
      (∃ r ∈ (runScript k fuel script (initWorld defs)).2.nrecs, r.gen = o.gen) → o.seen = o.expected) :=
  ⟨((runScript_spec k fuel script _ (topInv_init defs hw)).1).good.nrecs,
   fun o ho _ => gen_ctx_private k fuel defs hw script o ho⟩

/-- the current source has `except StopIteration as e: return e.value` (regenerated on every run) -/
theorem keepsReturn_current : Gen.keepsReturn = true := by decide

/-- **Transparency at full strength** (the tree under verification): for every generator body and every
sequence of `send` / `throw` / `close`, the decorated generator produces exactly the outputs of the
plain one — yielded values, the values it is sent (they reach the body unchanged), thrown exceptions
by identity, close(), the errors of the generator protocol, and the return value. -/
theorem wrapper_transparent {σ : Type} (g : Body σ) (s0 : σ) (inputs : List Inp) :
    wrapOutputs g s0 inputs = outputs g s0 inputs := by
  unfold wrapOutputs
  rw [keepsReturn_current, wrapOutputsK_eq]
  conv => rhs; rw [← List.map_id (outputs g s0 inputs)]
  congr 1
  funext o; exact retK_true o

/-- the same for the `return e.value` shape, independent of what the extractor says -/
theorem wrapFixed_transparent {σ : Type} (g : Body σ) (s0 : σ) (inputs : List Inp) :
    wrapFixedOutputs g s0 inputs = outputs g s0 inputs := by
  unfold wrapFixedOutputs
  rw [wrapOutputsK_eq]
  conv => rhs; rw [← List.map_id (outputs g s0 inputs)]
  congr 1
  funext o; exact retK_true o

/-- a returned value becomes `None`; everything else is untouched -/
def dropRet : Out → Out
  | .returned _ => .returned none
  | o => o

/-- **The OLD shape** (`except StopIteration: break`, the tree as originally pinned) is transparent
except for the return value: a `returned v` of the plain generator is a `returned none` of the
wrapped one, everything else is equal. -/
theorem wrapper_transparent_partial {σ : Type} (g : Body σ) (s0 : σ) (inputs : List Inp) :
    wrapOutputsK false g s0 inputs = (outputs g s0 inputs).map dropRet := by
  have h : retK false = dropRet := by funext o; cases o <;> rfl
  rw [wrapOutputsK_eq, h]

/-- **Refutation of full transparency for the OLD shape** (`break`): `def g(): return 7; yield`,
driven by one `next()`.  This was the defect found on the pinned tree (repaired by
`fix: eliot_friendly_generator_function passes on the generator's return value`). -/
theorem wrapper_drops_return_value :
    ∃ (g : Body Unit) (inputs : List Inp), wrapOutputsK false g () inputs ≠ outputs g () inputs :=
  ⟨⟨fun _ s => (.returned (some 7), s)⟩, [.send none], by decide⟩

/-! ## Generated-skeleton obligation: the loop that was transliterated is the loop in the source -/

/-- `context = copy_context()` once, before `while True`; `gen.send/throw` only inside the function
given to `context.run`; `except StopIteration` is `return e.value`; no other handler around
`context.run`; bare `except` around the one `yield`. -/
def assumedWrapper : Eliot.Generated.GenWrapperSkel :=
  { copyOnceBeforeLoop := true, sendOrThrowInsideRun := true, stop := .returnValue, otherHandlers := 0,
    bareExceptAroundYield := true }

example : Eliot.Generated.genWrapper = assumedWrapper := by decide

/-! ## Non-vacuity -/

/-- two wrapped generators that each hold an action across a `yield`, interleaved by a driver that
moves between two surrounding actions: six in-body observations, none of them the driver's action
of the moment unless it was the one at first resumption -/
def exDefs : List (Bool × List Instr) :=
  [(true, [.enter 11, .log 1, .yield (some 1), .log 2, .exit, .log 3, .ret (some 7)]),
   (true, [.log 4, .enter 21, .yield none, .log 5, .resume 2 (.send none), .log 6]),
   (true, [.log 7, .yield (some 3)])]
def exScript : List DStep :=
  [.enter 1, .resume 0 (.send none), .exit, .enter 2, .resume 1 (.send none), .resume 0 (.send (some 5)),
   .exit, .resume 1 (.send none)]

example : AllWrapped exDefs := by unfold AllWrapped; decide

example : (runScript false 4 exScript (initWorld exDefs)).2.obs.reverse.map (fun o => (o.gen, o.tag, o.seen)) =
    [(0, 0, some 1), (0, 1, some 11), (1, 0, some 2), (1, 4, some 2), (0, 2, some 11), (0, 3, some 1),
     (1, 5, some 21), (2, 0, some 21), (2, 7, some 21), (1, 6, some 21)] := by decide

example : (runScript false 4 exScript (initWorld exDefs)).1.map (fun r => (r.out, r.before, r.after)) =
    [(none, none, some 1), (some (.yielded (some 1)), some 1, some 1), (none, some 1, none), (none, none, some 2),
     (some (.yielded none), some 2, some 2), (some (.returned none), some 2, some 2), (none, some 2, none),
     (some (.returned none), none, none)] := by decide

example : (runScript false 4 exScript (initWorld exDefs)).2.nrecs = [⟨1, 2, some 21, some 21⟩] := by decide

/-- the same table undecorated: resumptions do change the driver's current action, and a body sees
another generator's action (`seen ≠ expected`) -/
example : (runScript false 4 exScript (initWorld (exDefs.map fun d => (false, d.2)))).1.map (fun r => (r.before, r.after)) =
    [(none, some 1), (some 1, some 11), (some 11, none), (none, some 2), (some 2, some 21), (some 21, some 1),
     (some 1, none), (none, none)] := by decide
example : (⟨0, 2, some 21, some 11⟩ : Obs) ∈ (runScript false 4 exScript (initWorld (exDefs.map fun d => (false, d.2)))).2.obs := by
  decide

/-- transparency is about something: a body that echoes what it is sent, catches what is thrown -/
def echo : Body (Option Nat) :=
  ⟨fun b s => match b with
    | .start => (.yielded none, s)
    | .val v => (.yielded v, v)
    | .exc (.user n) => (.yielded (some (100 + n)), s)
    | .exc _ => (.returned s, s)⟩

example : outputs echo none [.send none, .send (some 4), .throw (.user 2), .close, .send none] =
    [.yielded none, .yielded (some 4), .yielded (some 102), .returned none, .returned none] := by decide
example : wrapOutputs echo none [.send none, .send (some 4), .throw (.user 2), .throw .typeErr] =
    [.yielded none, .yielded (some 4), .yielded (some 102), .returned (some 4)] := by decide
example : wrapOutputsK false echo none [.send none, .send (some 4), .throw (.user 2), .throw .typeErr] =
    [.yielded none, .yielded (some 4), .yielded (some 102), .returned none] := by decide
example : outputs echo none [.send none, .send (some 4), .throw (.user 2), .throw .typeErr] =
    [.yielded none, .yielded (some 4), .yielded (some 102), .returned (some 4)] := by decide

end Gen.C15
