import Eliot.Proofs.ParseFlat
import Eliot.Proofs.ParseParser
import Eliot.Proofs.ParseFlatParser
import Eliot.Properties.C09
/-!
# C09 — the algorithm `parse.py` actually runs (flat `_nodes` map, upward walk) computes what the trie model computes

The C09 theorems (`Properties/C09.lean`) are about `Task.add` of `Model/Parse.lean`, a path update of one trie.
`parse.py` keeps a flat map from levels to actions with embedded copies of their children and re-inserts every
ancestor bottom-up; `Model/ParseFlat.lean` is that algorithm.  Here:

* `flat_refines_trie` — from any state in which the map mirrors the trie (`Inv`), one `add` inside the domain keeps
  it so (and succeeds whenever the trie's `add` does), for every message and every state, not only spec states;
* `flat_sequence_refines_trie` — the same for any sequence; `flat_root_and_complete` — `root()` and `is_complete()`
  then agree;
* `spec_stream_in_domain` — a message of a well-formed task never leaves the domain, whatever has arrived so far;
* `flat_follows_spec` — hence for **every subset, in every order,** of the messages of a well-formed action task the
  code-shaped algorithm ends with `root()` = the view of the specification tree on what arrived and is complete
  exactly when the trie is: order-independence, exact completeness and reconstruction (C09) hold for the flat
  algorithm too.
-/
namespace PM.C09Flat
open PM

theorem flat_refines_trie {ft : FTask} {t t' : Task} {m : PMsg} (hinv : Inv ft t) (hdom : PlainDom t m)
    (h : t.add m = .ok t') : ∃ ft', ft.add m = .ok ft' ∧ Inv ft' t' := add_refines hinv hdom h

theorem flat_sequence_refines_trie (ms : List PMsg) (t' : Task) (hdom : DomAll {} ms)
    (h : Task.addAll {} ms = .ok t') : ∃ ft', FTask.addAll {} ms = .ok ft' ∧ Inv ft' t' :=
  addAll_refines ms {} {} t' Inv.init hdom h

theorem flat_root_and_complete {ft : FTask} {t : Task} (h : Inv ft t) :
    ft.root = t.root ∧ ft.isComplete = t.isComplete ∧
      ∀ L, L ≠ [] → ft.get L = (t.lookup L).filter Node.isAct :=
  ⟨h.root_eq, h.complete_eq, h.get_eq⟩

/-- a message of a well-formed action task is inside the domain in every state the task can be in -/
theorem spec_stream_in_domain (S : PMsg → Bool) (u a : String) (sb eb : Nat) (ok : Bool) (kids : Forest)
    (T : Task) (m : PMsg) (hm : m ∈ Tree.msgs u (.node a sb eb ok kids) [])
    (hT : TaskOK S u (.node a sb eb ok kids) T) : PlainDom T m := by
  intro hat
  have hl1 := (Tree.msgs_root_level u a sb eb ok kids m hm).2 hat
  simp only [hl1, if_false]
  obtain ⟨p, hl, hx⟩ := Tree.plain_lookup u _ [] m hm hat
  intro x hh
  simp only [List.nil_append] at hl
  rw [Task.lookup, hT.root, hl] at hh
  exact hx S x hh

/-- a single-message task (`task_level == [1]`, no action type) in a fresh `Task` -/
theorem flat_single_message_task (m : PMsg) (hat : m.atype = none) (hl : m.level = [1]) :
    ∃ ft' t', Task.add {} m = .ok t' ∧ FTask.add {} m = .ok ft' ∧ Inv ft' t' ∧
      ft'.root = some (.msg m) ∧ ft'.isComplete = true := by
  have h : Task.add {} m = .ok { root := some (.msg m), completed := insertSorted [] [] } := by
    simp [Task.add, hat, hl, pure, Except.pure]
  obtain ⟨ft', hf, hinv⟩ := add_refines Inv.init (by intro _; simp [hl]) h
  refine ⟨ft', _, h, hf, hinv, ?_, ?_⟩
  · rw [hinv.root_eq]
  · rw [hinv.complete_eq]; simp [Task.isComplete, insertSorted]

theorem flat_follows_spec_gen (u a : String) (sb eb : Nat) (ok : Bool) (kids : Forest) :
    ∀ (ms : List PMsg) (S : PMsg → Bool) (T : Task) (ft : FTask),
      TaskOK S u (.node a sb eb ok kids) T → Inv ft T → ms.Nodup →
      (∀ m ∈ ms, m ∈ Tree.msgs u (.node a sb eb ok kids) [] ∧ S m = false) →
      ∃ T' ft', Task.addAll T ms = .ok T' ∧ FTask.addAll ft ms = .ok ft' ∧
        TaskOK (fun x => S x || ms.contains x) u (.node a sb eb ok kids) T' ∧ Inv ft' T' := by
  intro ms
  induction ms with
  | nil =>
    intro S T ft hT hinv _ _
    exact ⟨T, ft, rfl, rfl, by simpa using hT, hinv⟩
  | cons m ms ih =>
    intro S T ft hT hinv hnd hin
    obtain ⟨hm, hS⟩ := hin m (by simp)
    obtain ⟨T1, hadd, hT1⟩ := Task.add_step S u a sb eb ok kids T m hm hS hT
    obtain ⟨ft1, hf1, hinv1⟩ := add_refines hinv (spec_stream_in_domain S u a sb eb ok kids T m hm hT) hadd
    have hnd' := (List.nodup_cons.mp hnd)
    obtain ⟨T', ft', h1, h2, hT', hinv'⟩ := ih (ext S m) T1 ft1 hT1 hinv1 hnd'.2 (by
      intro x hx
      refine ⟨(hin x (by simp [hx])).1, ?_⟩
      have hne : x ≠ m := by intro h; subst h; exact hnd'.1 hx
      rw [ext_of_ne S m x hne]; exact (hin x (by simp [hx])).2)
    refine ⟨T', ft', by simp only [Task.addAll, bind, Except.bind, hadd]; exact h1,
      by simp only [FTask.addAll, bind, Except.bind, hf1]; exact h2, ?_, hinv'⟩
    have : (fun x => ext S m x || ms.contains x) = (fun x => S x || (m :: ms).contains x) := by
      funext x
      simp only [ext, List.contains_cons, Bool.or_assoc]
    rw [← this]; exact hT'

/-- **Every subset, in every order, of a well-formed action task's messages:** the flat algorithm of `parse.py`
succeeds, its `root()` is the specification tree restricted to what arrived, and it reports the task complete
exactly when the trie model does. -/
theorem flat_follows_spec (u a : String) (sb eb : Nat) (ok : Bool) (kids : Forest) (ms : List PMsg)
    (hnd : ms.Nodup) (hin : ∀ m ∈ ms, m ∈ Tree.msgs u (.node a sb eb ok kids) []) :
    ∃ T ft, Task.addAll {} ms = .ok T ∧ FTask.addAll {} ms = .ok ft ∧
      ft.root = Tree.view (fun x => ms.contains x) u (.node a sb eb ok kids) [] ∧
      ft.isComplete = T.isComplete ∧ Inv ft T := by
  have h0 : TaskOK (fun _ => false) u (.node a sb eb ok kids) {} :=
    TaskOK.empty (by intro ⟨m, _, hm⟩; cases hm)
  obtain ⟨T, ft, h1, h2, hT, hinv⟩ := flat_follows_spec_gen u a sb eb ok kids ms (fun _ => false) {} {} h0
    Inv.init hnd (fun m hm => ⟨hin m hm, rfl⟩)
  refine ⟨T, ft, h1, h2, ?_, hinv.complete_eq, hinv⟩
  rw [hinv.root_eq, hT.root]
  congr 1

/-- **Exact completeness for the flat algorithm:** after any non-empty duplicate-free sub-list of a well-formed action task's
messages, in any order, `is_complete()` of the code-shaped state is true exactly when every message of the task has arrived. -/
theorem flat_complete_iff_all_arrived (u a : String) (sb eb : Nat) (ok : Bool) (kids : Forest) (ms : List PMsg)
    (hne : ms ≠ []) (hnd : ms.Nodup) (hin : ∀ m ∈ ms, m ∈ Tree.msgs u (.node a sb eb ok kids) []) :
    ∃ ft, FTask.addAll {} ms = .ok ft ∧
      (ft.isComplete = true ↔ ∀ m ∈ Tree.msgs u (.node a sb eb ok kids) [], m ∈ ms) := by
  have h0 : TaskOK (fun _ => false) u (.node a sb eb ok kids) {} :=
    TaskOK.empty (by intro ⟨m, _, hm⟩; cases hm)
  obtain ⟨T, ft, _, h2, hT, hinv⟩ := flat_follows_spec_gen u a sb eb ok kids ms (fun _ => false) {} {} h0
    Inv.init hnd (fun m hm => ⟨hin m hm, rfl⟩)
  refine ⟨ft, h2, ?_⟩
  rw [hinv.complete_eq]
  have hTI : TaskIs (fun x => false || ms.contains x) u (.node a sb eb ok kids) T := hT
  have hsome : someArrived (fun x => false || ms.contains x) u (.node a sb eb ok kids) := by
    cases ms with
    | nil => exact absurd rfl hne
    | cons m rest => exact ⟨m, hin m (by simp), by simp⟩
  rw [TaskIs.isComplete_iff hTI hsome]
  simp [allArrived, tmsgs]

/-! ## The whole parser (`Parser.add`, `parse_stream`) over flat tasks -/

theorem domP_of_spec {ts : Spec} (hwf : ts.WF) : ∀ (ms : List PMsg) (S : PMsg → Bool) (p : Parser), POK S ts p →
    ms.Nodup → (∀ m ∈ ms, m ∈ ts.msgs) → (∀ m ∈ ms, S m = false) → DomP p ms := by
  intro ms
  induction ms with
  | nil => intro _ _ _ _ _ _; trivial
  | cons m ms ih =>
    intro S p hp hnd hin hS
    obtain ⟨u, t, ht, hm⟩ := Spec.mem_msgs (hin m List.mem_cons_self)
    have hSm := hS m List.mem_cons_self
    refine ⟨pdom_of_spec hwf hp ht hm hSm, ?_⟩
    intro done p' hadd
    obtain ⟨done₁, p₁, hadd₁, hp₁, _⟩ := Parser.add_step hwf hp ht hm hSm
    rw [hadd₁] at hadd
    have hpp : p₁ = p' := by cases hadd; rfl
    subst hpp
    have hnd' := List.nodup_cons.mp hnd
    exact ih (ext S m) p₁ hp₁ hnd'.2 (fun x hx => hin x (List.mem_cons_of_mem _ hx)) (by
      intro x hx
      have hne : x ≠ m := fun h => hnd'.1 (h ▸ hx)
      rw [ext_of_ne S m x hne]; exact hS x (List.mem_cons_of_mem _ hx))

/-- **`parse_stream` as the code runs it:** for every forest of well-formed tasks and every duplicate-free sub-list of its
messages in every order, the parser over flat tasks succeeds and yields, in the same order and under the same uuids, tasks that
mirror the trie parser's (`PInv`: same `root()`, same `is_complete()`, same `_nodes` entries) - so `feed_ok`,
`parse_perm_invariant`, `complete_iff_all_arrived`, `never_early`, `yield_exactly_once` and `reconstruct` are statements about
the flat algorithm as well. -/
theorem flat_parse_stream_follows_spec {ts : Spec} (hwf : ts.WF) (ms : List PMsg) (hnd : ms.Nodup)
    (hin : ∀ m ∈ ms, m ∈ ts.msgs) :
    ∃ out fout, parseStream ms = .ok out ∧ fparseStream ms = .ok fout ∧ PInv fout out := by
  obtain ⟨done, p, hfeed, _, _, _, _⟩ := C09.feed_spec hwf ms (fun _ => false) [] (POK.init ts) hnd hin (fun _ _ => rfl)
  have hdom := domP_of_spec hwf ms (fun _ => false) [] (POK.init ts) hnd hin (fun _ _ => rfl)
  obtain ⟨fdone, fp, hf, h1, h2⟩ := FParser.feed_refines ms [] [] done p PInv.nil hdom hfeed
  refine ⟨done ++ p, fdone ++ fp, ?_, ?_, h1.append h2⟩
  · simp only [parseStream, hfeed, bind, Except.bind, pure, Except.pure]
  · simp only [fparseStream, hf, bind, Except.bind, pure, Except.pure]

/-- what `PInv` gives for each yielded task -/
theorem PInv.get {fout : List (String × FTask)} {out : List (String × Task)} (h : PInv fout out) :
    fout.map (·.1) = out.map (·.1) ∧ fout.map (·.2.root) = out.map (·.2.root) ∧
      fout.map (·.2.isComplete) = out.map (·.2.isComplete) := by
  induction h with
  | nil => simp
  | cons hi _ ih =>
    simp only [List.map_cons, ih.1, ih.2.1, ih.2.2, hi.root_eq, hi.complete_eq, and_self]

/-! Non-vacuity: a concrete out-of-order stream (end of the inner action first), both algorithms run by the kernel. -/
def exTree : Tree := .node "outer" 10 19 true (.cons (.leaf 11) (.cons (.node "inner" 12 14 false (.cons (.leaf 13) .nil)) .nil))
def exStream : List PMsg := (Tree.msgs "u" exTree []).reverse

example : exStream.length = 6 ∧ exStream.Nodup := by decide
example : (FTask.addAll {} exStream).toOption.map (·.isComplete) = some true := by decide
mutual
/-- bodies in pre-order with the child keys (only to compare two concrete trees by `decide`) -/
def Node.code : Node → List Nat
  | .msg m => [0, m.body]
  | .act s e ch => 1 :: ((s.map (·.body)).getD 0) :: ((e.map (·.body)).getD 0) :: Kids.code ch
def Kids.code : Kids → List Nat
  | .nil => [2]
  | .cons k n rest => 3 :: k :: (Node.code n ++ Kids.code rest)
end
example : (FTask.addAll {} exStream).toOption.map (fun t => t.root.map Node.code)
    = (Task.addAll {} exStream).toOption.map (fun t => t.root.map Node.code) := by decide
example : (FTask.addAll {} exStream).toOption.map (fun t => t.root.map Node.code)
    = some (some [1, 10, 19, 3, 2, 0, 11, 3, 3, 1, 12, 14, 3, 2, 0, 13, 2, 2]) := by decide
/-- outside the domain the two really differ (a plain message arrives where an action is known): the hypothesis is needed -/
example :
    let ms : List PMsg := [⟨"u", [2, 1], some "a", some "started", 1⟩, ⟨"u", [2], none, none, 2⟩, ⟨"u", [2, 2], some "a", some "succeeded", 3⟩]
    (Task.addAll {} ms).toOption.isNone ∧ (FTask.addAll {} ms).toOption.isSome := by decide

end PM.C09Flat
