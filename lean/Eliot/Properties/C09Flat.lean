import Eliot.Proofs.ParseFlat
import Eliot.Proofs.ParseParser
import Eliot.Proofs.ParseFlatParser
import Eliot.Properties.C09
/-!
# C09 — the algorithm `parse.py` actually runs (flat `_nodes` map, upward walk) follows the trie model wherever the trie succeeds

The C09 theorems (`Properties/C09.lean`) are about `Task.add` of `Model/Parse.lean`, a path update of one trie.
`parse.py` keeps a flat map from levels to actions with embedded copies of their children and re-inserts every
ancestor bottom-up; `Model/ParseFlat.lean` is that algorithm.  Here (all statements are conditional on the trie's `add`
succeeding; where it fails — in particular `underMessage`, a message at or below a plain message, where the code does not
fail — nothing is claimed):

* `flat_refines_trie` — from any state in which the map mirrors the trie (`Inv`), an `add` inside the domain `PlainDom`
  on which the trie succeeds succeeds on the map too and keeps the mirror; for every such message and state, not only
  spec states;
* `flat_error_agrees` — where the trie fails with one of the parser's own exceptions (anything but `underMessage`) the flat
  algorithm fails with the same one;
* `flat_sequence_refines_trie` — the same for any sequence; `flat_root_and_complete` — `root()`, `is_complete()` and every
  `_nodes` entry then agree;
* `spec_stream_in_domain` — a message of a well-formed task never leaves the domain, whatever has arrived so far;
* `flat_follows_spec`, `flat_complete_iff_all_arrived` — for every duplicate-free sub-list, in every order, of the messages
  of one well-formed action task the flat algorithm succeeds, `root()` is the view of the specification tree on what arrived,
  and `is_complete()` is true exactly when everything arrived;
* `flat_parse_stream_follows_spec` — the whole parser (`FParser`, several tasks, single-message tasks): for every well-formed
  forest and every duplicate-free sub-list of its messages in every order the flat parser yields, in the same order, tasks
  mirroring the trie parser's; `flat_perm_invariant` — order independence in the code's own terms (`FTask.Same`: the same
  `_nodes` entries, the same `_completed` set).
  The order in which `parse_stream` hands out the *incomplete* leftovers at the end is the model's association-list order
  (most recently touched first); Python's is the hash order of a `pmap`; no theorem and no comparison speaks about it.
-/
namespace PM.C09Flat
open PM

theorem flat_refines_trie {ft : FTask} {t t' : Task} {m : PMsg} (hinv : Inv ft t) (hdom : PlainDom t m)
    (h : t.add m = .ok t') : ∃ ft', ft.add m = .ok ft' ∧ Inv ft' t' := add_refines hinv hdom h

/-- the parser's own exceptions (`InvalidStartMessage`, `WrongActionType`, `InvalidStatus`, a missing status, an empty level): where
the trie reports one, the flat algorithm reports the same one at the same message - from any mirrored state, no domain hypothesis -/
theorem flat_error_agrees {ft : FTask} {t : Task} {m : PMsg} {e : Err} (hinv : Inv ft t) (h : t.add m = .error e)
    (he : e ≠ .underMessage) : ft.add m = .error e := add_error_agrees hinv h he

theorem flat_sequence_refines_trie (ms : List PMsg) (t' : Task) (hdom : DomAll {} ms)
    (h : Task.addAll {} ms = .ok t') : ∃ ft', FTask.addAll {} ms = .ok ft' ∧ Inv ft' t' :=
  addAll_refines ms {} {} t' Inv.init hdom h

theorem flat_root_and_complete {ft : FTask} {t : Task} (h : Inv ft t) :
    ft.root = t.root ∧ ft.isComplete = t.isComplete ∧
      ∀ L, L ≠ [] → ft.get L = (t.lookup L).filter Node.isAct :=
  ⟨h.root_eq, h.complete_eq, h.get_eq⟩

/-- a message of a well-formed action task is inside the domain in every state the task can be in -/
theorem spec_stream_in_domain (S : PMsg → Bool) (u a : String) (sb eb : Nat) (ok : Bool) (kids : Forest)
    (T : Task) (m : PMsg) (hm : m ∈ Tree.msgs u (.node a sb eb ok kids) [])
    (hT : TaskOK S u (.node a sb eb ok kids) T) : PlainDom T m := by
  intro hat
  have hl1 := (Tree.msgs_root_level u a sb eb ok kids m hm).2 hat
  simp only [hl1, if_false]
  obtain ⟨p, hl, hx⟩ := Tree.plain_lookup u _ [] m hm hat
  intro x hh
  simp only [List.nil_append] at hl
  rw [Task.lookup, hT.root, hl] at hh
  exact hx S x hh

/-- a single-message task (`task_level == [1]`, no action type) in a fresh `Task` -/
theorem flat_single_message_task (m : PMsg) (hat : m.atype = none) (hl : m.level = [1]) :
    ∃ ft' t', Task.add {} m = .ok t' ∧ FTask.add {} m = .ok ft' ∧ Inv ft' t' ∧
      ft'.root = some (.msg m) ∧ ft'.isComplete = true := by
  have h : Task.add {} m = .ok { root := some (.msg m), completed := insertSorted [] [] } := by
    simp [Task.add, hat, hl, pure, Except.pure]
  obtain ⟨ft', hf, hinv⟩ := add_refines Inv.init (by intro _; simp [hl]) h
  refine ⟨ft', _, h, hf, hinv, ?_, ?_⟩
  · rw [hinv.root_eq]
  · rw [hinv.complete_eq]; simp [Task.isComplete, insertSorted]

theorem flat_follows_spec_gen (u a : String) (sb eb : Nat) (ok : Bool) (kids : Forest) :
    ∀ (ms : List PMsg) (S : PMsg → Bool) (T : Task) (ft : FTask),
      TaskOK S u (.node a sb eb ok kids) T → Inv ft T → ms.Nodup →
      (∀ m ∈ ms, m ∈ Tree.msgs u (.node a sb eb ok kids) [] ∧ S m = false) →
      ∃ T' ft', Task.addAll T ms = .ok T' ∧ FTask.addAll ft ms = .ok ft' ∧
        TaskOK (fun x => S x || ms.contains x) u (.node a sb eb ok kids) T' ∧ Inv ft' T' := by
  intro ms
  induction ms with
  | nil =>
    intro S T ft hT hinv _ _
    exact ⟨T, ft, rfl, rfl, by simpa using hT, hinv⟩
  | cons m ms ih =>
    intro S T ft hT hinv hnd hin
    obtain ⟨hm, hS⟩ := hin m (by simp)
    obtain ⟨T1, hadd, hT1⟩ := Task.add_step S u a sb eb ok kids T m hm hS hT
    obtain ⟨ft1, hf1, hinv1⟩ := add_refines hinv (spec_stream_in_domain S u a sb eb ok kids T m hm hT) hadd
    have hnd' := (List.nodup_cons.mp hnd)
    obtain ⟨T', ft', h1, h2, hT', hinv'⟩ := ih (ext S m) T1 ft1 hT1 hinv1 hnd'.2 (by
      intro x hx
      refine ⟨(hin x (by simp [hx])).1, ?_⟩
      have hne : x ≠ m := by intro h; subst h; exact hnd'.1 hx
      rw [ext_of_ne S m x hne]; exact (hin x (by simp [hx])).2)
    refine ⟨T', ft', by simp only [Task.addAll, bind, Except.bind, hadd]; exact h1,
      by simp only [FTask.addAll, bind, Except.bind, hf1]; exact h2, ?_, hinv'⟩
    have : (fun x => ext S m x || ms.contains x) = (fun x => S x || (m :: ms).contains x) := by
      funext x
      simp only [ext, List.contains_cons, Bool.or_assoc]
    rw [← this]; exact hT'

/-- **Every subset, in every order, of a well-formed action task's messages:** the flat algorithm of `parse.py`
succeeds, its `root()` is the specification tree restricted to what arrived, and it reports the task complete
exactly when the trie model does. -/
theorem flat_follows_spec (u a : String) (sb eb : Nat) (ok : Bool) (kids : Forest) (ms : List PMsg)
    (hnd : ms.Nodup) (hin : ∀ m ∈ ms, m ∈ Tree.msgs u (.node a sb eb ok kids) []) :
    ∃ T ft, Task.addAll {} ms = .ok T ∧ FTask.addAll {} ms = .ok ft ∧
      ft.root = Tree.view (fun x => ms.contains x) u (.node a sb eb ok kids) [] ∧
      ft.isComplete = T.isComplete ∧ Inv ft T := by
  have h0 : TaskOK (fun _ => false) u (.node a sb eb ok kids) {} :=
    TaskOK.empty (by intro ⟨m, _, hm⟩; cases hm)
  obtain ⟨T, ft, h1, h2, hT, hinv⟩ := flat_follows_spec_gen u a sb eb ok kids ms (fun _ => false) {} {} h0
    Inv.init hnd (fun m hm => ⟨hin m hm, rfl⟩)
  refine ⟨T, ft, h1, h2, ?_, hinv.complete_eq, hinv⟩
  rw [hinv.root_eq, hT.root]
  congr 1

/-- **Exact completeness for the flat algorithm:** after any non-empty duplicate-free sub-list of a well-formed action task's
messages, in any order, `is_complete()` of the code-shaped state is true exactly when every message of the task has arrived. -/
theorem flat_complete_iff_all_arrived (u a : String) (sb eb : Nat) (ok : Bool) (kids : Forest) (ms : List PMsg)
    (hne : ms ≠ []) (hnd : ms.Nodup) (hin : ∀ m ∈ ms, m ∈ Tree.msgs u (.node a sb eb ok kids) []) :
    ∃ ft, FTask.addAll {} ms = .ok ft ∧
      (ft.isComplete = true ↔ ∀ m ∈ Tree.msgs u (.node a sb eb ok kids) [], m ∈ ms) := by
  have h0 : TaskOK (fun _ => false) u (.node a sb eb ok kids) {} :=
    TaskOK.empty (by intro ⟨m, _, hm⟩; cases hm)
  obtain ⟨T, ft, _, h2, hT, hinv⟩ := flat_follows_spec_gen u a sb eb ok kids ms (fun _ => false) {} {} h0
    Inv.init hnd (fun m hm => ⟨hin m hm, rfl⟩)
  refine ⟨ft, h2, ?_⟩
  rw [hinv.complete_eq]
  have hTI : TaskIs (fun x => false || ms.contains x) u (.node a sb eb ok kids) T := hT
  have hsome : someArrived (fun x => false || ms.contains x) u (.node a sb eb ok kids) := by
    cases ms with
    | nil => exact absurd rfl hne
    | cons m rest => exact ⟨m, hin m (by simp), by simp⟩
  rw [TaskIs.isComplete_iff hTI hsome]
  simp [allArrived, tmsgs]

/-! ## The whole parser (`Parser.add`, `parse_stream`) over flat tasks -/

theorem domP_of_spec {ts : Spec} (hwf : ts.WF) : ∀ (ms : List PMsg) (S : PMsg → Bool) (p : Parser), POK S ts p →
    ms.Nodup → (∀ m ∈ ms, m ∈ ts.msgs) → (∀ m ∈ ms, S m = false) → DomP p ms := by
  intro ms
  induction ms with
  | nil => intro _ _ _ _ _ _; trivial
  | cons m ms ih =>
    intro S p hp hnd hin hS
    obtain ⟨u, t, ht, hm⟩ := Spec.mem_msgs (hin m List.mem_cons_self)
    have hSm := hS m List.mem_cons_self
    refine ⟨pdom_of_spec hwf hp ht hm hSm, ?_⟩
    intro done p' hadd
    obtain ⟨done₁, p₁, hadd₁, hp₁, _⟩ := Parser.add_step hwf hp ht hm hSm
    rw [hadd₁] at hadd
    have hpp : p₁ = p' := by cases hadd; rfl
    subst hpp
    have hnd' := List.nodup_cons.mp hnd
    exact ih (ext S m) p₁ hp₁ hnd'.2 (fun x hx => hin x (List.mem_cons_of_mem _ hx)) (by
      intro x hx
      have hne : x ≠ m := fun h => hnd'.1 (h ▸ hx)
      rw [ext_of_ne S m x hne]; exact hS x (List.mem_cons_of_mem _ hx))

/-- **`parse_stream` as the code runs it:** for every forest of well-formed tasks and every duplicate-free sub-list of its
messages in every order, the parser over flat tasks succeeds and yields, in the same order and under the same uuids, tasks that
mirror the trie parser's (`PInv`: same `root()`, same `is_complete()`, same `_nodes` entries).  What `feed_ok`,
`complete_iff_all_arrived`, `never_early`, `yield_exactly_once` and `reconstruct` say about the yielded trie tasks can be read
off the flat tasks through `PInv.get` / `PInv.mem_left`; stated as theorems of their own: `flat_perm_invariant`,
`flat_complete_iff_all_arrived`, `C01.roundtrip_flat`, `C11.crash_parse_flat`, `C17.parser_builds_same_flat`. -/
theorem flat_parse_stream_follows_spec {ts : Spec} (hwf : ts.WF) (ms : List PMsg) (hnd : ms.Nodup)
    (hin : ∀ m ∈ ms, m ∈ ts.msgs) :
    ∃ out fout, parseStream ms = .ok out ∧ fparseStream ms = .ok fout ∧ PInv fout out := by
  obtain ⟨done, p, hfeed, _, _, _, _⟩ := C09.feed_spec hwf ms (fun _ => false) [] (POK.init ts) hnd hin (fun _ _ => rfl)
  have hdom := domP_of_spec hwf ms (fun _ => false) [] (POK.init ts) hnd hin (fun _ _ => rfl)
  obtain ⟨fdone, fp, hf, h1, h2⟩ := FParser.feed_refines ms [] [] done p PInv.nil hdom hfeed
  refine ⟨done ++ p, fdone ++ fp, ?_, ?_, h1.append h2⟩
  · simp only [parseStream, hfeed, bind, Except.bind, pure, Except.pure]
  · simp only [fparseStream, hf, bind, Except.bind, pure, Except.pure]

/-- what `PInv` gives for each yielded task -/
theorem PInv.get {fout : List (String × FTask)} {out : List (String × Task)} (h : PInv fout out) :
    fout.map (·.1) = out.map (·.1) ∧ fout.map (·.2.root) = out.map (·.2.root) ∧
      fout.map (·.2.isComplete) = out.map (·.2.isComplete) := by
  induction h with
  | nil => simp
  | cons hi _ ih =>
    simp only [List.map_cons, ih.1, ih.2.1, ih.2.2, hi.root_eq, hi.complete_eq, and_self]

/-- `Task.__eq__` on the code's representation: the same `_nodes` map (entry by entry) and the same `_completed` set -/
def FTask.Same (F₁ F₂ : FTask) : Prop :=
  (∀ L, F₁.get L = F₂.get L) ∧ (∀ L, F₁.completed.contains L = F₂.completed.contains L)

theorem PInv.mem_left {fout : List (String × FTask)} {out : List (String × Task)} (h : PInv fout out) {u : String} {FT : FTask}
    (hm : (u, FT) ∈ fout) : ∃ T, (u, T) ∈ out ∧ Inv FT T := by
  induction h with
  | nil => cases hm
  | @cons u' ft t fp p hi _ ih =>
    rcases List.mem_cons.mp hm with h | h
    · cases h; exact ⟨t, List.mem_cons_self, hi⟩
    · obtain ⟨T, h1, h2⟩ := ih h
      exact ⟨T, List.mem_cons_of_mem _ h1, h2⟩

theorem PInv.mem_right {fout : List (String × FTask)} {out : List (String × Task)} (h : PInv fout out) {u : String} {T : Task}
    (hm : (u, T) ∈ out) : ∃ FT, (u, FT) ∈ fout ∧ Inv FT T := by
  induction h with
  | nil => cases hm
  | @cons u' ft t fp p hi _ ih =>
    rcases List.mem_cons.mp hm with h | h
    · cases h; exact ⟨ft, List.mem_cons_self, hi⟩
    · obtain ⟨FT, h1, h2⟩ := ih h
      exact ⟨FT, List.mem_cons_of_mem _ h1, h2⟩

theorem same_of_inv {F₁ F₂ : FTask} {T₁ T₂ : Task} (h₁ : Inv F₁ T₁) (h₂ : Inv F₂ T₂) (hs : C09.Task.Same T₁ T₂) :
    FTask.Same F₁ F₂ := by
  refine ⟨fun L => ?_, fun L => ?_⟩
  · by_cases hL : L = []
    · subst hL
      have a := h₁.root_eq; have b := h₂.root_eq
      simp only [FTask.root] at a b
      rw [a, b, hs.1]
    · rw [h₁.get_eq L hL, h₂.get_eq L hL, Task.lookup, Task.lookup, hs.1]
  · rw [h₁.comp L, h₂.comp L, hs.2 L]

/-- **Order independence in the code's own terms.**  For two orders (and interleavings) of the same duplicate-free messages of a
well-formed forest, the flat parser yields tasks under the same uuids, each once, and for every uuid the two `Task` values are equal
as Python compares them - the same `_nodes` entry under every level, the same `_completed` set - and equally complete. -/
theorem flat_perm_invariant {ts : Spec} (hwf : ts.WF) (ms₁ ms₂ : List PMsg) (hperm : ms₁.Perm ms₂)
    (hnd : ms₁.Nodup) (hin : ∀ m ∈ ms₁, m ∈ ts.msgs) :
    ∃ f₁ f₂, fparseStream ms₁ = .ok f₁ ∧ fparseStream ms₂ = .ok f₂ ∧
      (f₁.map (·.1)).Nodup ∧ (f₂.map (·.1)).Nodup ∧
      (∀ u, (∃ F, (u, F) ∈ f₁) ↔ (∃ F, (u, F) ∈ f₂)) ∧
      (∀ u F₁ F₂, (u, F₁) ∈ f₁ → (u, F₂) ∈ f₂ → FTask.Same F₁ F₂ ∧ F₁.isComplete = F₂.isComplete) := by
  have hnd₂ : ms₂.Nodup := hperm.nodup_iff.mp hnd
  have hin₂ : ∀ m ∈ ms₂, m ∈ ts.msgs := fun m hm => hin m (hperm.mem_iff.mpr hm)
  obtain ⟨o₁, o₂, h₁, h₂, n₁, n₂, hkeys, hsame⟩ := C09.parse_perm_invariant hwf ms₁ ms₂ hperm hnd hin
  obtain ⟨o₁', f₁, a₁, b₁, p₁⟩ := flat_parse_stream_follows_spec hwf ms₁ hnd hin
  obtain ⟨o₂', f₂, a₂, b₂, p₂⟩ := flat_parse_stream_follows_spec hwf ms₂ hnd₂ hin₂
  have e₁ : o₁' = o₁ := by rw [h₁] at a₁; cases a₁; rfl
  have e₂ : o₂' = o₂ := by rw [h₂] at a₂; cases a₂; rfl
  subst e₁; subst e₂
  have k₁ := (PInv.get p₁).1
  have k₂ := (PInv.get p₂).1
  refine ⟨f₁, f₂, b₁, b₂, by rw [k₁]; exact n₁, by rw [k₂]; exact n₂, ?_, ?_⟩
  · intro u
    constructor
    · rintro ⟨F, hF⟩
      obtain ⟨T, hT, _⟩ := PInv.mem_left p₁ hF
      obtain ⟨T₂, hT₂⟩ := (hkeys u).mp ⟨T, hT⟩
      obtain ⟨F₂, hF₂, _⟩ := PInv.mem_right p₂ hT₂
      exact ⟨F₂, hF₂⟩
    · rintro ⟨F, hF⟩
      obtain ⟨T, hT, _⟩ := PInv.mem_left p₂ hF
      obtain ⟨T₁, hT₁⟩ := (hkeys u).mpr ⟨T, hT⟩
      obtain ⟨F₁, hF₁, _⟩ := PInv.mem_right p₁ hT₁
      exact ⟨F₁, hF₁⟩
  · intro u F₁ F₂ hF₁ hF₂
    obtain ⟨T₁, hT₁, i₁⟩ := PInv.mem_left p₁ hF₁
    obtain ⟨T₂, hT₂, i₂⟩ := PInv.mem_left p₂ hF₂
    obtain ⟨hs, hc⟩ := hsame u T₁ T₂ hT₁ hT₂
    exact ⟨same_of_inv i₁ i₂ hs, by rw [i₁.complete_eq, i₂.complete_eq, hc]⟩

theorem lookup_filter_ne {α : Type} (l : List (String × α)) (u : String) :
    (l.filter (fun e => e.1 != u)).lookup u = none := by
  induction l with
  | nil => rfl
  | cons e es ih =>
    simp only [List.filter_cons]
    by_cases h : e.1 = u
    · simp [h, ih]
    · have h1 : (e.1 != u) = true := by simpa using h
      have h2 : (u == e.1) = false := by simpa using (fun hh : u = e.1 => h hh.symm)
      simp only [h1, if_true]
      obtain ⟨k, v⟩ := e
      simp only [List.lookup_cons] at ih ⊢
      simp only [] at h2
      rw [h2]; exact ih

/-- **A task that was handed back is gone from the parser**: whatever arrives later under its uuid (a background task that
inherited the context logs after the root action ended) starts a new `Task` and is yielded with it - by both parsers. -/
theorem handed_back_is_forgotten {p p' : Parser} {fp fp' : FParser} {m : PMsg} {done : List (String × Task)}
    {fdone : List (String × FTask)} (h : p.add m = .ok (done, p')) (hf : fp.add m = .ok (fdone, fp'))
    (hd : done ≠ []) (hfd : fdone ≠ []) : p'.lookup m.uuid = none ∧ fp'.lookup m.uuid = none := by
  constructor
  · unfold Parser.add at h
    simp only [bind, Except.bind] at h
    cases ha : ((p.lookup m.uuid).getD {}).add m with
    | error e => simp [ha] at h
    | ok t =>
      simp only [ha] at h
      by_cases hc : t.isComplete = true
      · simp only [hc, if_true, pure, Except.pure] at h
        cases h
        exact lookup_filter_ne p m.uuid
      · simp only [hc, Bool.false_eq_true, if_false, pure, Except.pure] at h
        cases h; exact absurd rfl hd
  · unfold FParser.add at hf
    simp only [bind, Except.bind] at hf
    cases ha : ((fp.lookup m.uuid).getD {}).add m with
    | error e => simp [ha] at hf
    | ok t =>
      simp only [ha] at hf
      by_cases hc : t.isComplete = true
      · simp only [hc, if_true, pure, Except.pure] at hf
        cases hf
        exact lookup_filter_ne fp m.uuid
      · simp only [hc, Bool.false_eq_true, if_false, pure, Except.pure] at hf
        cases hf; exact absurd rfl hfd

/-! Non-vacuity: a concrete out-of-order stream (end of the inner action first), both algorithms run by the kernel. -/
def exTree : Tree := .node "outer" 10 19 true (.cons (.leaf 11) (.cons (.node "inner" 12 14 false (.cons (.leaf 13) .nil)) .nil))
def exStream : List PMsg := (Tree.msgs "u" exTree []).reverse

example : exStream.length = 6 ∧ exStream.Nodup := by decide
example : (FTask.addAll {} exStream).toOption.map (·.isComplete) = some true := by decide
mutual
/-- bodies in pre-order with the child keys (only to compare two concrete trees by `decide`) -/
def Node.code : Node → List Nat
  | .msg m => [0, m.body]
  | .act s e ch => 1 :: ((s.map (·.body)).getD 0) :: ((e.map (·.body)).getD 0) :: Kids.code ch
def Kids.code : Kids → List Nat
  | .nil => [2]
  | .cons k n rest => 3 :: k :: (Node.code n ++ Kids.code rest)
end
example : (FTask.addAll {} exStream).toOption.map (fun t => t.root.map Node.code)
    = (Task.addAll {} exStream).toOption.map (fun t => t.root.map Node.code) := by decide
example : (FTask.addAll {} exStream).toOption.map (fun t => t.root.map Node.code)
    = some (some [1, 10, 19, 3, 2, 0, 11, 3, 3, 1, 12, 14, 3, 2, 0, 13, 2, 2]) := by decide
/-- outside the domain the two really differ (a plain message arrives where an action is known): the hypothesis is needed -/
example :
    let ms : List PMsg := [⟨"u", [2, 1], some "a", some "started", 1⟩, ⟨"u", [2], none, none, 2⟩, ⟨"u", [2, 2], some "a", some "succeeded", 3⟩]
    (Task.addAll {} ms).toOption.isNone ∧ (FTask.addAll {} ms).toOption.isSome := by decide

end PM.C09Flat
