import Eliot.Proofs.LevelStr
import Eliot.Proofs.ParseSub
import Eliot.Proofs.SysAction
import Eliot.Proofs.Once
import Eliot.Model.Preserve
import Eliot.Properties.C02
import Eliot.Properties.C07
import Eliot.Properties.C09
/-!
# C06 — a serialized task id continues the same tree in another thread or process

Four models are composed:

* `Eliot/Model/Level.lean` — the *string* form: `TaskLevel.toString/fromString`,
  `Action.serialize_task_id`, the decoding half of `Action.continue_task`, over `List Char`
  (theorems `level_string_roundtrip`, `task_id_roundtrip`, `task_id_roundtrip_bytes`, `task_id_ascii`);
* `Eliot/Model/Sys.lean` — the core model: `.serializeAs y x` hands out the next position of the
  action and stores `(uuid, level)` as id `y`, `.continueWith y sp body` consumes it
  (`reserved_position_unique` = `Sys.C02.reserved_position_unique`, `serialize_reserves`,
  `continue_at_reserved`, `preserve_passthrough`);
* `Eliot/Model/Parse.lean` + spec trees — `eliot.parse` on the merged logs
  (`remote_subtree_is_child`, `multi_hop`, `parsed_subtree_at`);
* `Eliot/Conc/Once.lean` — the single-use guard of the `preserve_context` callable under every
  schedule (`Eliot.Conc.Once.at_most_once`, proved in `Eliot/Proofs/Once.lean`, audited here).

Threads, processes and destinations do not occur in the statements because nothing in them depends
on *where* a message is logged: the origin's log and every remote side's log are lists of
messages, the merged file is **any** permutation of their concatenation.
-/
namespace C06
open Level

/-! ## 1. the string form -/

/-- **level_string_roundtrip**: `TaskLevel.fromString(TaskLevel(l).toString()).as_list() == l` for every
level: the empty one (`"/"`), any length, components of any size (`0`, multi-digit, …). -/
theorem level_string_roundtrip : ∀ l : List Nat, Level.fromChars (Level.toChars l) = some l := by
  intro l
  unfold Level.fromChars
  rw [components_toChars, mapNat_map_natDigits]

example : Level.toChars [] = ['/'] ∧ Level.fromChars ['/'] = some [] := by decide
example : Level.toChars [3, 0, 12, 100000000000000000000] = "/3/0/12/100000000000000000000".toList ∧
    Level.fromChars "/3/0/12/100000000000000000000".toList = some [3, 0, 12, 100000000000000000000] := by decide +kernel
/-- `fromString` is lenient exactly as Python's: no leading slash, doubled and trailing slashes -/
example : Level.fromChars "1/2".toList = some [1, 2] ∧ Level.fromChars "/1//2/".toList = some [1, 2] ∧
    Level.fromChars [] = some [] ∧ Level.fromChars "//".toList = some [] ∧
    Level.fromChars "/1/x".toList = none ∧ Level.rejects "/1/x".toList = true := by decide +kernel

/-- **task_id_roundtrip** (text form): what `continue_task` decodes from the text
`"<uuid>@<level>"` is the uuid and the level that `serialize_task_id` encoded — provided the uuid
contains no `'@'` (a `uuid4()` never does). -/
theorem task_id_roundtrip (u : List Char) (l : List Nat) (hu : '@' ∉ u) :
    Level.parseTaskId (Level.serializeTaskId u l) = some (u, l) := by
  unfold Level.parseTaskId Level.serializeTaskId
  have hat : ('@' : Char).toNat < 48 ∨ 57 < ('@' : Char).toNat := by decide
  have hno : '@' ∉ toChars l := by
    intro h
    unfold toChars at h
    rcases List.mem_cons.mp h with h | h
    · exact absurd h (by decide)
    · -- '@' would be a digit or a slash
      have : ∀ (ps : List Nat), '@' ∉ joinWith '/' (ps.map natDigits) := by
        intro ps
        induction ps with
        | nil => simp [joinWith]
        | cons n ns ih =>
          cases ns with
          | nil => simpa [joinWith] using natDigits_no n '@' hat
          | cons m ms =>
            simp only [List.map_cons, joinWith, List.mem_append, List.mem_cons, not_or]
            exact ⟨natDigits_no n '@' hat, by decide, by simpa [List.map_cons] using ih⟩
      exact this l h
  rw [splitOn_append_sep '@' u _ hu, splitOn_of_not_mem '@' _ hno]
  simp only [level_string_roundtrip]

/-- **task_id_ascii**: the id consists of ASCII characters when the uuid does … -/
theorem task_id_ascii (u : List Char) (l : List Nat) (hu : ∀ c ∈ u, c.toNat < 128) :
    ∀ c ∈ Level.serializeTaskId u l, c.toNat < 128 := by
  intro c hc
  unfold Level.serializeTaskId at hc
  rcases List.mem_append.mp hc with h | h
  · exact hu c h
  · rcases List.mem_cons.mp h with h | h
    · rw [h]; decide
    · exact toChars_ascii l c h

/-- … hence **bytes and text forms agree** (`task_id_roundtrip`, bytes form): `serialize_task_id()`
(`.encode("ascii")`) does not raise, its bytes are the code points of the text, and
`continue_task` given the bytes (`.decode("ascii")` first) decodes the same `(uuid, level)` as when
given the text. -/
theorem task_id_roundtrip_bytes (u : List Char) (l : List Nat) (hu : '@' ∉ u) (ha : ∀ c ∈ u, c.toNat < 128) :
    Level.serializeTaskIdBytes u l = some ((Level.serializeTaskId u l).map Char.toNat) ∧
    Level.parseTaskIdBytes ((Level.serializeTaskId u l).map Char.toNat) = some (u, l) ∧
    Level.parseTaskIdBytes ((Level.serializeTaskId u l).map Char.toNat) = Level.parseTaskId (Level.serializeTaskId u l) := by
  obtain ⟨h1, h2⟩ := decode_encode (Level.serializeTaskId u l) (task_id_ascii u l ha)
  refine ⟨h1, ?_, ?_⟩ <;> simp only [Level.parseTaskIdBytes, h2, task_id_roundtrip u l hu]

def exUuid : List Char := "8c668cde-235b-4872-af4e-caea524bd1c0".toList
example : Level.serializeTaskId exUuid [2, 13, 1] = "8c668cde-235b-4872-af4e-caea524bd1c0@/2/13/1".toList ∧
    Level.parseTaskId "8c668cde-235b-4872-af4e-caea524bd1c0@/2/13/1".toList = some (exUuid, [2, 13, 1]) ∧
    '@' ∉ exUuid ∧ (∀ c ∈ exUuid, c.toNat < 128) ∧
    Level.parseTaskId "no-separator".toList = none ∧ Level.parseTaskId "a@/1@/2".toList = none := by decide +kernel

/-- bytes form: 44 bytes, all < 128, decoding to the same pair; a non-ASCII uuid makes `serialize_task_id` raise -/
example : (Level.serializeTaskIdBytes exUuid [2, 13, 1]).map List.length = some 44 ∧
    (Level.serializeTaskIdBytes exUuid [2, 13, 1]).bind Level.parseTaskIdBytes = some (exUuid, [2, 13, 1]) ∧
    Level.serializeTaskIdBytes ['é'] [1] = none ∧ Level.parseTaskIdBytes [97, 64, 47, 49, 200] = none := by decide +kernel

/-! ## 2. the reserved position (core model) -/
open Sys

/-- **reserved_position_unique** (= `Sys.C02.reserved_position_unique`, proved for ALL programs of
the core language, all environments): after any run, every outstanding serialized task id `e`
(1) denotes a position `(task_uuid, level ++ [k])` that some action `q` handed out (`(q, k)` is in
the ghost list of handed-out positions, each of which is handed out once: `Sys.C02.levels_unique`),
(2) no action sits there — and since messages and child actions only ever take positions freshly
handed out to *them*, the reserved place is used by no other message of the run —,
(3) no other outstanding id denotes the same place: two `serialize_task_id` calls (same or
different actions) never return the same id. -/
theorem reserved_position_unique (env : Env) (p : Block) :
    let w' := (execB env none {} p).1
    ∀ e ∈ w'.ids,
      (∃ (q : Nat) (pa : Act) (k : Nat), w'.acts[q]? = some pa ∧ e.2 = (pa.uuid, pa.level ++ [k]) ∧ (q, k) ∈ w'.slots) ∧
      (∀ (h : Nat) (b : Act), w'.acts[h]? = some b → actKey b ≠ e.2) ∧
      (∀ e' ∈ w'.ids, e'.2 = e.2 → e'.1 = e.1) :=
  Sys.C02.reserved_position_unique env p

theorem lookupNat_setNat_self {α} (l : List (Nat × α)) (k : Nat) (v : α) : lookupNat (setNat l k v) k = some v := by
  induction l with
  | nil => simp [setNat, lookupNat]
  | cons x r ih =>
    obtain ⟨k', v'⟩ := x
    by_cases e : k' = k
    · simp [setNat, lookupNat, e]
    · simp [setNat, lookupNat, e, ih]

/-- **serialize_reserves**: `y = serialize_task_id()` inside action `h` (uuid `a.uuid`, level
`a.level`, `a.last` positions used so far) returns the id `(a.uuid, a.level ++ [a.last + 1])` and
*consumes* that position: it is recorded as handed out and the action's counter advances, so the
next message / child / id of the action gets the following position. -/
theorem serialize_reserves (env : Env) (cur : Option Exc) (w : World) (h : Nat) (a : Act) (y : Nat)
    (hc : w.ctx = some h) (ha : w.acts[h]? = some a) :
    let r := execS env cur w (.serializeAs y none)
    r.2 = .ok ∧ lookupNat r.1.ids y = some (a.uuid, a.level ++ [a.last + 1]) ∧
    r.1.slots = w.slots ++ [(h, a.last + 1)] ∧ (r.1.acts[h]?).map Act.last = some (a.last + 1) := by
  have hlt := lt_of_getElem?_some ha
  have hr : execS env cur w (.serializeAs y none) =
      ({ (w.nextLevel h).1 with ids := setNat (w.nextLevel h).1.ids y (a.uuid, (w.nextLevel h).2) }, .ok) := by
    simp only [execS, hc, ha]
  intro r
  have hr' : r = _ := hr
  rw [hr', nextLevel_eq ha]
  refine ⟨rfl, lookupNat_setNat_self _ _ _, rfl, ?_⟩
  show Option.map Act.last ((w.acts.set h { a with last := a.last + 1 })[h]?) = _
  rw [List.getElem?_set_self hlt]; rfl

/-- **continue_at_reserved**: in any state satisfying the bookkeeping invariant (every reachable
state does: `Sys.C02.reachable_inv`; it is kept by every program: `Sys.C02.inv_preserved`), let `y`
be an outstanding id `(u, lvl)` — returned by an earlier `serialize_task_id`, arbitrarily much
logging in between.  Then `with Action.continue_task(task_id=y, ..): body`
(1) finds `(u, lvl)` to be a position handed out by an action `q` of task `u` (the origin),
(2) unoccupied so far,
(3) creates the action number `w.acts.length` with exactly `task_uuid = u`, `task_level = lvl`
    (whatever `body` does; by `Sys.C02.message_at_slot` its messages are at `lvl ++ [k]`),
(4) which afterwards is the only action at that place, and (5) keeps the invariant. -/
theorem continue_at_reserved (env : Env) (cur : Option Exc) (w : World) (inv : SInv w) (y : Nat) (sp : Spec)
    (body : Block) (u : Nat) (lvl : Level) (hy : lookupNat w.ids y = some (u, lvl)) :
    let r := execS env cur w (.continueWith y sp body)
    (∃ (q : Nat) (pa : Act) (k : Nat), w.acts[q]? = some pa ∧ u = pa.uuid ∧ lvl = pa.level ++ [k] ∧ (q, k) ∈ w.slots) ∧
    (∀ (h : Nat) (b : Act), w.acts[h]? = some b → actKey b ≠ (u, lvl)) ∧
    (∃ a : Act, r.1.acts[w.acts.length]? = some a ∧ a.uuid = u ∧ a.level = lvl ∧ a.atype = sp.atype) ∧
    (∀ (h : Nat) (b : Act), r.1.acts[h]? = some b → actKey b = (u, lvl) → h = w.acts.length) ∧
    SInv r.1 := by
  intro r
  have hm : (y, (u, lvl)) ∈ w.ids := Sys.C04.lookupNat_mem _ _ _ hy
  have hinv : SInv r.1 := sinv_execS env cur w _ inv
  -- the new action, and that it is kept
  let w1 : World := { w with ids := w.ids.filter (fun e => e.1 != y),
                             acts := w.acts ++ [({ uuid := u, level := lvl, atype := sp.atype, sers := sp.sers } : Act)] }
  have hr : r = withBlock env (w1.startRec env w.acts.length sp.fields) w.acts.length (fun w' => execB env cur w' body) := by
    show execS env cur w (.continueWith y sp body) = _
    simp only [execS, hy]
    rfl
  have hk : Keeps w1 r.1 := by
    rw [hr]
    exact Keeps.trans ((keeps_basic env).toD.startRec w1 _ _)
      (withBlock_lift (keeps_basic env).prim _ _ _ (fun w' => keeps_execB env cur w' body))
  have hnew : w1.acts[w.acts.length]? = some ({ uuid := u, level := lvl, atype := sp.atype, sers := sp.sers } : Act) := by
    show (w.acts ++ [_])[w.acts.length]? = _
    simp
  obtain ⟨a, ha, e1, e2, e3, _⟩ := hk _ _ hnew
  refine ⟨?_, ?_, ⟨a, ha, e1, e2, e3⟩, ?_, hinv⟩
  · obtain ⟨q, pa, k, hq, f1, f2, hs⟩ := inv.handed_slot (inv.idHanded _ hm)
    exact ⟨q, pa, k, hq, f1, f2, hs⟩
  · intro h b hb hkey
    exact inv.idFree _ hm h b hb (congrArg Prod.fst hkey) (congrArg Prod.snd hkey)
  · intro h b hb hkey
    exact hinv.inj h _ b a hb ha ((congrArg Prod.fst hkey).trans e1.symm) ((congrArg Prod.snd hkey).trans e2.symm)

/-! Non-vacuity: `Sys.C02.exProg` serializes two ids inside action `a` (places `[4]`, `[5]`), logs,
starts a child (`[6]`), then continues id 7: the remote action `c` is at exactly `[4]`, its messages
at `[4,1] … [4,3]`; id 8 stays outstanding at the unoccupied place `[5]`. -/
example : let w' := (execB Sys.C04.exEnv none {} Sys.C02.exProg).1
    w'.ids = [(8, (0, [5]))] ∧ w'.acts.map (fun a => (a.uuid, a.level, a.atype)) =
      [(0, [], "a"), (0, [6], "b"), (0, [4], "c"), (1, [], "")] := by decide +kernel
example : (execS Sys.C04.exEnv none ({ acts := [{ uuid := 0, level := [2], last := 3 }], ctx := some 0, nextUuid := 1 } : World)
      (.serializeAs 7 none)).1.ids = [(7, (0, [2, 4]))] := by decide +kernel
def exW : World :=
  { acts := [{ uuid := 0, level := [2], last := 4 }], ids := [(7, (0, [2, 4]))], slots := [(0, 1), (0, 2), (0, 3), (0, 4)], nextUuid := 1 }
def exBody : Block := .cons (.log { mtype := "m" }) .nil
example : SInv exW →
    ∃ a : Act, (execS Sys.C04.exEnv none exW (.continueWith 7 { atype := "eliot:remote_task" } exBody)).1.acts[1]? = some a ∧
      a.uuid = 0 ∧ a.level = [2, 4] := fun inv =>
  let ⟨_, _, ⟨a, h1, h2, h3, _⟩, _, _⟩ := continue_at_reserved Sys.C04.exEnv none exW inv 7 { atype := "eliot:remote_task" }
    exBody 0 [2, 4] (by decide)
  ⟨a, h1, h2, h3⟩
example : ((execS Sys.C04.exEnv none exW (.continueWith 7 { atype := "eliot:remote_task" } exBody)).1.acts.map
    (fun a => (a.uuid, a.level, a.last))) = [(0, [2], 4), (0, [2, 4], 3)] := by decide +kernel

/-! ## 3. merging the separate logs -/
open PM

/-- **remote_subtree_is_child**.  Let `t` be the tree of a whole task (root action `a`), and let
its item at the path of positions `p` be an action sub-tree `r` (action type `a'`): the action
started by `continue_task` from the id reserved at `p` — at any depth, inside any action of the
task.  The origin logs `L₁ = Tree.cutMsgs u t [] p` (everything but that sub-tree), the remote
side logs `L₂ = Tree.msgs u r p` (same uuid, levels extending `p`), to *separate* destinations.
For **any** merge `M` of the two logs — any permutation of `L₁ ++ L₂`: either concatenation,
any interleaving, any shuffle — `parse_stream M` raises nothing and yields exactly one task, which
is complete and is exactly `t`; the node at path `p` of the parsed tree is the remote action with
its start message `(u, p ++ [1], a')`, its end message and all of its children: the remote
action is the child of the originating action at exactly the reserved position, same uuid. -/
theorem remote_subtree_is_child (u : String) (a : String) (sb eb : Nat) (ok : Bool) (kids : Forest)
    (p : List Nat) (a' : String) (sb' eb' : Nat) (ok' : Bool) (kids' : Forest)
    (hsub : Tree.sub (.node a sb eb ok kids) p = some (.node a' sb' eb' ok' kids'))
    (M : List PMsg)
    (hM : M.Perm (Tree.cutMsgs u (.node a sb eb ok kids) [] p ++ Tree.msgs u (.node a' sb' eb' ok' kids') p)) :
    ∃ T, parseStream M = .ok [(u, T)] ∧ T.isComplete = true ∧
      T.root = Tree.view (fun _ => true) u (.node a sb eb ok kids) [] ∧
      T.root.bind (fun n => n.at p) =
        some (.act (some (startMsg u p a' sb')) (some (endMsg u p a' eb' ok' (kids'.len + 2)))
          (Forest.view (fun _ => true) u kids' p 2)) := by
  have hperm : M.Perm (Tree.msgs u (.node a sb eb ok kids) []) := by
    have := Tree.cut_perm u (.node a sb eb ok kids) [] p _ hsub
    rw [List.nil_append] at this
    exact hM.trans this
  have hnd : M.Nodup := hperm.nodup_iff.mpr (Tree.msgs_nodup u _ [])
  obtain ⟨T, h1, h2, h3⟩ := PM.C09.reconstruct u a sb eb ok kids M hperm hnd
  refine ⟨T, h1, h2, h3, ?_⟩
  rw [h3]
  have := Tree.view_at u (.node a sb eb ok kids) [] p _ hsub
  rw [List.nil_append] at this
  exact this.trans (view_all_node u a' sb' eb' ok' kids' p)

/-- **parsed_subtree_at**: whenever a parsed task's root is the full view of `t`, the full view of
every sub-tree of `t` sits at its path (use with `multi_hop` for every hop of a chain). -/
theorem parsed_subtree_at (u : String) (t : Tree) (p : List Nat) (r : Tree) (hsub : Tree.sub t p = some r)
    (T : Task) (hT : T.root = Tree.view (fun _ => true) u t []) :
    T.root.bind (fun n => n.at p) = Tree.view (fun _ => true) u r p := by
  rw [hT]
  have := Tree.view_at u t [] p r hsub
  rwa [List.nil_append] at this

/-- **multi_hop**.  `remote_subtree_is_child` is stated for arbitrary trees, so a remote sub-tree
that itself contains remote sub-trees is an instance; this theorem spells the composition out for
chains of any length: `hops = [p₁, …, pₙ]`, side `i` runs the action at path `p₁ ++ … ++ pᵢ` and
hands the item at relative path `pᵢ₊₁` of it to side `i + 1`; `logs` are the `n + 1` separate
logs (`hopLogs`, by recursion on the hop count).  Any merge of all of them — any permutation of
their concatenation — parses to exactly one complete task, which is `t`.  (Where each hop's
action sits in the parsed tree: `parsed_subtree_at`, with `Tree.sub_append` for the cumulated
path.) -/
theorem multi_hop (u : String) (a : String) (sb eb : Nat) (ok : Bool) (kids : Forest) (hops : List (List Nat))
    (logs : List (List PMsg)) (hlogs : hopLogs u (.node a sb eb ok kids) [] hops = some logs)
    (M : List PMsg) (hM : M.Perm logs.flatten) :
    ∃ T, parseStream M = .ok [(u, T)] ∧ T.isComplete = true ∧
      T.root = Tree.view (fun _ => true) u (.node a sb eb ok kids) [] := by
  have hperm : M.Perm (Tree.msgs u (.node a sb eb ok kids) []) := hM.trans (hopLogs_perm u hops _ _ _ hlogs)
  exact PM.C09.reconstruct u a sb eb ok kids M hperm (hperm.nodup_iff.mpr (Tree.msgs_nodup u _ []))

/-! Non-vacuity: three hops.  Task `t0`: action `a` logs a message, hands its position 3 to side 1
(`b`), logs again; `b` logs, hands its position 3 to side 2 (`c`); `c` hands its position 2 to
side 3 (`d`), which logs one message and fails. -/
def t3 : Tree := .node "d" 6 8 false (.cons (.leaf 7) .nil)
def t2 : Tree := .node "c" 5 9 true (.cons t3 .nil)
def t1 : Tree := .node "b" 3 10 true (.cons (.leaf 4) (.cons t2 .nil))
def t0 : Tree := .node "a" 0 12 true (.cons (.leaf 1) (.cons t1 (.cons (.leaf 11) .nil)))

example : Tree.sub t0 [3] = some t1 ∧ Tree.sub t0 [3, 3] = some t2 ∧ Tree.sub t0 [3, 3, 2] = some t3 := ⟨rfl, rfl, rfl⟩
/-- one hop: the origin's log, the remote log, and a perfect interleave of the two -/
example : Tree.cutMsgs "u" t0 [] [3] = [startMsg "u" [] "a" 0, leafMsg "u" [2] 1, leafMsg "u" [4] 11, endMsg "u" [] "a" 12 true 5] := by
  decide
example : ∃ T, parseStream ((Tree.msgs "u" t1 [3]).reverse ++ (Tree.cutMsgs "u" t0 [] [3]).reverse) = .ok [("u", T)] ∧
    T.isComplete = true ∧ T.root = Tree.view (fun _ => true) "u" t0 [] ∧
    T.root.bind (fun n => n.at [3]) = Tree.view (fun _ => true) "u" t1 [3] := by
  obtain ⟨T, h1, h2, h3, _⟩ := remote_subtree_is_child "u" "a" 0 12 true _ [3] "b" 3 10 true _ (rfl : Tree.sub t0 [3] = some t1)
    ((Tree.msgs "u" t1 [3]).reverse ++ (Tree.cutMsgs "u" t0 [] [3]).reverse)
    (List.perm_append_comm.trans (List.Perm.append (List.reverse_perm _) (List.reverse_perm _)))
  exact ⟨T, h1, h2, h3, parsed_subtree_at "u" t0 [3] t1 rfl T h3⟩
/-- three hops, four separate logs of 4, 3, 2 and 3 messages, merged last-side-first, each reversed -/
example : (hopLogs "u" t0 [] [[3], [3], [2]]).map (·.map List.length) = some [4, 3, 2, 3] := by decide
example : ∃ logs T, hopLogs "u" t0 [] [[3], [3], [2]] = some logs ∧
    parseStream (logs.reverse.flatten.reverse) = .ok [("u", T)] ∧ T.isComplete = true ∧
    T.root.bind (fun n => n.at [3, 3, 2]) = Tree.view (fun _ => true) "u" t3 [3, 3, 2] := by
  cases h : hopLogs "u" t0 [] [[3], [3], [2]] with
  | none => exact absurd h (by decide)
  | some logs =>
    have hp : (logs.reverse.flatten.reverse).Perm logs.flatten :=
      (List.reverse_perm _).trans (List.Perm.flatten (List.reverse_perm logs))
    obtain ⟨T, h1, h2, h3⟩ := multi_hop "u" "a" 0 12 true _ [[3], [3], [2]] logs h _ hp
    exact ⟨logs, T, rfl, h1, h2, parsed_subtree_at "u" t0 [3, 3, 2] t3 rfl T h3⟩

/-! ## 4. `preserve_context` -/

/-- **preserve_passthrough** (model: `Eliot/Model/Preserve.lean`).
(1) With no current action `preserve_context(f)` returns `f` itself, touches nothing, and calling
    the result is calling `f`.
(2) Inside action `h` it serializes a task id (reserving the next position of `h`:
    `serialize_reserves`) and returns the wrapper holding it.
(3) The call of the wrapper that passes the guard — in any later state `w'` in which the id is
    still outstanding, i.e. on any thread at any time — ends exactly as `f` ends when run inside
    `with Action.continue_task(task_id=id):` (current action = the new remote action): same
    outcome, `ok` or `raised e` with the *same* exception `e` (`Sys.C07.exc_identity`); and the
    remote action is the one described by `continue_at_reserved`.
Return *values* are not part of the model (blocks have none); the harness oracle checks that the
value returned is the very object `f` returned. -/
theorem preserve_passthrough (env : Env) (cur : Option Exc) (y : Nat) (f : Block) :
    (∀ w : World, w.ctx = none → preserveContext env cur w y f = (w, some (.fn f))) ∧
    (∀ w' : World, (Callable.fn f).call env cur w' = execB env cur w' f) ∧
    (∀ (w : World) (h : Nat) (a : Act), w.ctx = some h → w.acts[h]? = some a →
      ∃ w1, preserveContext env cur w y f = (w1, some (.restore y f)) ∧
        lookupNat w1.ids y = some (a.uuid, a.level ++ [a.last + 1])) ∧
    (∀ (w' : World) (u : Nat) (lvl : Sys.Level), lookupNat w'.ids y = some (u, lvl) →
      let r := ({ w' with ids := w'.ids.filter (fun e => e.1 != y) } : World).continueTask env u lvl { atype := "eliot:remote_task" }
      ((Callable.restore y f).call env cur w').2 = (execB env cur { r.1 with ctx := some r.2 } f).2 ∧
      r.2 = w'.acts.length) := by
  refine ⟨fun w hc => ?_, fun _ => rfl, fun w h a hc ha => ?_, fun w' u lvl hy => ?_⟩
  · simp only [preserveContext, hc]
  · obtain ⟨h1, h2, _⟩ := serialize_reserves env cur w h a y hc ha
    simp only [preserveContext, hc]
    generalize hr : execS env cur w (.serializeAs y none) = r at h1 h2
    obtain ⟨w1, o⟩ := r
    simp only at h1 h2
    subst h1
    exact ⟨w1, rfl, h2⟩
  · refine ⟨?_, rfl⟩
    simp only [Callable.call, execS, hy]
    exact Sys.C07.exc_identity env _ _ _

/-- no current action: the function itself; inside an action: the outcome of `f` (here: it raises
application exception 3 after logging) passes through the wrapper unchanged, and the remote action
sits at the reserved place `[2]` of the origin (uuid 0). -/
def exF : Block := .cons (.log { mtype := "m" }) (.cons (.raise 3) .nil)
def exW2 : World := { acts := [{ uuid := 0, level := [], last := 1 }], ctx := some 0, nextUuid := 1 }
def isFn : Option Callable → Bool
  | some (.fn _) => true
  | _ => false
def callOpt (w : World) : Option Callable → Option (World × Outcome)
  | some c => some (c.call Sys.C04.exEnv none w)
  | none => none
example : isFn (preserveContext Sys.C04.exEnv none {} 0 exF).2 = true ∧ isFn (preserveContext Sys.C04.exEnv none exW2 0 exF).2 = false := by
  decide +kernel
example : (preserveContext Sys.C04.exEnv none exW2 0 exF).1.ids = [(0, (0, [2]))] ∧
    (callOpt { (preserveContext Sys.C04.exEnv none exW2 0 exF).1 with ctx := none } (preserveContext Sys.C04.exEnv none exW2 0 exF).2).map
      (fun r => (r.2, r.1.acts.map (fun a => (a.uuid, a.level, a.last)))) =
      some (.raised (.user 3), [(0, [], 2), (0, [2], 3)]) := by decide +kernel

end C06
