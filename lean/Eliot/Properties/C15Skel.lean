import Eliot.Generated.InlineCallbacks
/-! Skeleton obligation of C15 kept in a module of its own (regenerated from /repo on every run, compared by
`decide`): a source change that breaks it is attributed to it and does not take the property theorems down. -/
namespace Gen.C15

/-- **E15b**: `eliot.twisted.inline_callbacks(original)` is `inlineCallbacks(eliot_friendly_generator_function(original))`
— the generator handed to Twisted is the decorated one, so what C15 proves about decorated generators is what
`inline_callbacks` functions get ("and hence eliot.twisted.inline_callbacks").  Twisted's `inlineCallbacks`
itself is the driver and is not modelled. -/
theorem skeleton_E15b : Eliot.Generated.inlineCallbacksShape = .friendlyThenInline := by decide

end Gen.C15
