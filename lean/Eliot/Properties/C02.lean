import Eliot.Proofs.SysPlaces
/-!
# C02 — every message is uniquely and contiguously placed by (task_uuid, task_level)

Model: `Eliot/Model/Sys.lean`.  `World.nextLevel` transliterates `Action._nextTaskLevel`; the ghost
field `World.slots` records every position it hands out, as (action handle `h`, position `k`), in
hand-out order.  Whatever consumes the position — a message (`buildLog`, `startRec`, `finishRec`),
a child action (`startAction`), a serialized task id (`serializeAs`) — carries
`task_uuid = acts[h].uuid`, `task_level = acts[h].level ++ [k]` = `slotKey w (h, k)`
(`message_at_slot` for the message case).

Quantifier: every program of the core language (`Block`: any nesting of `with` blocks, explicit
handles, `serialize_task_id`/`continue_task`, handlers, destination (un)registration, global fields),
every environment (failing destinations — whose failure reports consume positions too —,
serializers, extractors), run from the initial state.  `.continueWith y` consumes the id `y`
(each serialized id is continued at most once: the property's own precondition).
The invariant behind the first five theorems is `Sys.SInv` (`Eliot/Proofs/SysSlots.lean`); it is preserved
from *any* state satisfying it (`inv_preserved`).

Run level (`offered_places_unique`, `offered_at_handed_out_places`, `buffered_at_handed_out_places`;
`Eliot/Proofs/SysPlaces.lean`): the ghost fields `lastSlot` / `offeredAt` / `bufferAt` / `pendingAt` of the
model record, for every destination call and every buffered message, the position the message was
built for; the theorems say that what destinations are actually offered (`World.offered`, the
observation log of the model) are dicts whose `task_uuid` / `task_level` fields are the place of a
handed-out position, pairwise different per destination.  Listed hypotheses:
* `p.placeOk`: no serializer declared in the program and no `add_global_fields` names `task_uuid` or
  `task_level` (for serializers `_MessageSerializer.__init__` enforces it — `RESERVED_FIELDS`; a
  global field of that name would overwrite the place of every message: `message.update(globals)`);
* `dupAdd = false` (uniqueness only): no `Destinations.add` leaves a destination registered twice
  (`dupAdd` is a ghost flag of the model, `hasDup` of the destination list at each `add`) — a
  destination registered twice is called twice with each message.
-/
namespace Sys.C02
open Sys

/-- the invariant is kept by every program from every state satisfying it, under every handled exception -/
theorem inv_preserved (env : Env) (cur : Option Exc) (w : World) (p : Block) (h : SInv w) : SInv (execB env cur w p).1 :=
  sinv_execB env cur w p h

/-- **reachable_inv**: every state reached by a program satisfies the bookkeeping invariant. -/
theorem reachable_inv (env : Env) (p : Block) : SInv (execB env none {} p).1 :=
  sinv_execB env none {} p SInv.init

/-- **positions_contiguous**: the positions handed out by an action are `1, 2, …, last`, in this
order: they start at 1, have no gaps and no repeats, and hand-out order is increasing order.
(Second part: no slot is recorded twice; third: a slot of `h` exists iff its position is in `1..last`.) -/
theorem positions_contiguous (env : Env) (p : Block) :
    let w' := (execB env none {} p).1
    (∀ (h : Nat) (a : Act), w'.acts[h]? = some a →
      (w'.slots.filter (fun s => s.1 == h)).map (·.2) = List.range' 1 a.last) ∧
    w'.slots.Nodup ∧
    (∀ (h : Nat) (a : Act), w'.acts[h]? = some a → ∀ k, (h, k) ∈ w'.slots ↔ 1 ≤ k ∧ k ≤ a.last) := by
  intro w'
  have inv : SInv w' := reachable_inv env p
  exact ⟨inv.contig, inv.slots_nodup, fun h a ha k => inv.mem_slots_iff ha k⟩

/-- **levels_unique**: every handed-out position denotes a place `(task_uuid, task_level)` (its
handle is a live action: `filterMap` drops nothing), and no two handed-out positions denote the same
place. -/
theorem levels_unique (env : Env) (p : Block) :
    let w' := (execB env none {} p).1
    (∀ s ∈ w'.slots, ∃ a : Act, w'.acts[s.1]? = some a ∧ slotKey w' s = some (a.uuid, a.level ++ [s.2])) ∧
    (w'.slots.filterMap (slotKey w')).length = w'.slots.length ∧
    (w'.slots.filterMap (slotKey w')).Nodup := by
  intro w'
  have inv : SInv w' := reachable_inv env p
  exact ⟨inv.slotKey_some, inv.slotKeys_length, inv.slotKeys_nodup⟩

/-- **actions_unique**: no two actions are at the same place (in particular roots have pairwise
different uuids). -/
theorem actions_unique (env : Env) (p : Block) :
    let w' := (execB env none {} p).1
    ∀ (h₁ h₂ : Nat) (a₁ a₂ : Act), w'.acts[h₁]? = some a₁ → w'.acts[h₂]? = some a₂ → actKey a₁ = actKey a₂ → h₁ = h₂ := by
  intro w' h₁ h₂ a₁ a₂ g1 g2 e
  exact (reachable_inv env p).inj h₁ h₂ a₁ a₂ g1 g2 (congrArg Prod.fst e) (congrArg Prod.snd e)

/-- **child_extends_parent**: an action is a root (`task_level = []`) or its level extends the level
of *another* action of the same task by one position that this action handed out. -/
theorem child_extends_parent (env : Env) (p : Block) :
    let w' := (execB env none {} p).1
    ∀ (h : Nat) (a : Act), w'.acts[h]? = some a → a.level = [] ∨
      ∃ (q : Nat) (pa : Act) (k : Nat), w'.acts[q]? = some pa ∧ q ≠ h ∧ a.uuid = pa.uuid ∧ a.level = pa.level ++ [k] ∧
        (q, k) ∈ w'.slots ∧ slotKey w' (q, k) = some (actKey a) := by
  intro w' h a ha
  have inv : SInv w' := reachable_inv env p
  refine (inv.own h a ha).imp id (fun hh => ?_)
  obtain ⟨q, pa, k, hq, e1, e2, hs⟩ := inv.handed_slot hh
  refine ⟨q, pa, k, hq, fun e => ?_, e1, e2, hs, ?_⟩
  · subst e
    rw [hq] at ha; cases ha
    have := congrArg List.length e2
    simp at this
  · unfold slotKey actKey
    rw [hq, e1, e2]; rfl

/-- **reserved_position_unique** (for C06): every outstanding serialized task id denotes a
handed-out position that no action occupies and that no other outstanding id denotes. -/
theorem reserved_position_unique (env : Env) (p : Block) :
    let w' := (execB env none {} p).1
    ∀ e ∈ w'.ids,
      (∃ (q : Nat) (pa : Act) (k : Nat), w'.acts[q]? = some pa ∧ e.2 = (pa.uuid, pa.level ++ [k]) ∧ (q, k) ∈ w'.slots) ∧
      (∀ (h : Nat) (b : Act), w'.acts[h]? = some b → actKey b ≠ e.2) ∧
      (∀ e' ∈ w'.ids, e'.2 = e.2 → e'.1 = e.1) := by
  intro w' e he
  have inv : SInv w' := reachable_inv env p
  refine ⟨?_, fun h b hb hk => ?_, fun e' he' hk => inv.idInj e' he' e he hk⟩
  · obtain ⟨q, pa, k, hq, e1, e2, hs⟩ := inv.handed_slot (inv.idHanded e he)
    exact ⟨q, pa, k, hq, Prod.ext e1 e2, hs⟩
  · exact inv.idFree e he h b hb (congrArg Prod.fst hk) (congrArg Prod.snd hk)

/-- **message_at_slot**: the dict built by `Action.log` carries exactly the place of the slot that
this very call records: `task_uuid` of the action, `task_level` = its level extended by the new
position `last + 1`. -/
theorem message_at_slot (w : World) (h : Nat) (a : Act) (t : String) (f : Fields) (ha : w.acts[h]? = some a) :
    let r := w.buildLog h t f
    r.1.slots = w.slots ++ [(h, a.last + 1)] ∧
    r.2.get? "task_uuid" = some (.uuid a.uuid) ∧ r.2.get? "task_level" = some (.lvl (a.level ++ [a.last + 1])) ∧
    slotKey r.1 (h, a.last + 1) = some (a.uuid, a.level ++ [a.last + 1]) := by
  have hc : w.clock.1.acts[h]? = some a := ha
  have hlt := lt_of_getElem?_some ha
  simp only [World.buildLog, nextLevel_eq hc]
  refine ⟨rfl, ?_, ?_, ?_⟩
  · rw [C04.Fields.get?_set_ne _ _ _ _ (by decide), C04.Fields.get?_set_ne _ _ _ _ (by decide), C04.Fields.get?_set_self, hc]
    rfl
  · rw [C04.Fields.get?_set_ne _ _ _ _ (by decide), C04.Fields.get?_set_self]
  · show Option.map _ ((w.acts.set h { a with last := a.last + 1 })[h]?) = _
    rw [List.getElem?_set_self hlt]; rfl

/-! ## Non-vacuity
Destination 0 fails on its 2nd call, so a failure report consumes position `[3]` of action `a`;
two task ids are serialized (`[4]`, `[5]`), one of them is continued; a child is created at `[6]`;
the last message is context-less (its own task, uuid 1). -/
def exProg : Block :=
  .cons (.addDests [0, 1]) <|
  .cons (.withAction false { atype := "a" }
    (.cons (.log { mtype := "m" })
    (.cons (.serializeAs 7 none)
    (.cons (.serializeAs 8 none)
    (.cons (.withAction false { atype := "b" } (.cons (.log { mtype := "m" }) .nil))
    (.cons (.continueWith 7 { atype := "c" } (.cons (.log { mtype := "m" }) .nil))
    (.cons (.log { mtype := "m" }) .nil))))))) <|
  .cons (.log { mtype := "m" }) .nil

/-- reachable_inv / positions_contiguous: four actions with 8, 3, 3, 1 positions -/
example : let w' := (execB Sys.C04.exEnv none {} exProg).1
    w'.slots = [(0, 1), (0, 2), (0, 3), (0, 4), (0, 5), (0, 6), (1, 1), (1, 2), (1, 3), (2, 1), (2, 2), (2, 3),
      (0, 7), (0, 8), (3, 1)] ∧
    w'.acts.map (fun a => (a.uuid, a.level, a.last)) = [(0, [], 8), (0, [6], 3), (0, [4], 3), (1, [], 1)] ∧
    (w'.slots.filter (fun s => s.1 == 0)).map (·.2) = List.range' 1 8 := by decide +kernel

/-- levels_unique: fifteen handed-out positions, fifteen different places -/
example : let w' := (execB Sys.C04.exEnv none {} exProg).1
    w'.slots.filterMap (slotKey w') =
      [(0, [1]), (0, [2]), (0, [3]), (0, [4]), (0, [5]), (0, [6]), (0, [6, 1]), (0, [6, 2]), (0, [6, 3]),
       (0, [4, 1]), (0, [4, 2]), (0, [4, 3]), (0, [7]), (0, [8]), (1, [1])] := by decide +kernel

/-- actions_unique / child_extends_parent: the child `b` sits at slot (0,6), the continued action `c` at slot (0,4) -/
example : let w' := (execB Sys.C04.exEnv none {} exProg).1
    w'.acts.map actKey = [(0, []), (0, [6]), (0, [4]), (1, [])] ∧
    slotKey w' (0, 6) = some (0, [6]) ∧ slotKey w' (0, 4) = some (0, [4]) := by decide +kernel

/-- reserved_position_unique: id 7 was consumed, id 8 is outstanding at the unoccupied slot (0,5) -/
example : let w' := (execB Sys.C04.exEnv none {} exProg).1
    w'.ids = [(8, (0, [5]))] ∧ (0, 5) ∈ w'.slots ∧ (0, [5]) ∉ w'.acts.map actKey := by decide +kernel

/-- message_at_slot: the message logged in action `a` (last = 1 after its start message) is at `[2]` -/
example : let w : World := { acts := [{ uuid := 0, level := [], last := 1 }], nextUuid := 1 }
    ((w.buildLog 0 "m" []).2.get? "task_level" = some (.lvl [2])) ∧ (w.buildLog 0 "m" []).1.slots = [(0, 2)] := by
  decide +kernel

/-! ## Run level: what destinations are offered -/

/-- **offered_places_unique**: no two messages offered to a destination during a run claim the same
`(task_uuid, task_level)` — for every program whose serializers / global fields leave the two keys
alone, every environment (failing destinations, their failure reports, failing serializers and
extractors, buffering before the first `add_destinations` and the re-delivery of the buffer, remote
continuations), provided no destination is ever registered twice. -/
theorem offered_places_unique (env : Env) (p : Block) (hp : p.placeOk = true)
    (hd : (execB env none {} p).1.dupAdd = false) :
    ∀ d, ((offeredTo (execB env none {} p).1 d).map place).Nodup := by
  obtain ⟨h1, h2⟩ := places_execB env p hp
  exact offered_places_nodup h1 h2 hd

/-- **offered_at_handed_out_places**: every message offered to any destination carries the uuid of
an action of the run and a level that is this action's level extended by a position this action
handed out — the place `slotKey` of a recorded slot. -/
theorem offered_at_handed_out_places (env : Env) (p : Block) (hp : p.placeOk = true) :
    let w' := (execB env none {} p).1
    ∀ d m, (d, m) ∈ w'.offered → ∃ s ∈ w'.slots, ∃ a : Act, w'.acts[s.1]? = some a ∧
      m.get? "task_uuid" = some (.uuid a.uuid) ∧ m.get? "task_level" = some (.lvl (a.level ++ [s.2])) ∧
      slotKey w' s = some (a.uuid, a.level ++ [s.2]) := by
  intro w' d m hm
  obtain ⟨h1, h2⟩ := places_execB env p hp
  obtain ⟨s, hs, a, ha, hu, hl⟩ := offered_at_slot h1 h2 d m hm
  exact ⟨s, hs, a, ha, hu, hl, by unfold slotKey; rw [ha]; rfl⟩

/-- the same for messages still waiting in the buffer at the end of the run -/
theorem buffered_at_handed_out_places (env : Env) (p : Block) (hp : p.placeOk = true) :
    let w' := (execB env none {} p).1
    ∀ m ∈ w'.buffer, ∃ s ∈ w'.slots, ∃ a : Act, w'.acts[s.1]? = some a ∧
      m.get? "task_uuid" = some (.uuid a.uuid) ∧ m.get? "task_level" = some (.lvl (a.level ++ [s.2])) := by
  intro w' m hm
  obtain ⟨h1, h2⟩ := places_execB env p hp
  obtain ⟨s, hs, a, ha, hu, hl⟩ := buffered_at_slot h1 h2 m hm
  exact ⟨s, hs, a, ha, hu, hl⟩

/-! ### Non-vacuity
Two messages and an action are logged (and buffered) before any destination exists;
`add_destinations(0, 1)` re-delivers them — destination 0 fails on its 2nd call, which produces a
failure report in a task of its own (uuid 2) —; then an action with a typed start serializer, a
message whose serializer fails (`missing` is not a field: its position `[2]` is handed out but
nothing is offered for it; a traceback `[3]` and `eliot:serialization_failure` `[4]` are), a
serialized task id (`[5]`) continued remotely (`[5,1]`, `[5,2]`, `[5,3]`), the end message `[6]`. -/
def exRun : Block :=
  .cons (.log { mtype := "early" }) <|
  .cons (.withAction false { atype := "a" } (.cons (.log { mtype := "m" }) .nil)) <|
  .cons (.addDests [0, 1]) <|
  .cons (.withAction false { atype := "b", sers := some ([("x", 0)], []), fields := [("x", .nat 1)] }
    (.cons (.log { mtype := "bad", sers := some [("missing", 0)] })
    (.cons (.serializeAs 7 none)
    (.cons (.continueWith 7 { atype := "c" } (.cons (.log { mtype := "m" }) .nil))
    .nil)))) .nil

/-- the hypotheses hold; both destinations are offered the same twelve messages at twelve different places -/
example : let w' := (execB Sys.C04.exEnv none {} exRun).1
    exRun.placeOk = true ∧ w'.dupAdd = false ∧
    (offeredTo w' 0).map place = (offeredTo w' 1).map place ∧
    (offeredTo w' 1).map place =
      [(some (.uuid 0), some (.lvl [1])), (some (.uuid 1), some (.lvl [1])), (some (.uuid 2), some (.lvl [1])),
       (some (.uuid 1), some (.lvl [2])), (some (.uuid 1), some (.lvl [3])), (some (.uuid 3), some (.lvl [1])),
       (some (.uuid 3), some (.lvl [3])), (some (.uuid 3), some (.lvl [4])), (some (.uuid 3), some (.lvl [5, 1])),
       (some (.uuid 3), some (.lvl [5, 2])), (some (.uuid 3), some (.lvl [5, 3])), (some (.uuid 3), some (.lvl [6]))] ∧
    (offeredTo w' 1).map (fun m => m.get? "message_type") =
      [some (.str "early"), none, some (.str "eliot:destination_failure"), some (.str "m"), none, none,
       some (.str "eliot:traceback"), some (.str "eliot:serialization_failure"), none, some (.str "m"), none, none] := by
  decide +kernel

/-- … each at the slot recorded for it (fourteen positions were handed out: `(3,2)` — the message whose
serializer failed — and `(3,5)` — the task id — are never offered) -/
example : let w' := (execB Sys.C04.exEnv none {} exRun).1
    w'.slots = [(0, 1), (1, 1), (1, 2), (1, 3), (2, 1), (3, 1), (3, 2), (3, 3), (3, 4), (3, 5), (4, 1), (4, 2), (4, 3), (3, 6)] ∧
    (w'.offeredAt.filter (fun x => x.1 == 1)).map (fun x => x.2.2) =
      [some (0, 1), some (1, 1), some (2, 1), some (1, 2), some (1, 3), some (3, 1), some (3, 3), some (3, 4),
       some (4, 1), some (4, 2), some (4, 3), some (3, 6)] := by
  decide +kernel

/-- buffered_at_handed_out_places: without destinations the messages wait in the buffer, at their places -/
example : let w' := (execB Sys.C04.exEnv none {} (.cons (.log { mtype := "early" }) (.cons (.log { mtype := "m" }) .nil))).1
    w'.buffer.map place = [(some (.uuid 0), some (.lvl [1])), (some (.uuid 1), some (.lvl [1]))] ∧
    w'.slots = [(0, 1), (1, 1)] := by
  decide +kernel

/-- the hypotheses are needed: a global field named `task_level` makes every message claim the same
place, and a destination registered twice is offered every message twice -/
example :
    ¬ ((offeredTo (execB Sys.C04.exEnv none {} (.cons (.addDests [1]) (.cons (.addGlobals [("task_level", .nat 0)])
        (.cons (.withAction false { atype := "a" } (.cons (.log { mtype := "m" }) .nil)) .nil)))).1 1).map place).Nodup ∧
    ¬ ((offeredTo (execB Sys.C04.exEnv none {} (.cons (.addDests [1, 1]) (.cons (.log { mtype := "m" }) .nil))).1 1).map
        place).Nodup ∧
    (execB Sys.C04.exEnv none {} (.cons (.addDests [1, 1]) (.cons (.log { mtype := "m" }) .nil))).1.dupAdd = true := by
  decide +kernel

end Sys.C02
