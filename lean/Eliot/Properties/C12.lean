import Eliot.Properties.C13
import Eliot.Proofs.SysBasic
/-!
# C12 — startup buffering and (un)registration lose and duplicate no message (sequential part)

Model: `World.deliver` (buffer branch = `BufferingDestination.__call__`: append, trim to 1000),
`World.addDests` (= `Destinations.add`: the first call swaps the buffer out and re-sends its
contents through `send`; later calls only extend the list), `removeDest`, `addGlobals`, and the
merge of global fields at the top of `send`.

Quantifier: every program / history of the core language and every environment.  The concurrent
clause ("no message logged by any thread is lost across the hand-over") is decided by the
scheduled model in `Eliot/Conc/Handover.lean` (see DESIGN.md, C12).
-/
namespace Sys.C12
open Sys Sys.C04 Sys.C08 Sys.C13

/-! ### the bounded buffer keeps the most recent 1000, in order -/
theorem trim1000_le (l : List Msg) : (trim1000 l).length ≤ 1000 := by
  simp only [trim1000, List.length_drop]; omega

theorem trim1000_of_le (l : List Msg) (h : l.length ≤ 1000) : trim1000 l = l := by
  simp only [trim1000]
  have : l.length - 1000 = 0 := by omega
  rw [this]; rfl

/-- the retained messages are a suffix (the most recent ones, in order) of what was buffered -/
theorem trim1000_suffix (l : List Msg) : trim1000 l <:+ l := List.drop_suffix _ _

theorem trim1000_length (l : List Msg) : (trim1000 l).length = min l.length 1000 := by
  simp only [trim1000, List.length_drop]; omega

theorem lastN_lastN {α} (n : Nat) (a y : List α) :
    ((a.drop (a.length - n)) ++ y).drop (((a.drop (a.length - n)) ++ y).length - n) = (a ++ y).drop ((a ++ y).length - n) := by
  by_cases h : a.length ≤ n
  · have : a.length - n = 0 := by omega
    simp [this]
  · generalize hs : a.drop (a.length - n) = s
    generalize ht : a.take (a.length - n) = t
    have hls : s.length = n := by rw [← hs, List.length_drop]; omega
    have ha : a = t ++ s := by rw [← hs, ← ht]; simp
    rw [ha]
    have e1 : (s ++ y).length - n = y.length := by simp only [List.length_append]; omega
    have e2 : (t ++ s ++ y).length - n = t.length + y.length := by simp only [List.length_append]; omega
    rw [e1, e2, List.append_assoc]
    have : (t ++ (s ++ y)).drop (t.length + y.length) = (s ++ y).drop y.length := by
      rw [List.drop_append, List.drop_eq_nil_of_le (by omega), Nat.add_sub_cancel_left]
      rfl
    rw [this]

theorem trim1000_trim (a y : List Msg) : trim1000 (trim1000 a ++ y) = trim1000 (a ++ y) := lastN_lastN 1000 a y

attribute [local irreducible] trim1000

/-- The buffering phase, as a relation between states: nothing is offered to anybody and the
buffer holds the most recent 1000 of everything that reached the output stage. -/
def BufPhase (w w' : World) : Prop :=
  w.anyAdded = false → w.buffer.length ≤ 1000 →
    w'.anyAdded = false ∧ w'.buffer.length ≤ 1000 ∧ w.stage <+: w'.stage ∧ w'.offered = w.offered ∧
      w'.buffer = trim1000 (w.buffer ++ newStage w w')

theorem BufPhase.same {w w' : World} (h1 : w'.anyAdded = w.anyAdded) (h2 : w'.buffer = w.buffer) (h3 : w'.stage = w.stage)
    (h4 : w'.offered = w.offered) : BufPhase w w' := by
  intro ha hb
  refine ⟨h1.trans ha, h2 ▸ hb, by rw [h3]; exact List.prefix_refl _, h4, ?_⟩
  simp [newStage, h3, h2, trim1000_of_le _ hb]

theorem bufPhase_basic (env : Env) : BasicD env BufPhase where
  refl := fun w => BufPhase.same rfl rfl rfl rfl
  trans := fun {a b c} h1 h2 ha hb => by
    obtain ⟨a1, b1, s1, o1, e1⟩ := h1 ha hb
    obtain ⟨a2, b2, s2, o2, e2⟩ := h2 a1 b1
    refine ⟨a2, b2, s1.trans s2, o2.trans o1, ?_⟩
    rw [e2, e1, trim1000_trim, newStage_trans s1 s2, List.append_assoc]
  deliver := fun w m ha hb => by
    unfold World.deliver
    simp only
    split
    · rename_i h; rw [ha] at h; cases h
    · refine ⟨ha, ?_, ?_, ?_, ?_⟩
      · show (trim1000 (w.buffer ++ [Fields.update m w.globals])).length ≤ 1000
        exact trim1000_le _
      · show w.stage <+: w.stage ++ [Fields.update m w.globals]
        exact List.prefix_append _ _
      · show w.offered = w.offered
        rfl
      · show trim1000 (w.buffer ++ [Fields.update m w.globals]) =
          trim1000 (w.buffer ++ List.drop w.stage.length (w.stage ++ [Fields.update m w.globals]))
        rw [List.drop_left' rfl]
  clock := fun w => BufPhase.same rfl rfl rfl rfl
  nextLevel := fun w h => by
    have q := quiet_nextLevel w h
    exact BufPhase.same q.frame.anyAdded q.buffer q.stage q.offered
  freshAction := fun w t s => BufPhase.same rfl rfl rfl rfl
  extCalls := fun w => BufPhase.same rfl rfl rfl rfl
  serCalls := fun w => BufPhase.same rfl rfl rfl rfl
  setFinished := fun w h a _ => BufPhase.same rfl rfl rfl rfl
  appendChild := fun w p pa t s _ => by
    have q := quiet_nextLevel w p
    exact BufPhase.same q.frame.anyAdded q.buffer q.stage q.offered
  appendRemote := fun w y u lvl t s _ => BufPhase.same rfl rfl rfl rfl
  setCtx := fun w c => BufPhase.same rfl rfl rfl rfl
  setVars := fun w v => BufPhase.same rfl rfl rfl rfl
  reserve := fun w h a y _ => by
    have q := quiet_nextLevel w h
    exact BufPhase.same q.frame.anyAdded q.buffer q.stage q.offered
  probe := fun w p => BufPhase.same rfl rfl rfl rfl
  succ := fun w h a fs _ => BufPhase.same rfl rfl rfl rfl

/-- **buffered_until_first_add**: before the first `add_destinations`, whatever the program logs
(any program without (un)registration / global-field statements), nothing is offered to anybody and
the buffer holds exactly the most recent 1000 of the messages that reached the output stage, in
order. -/
theorem buffered_until_first_add (env : Env) (p : Block) (hp : p.noCfg = true) :
    let w' := (execB env none {} p).1
    w'.anyAdded = false ∧ w'.offered = [] ∧ w'.buffer = trim1000 w'.stage ∧ w'.buffer <:+ w'.stage ∧
      w'.buffer.length = min w'.stage.length 1000 := by
  intro w'
  obtain ⟨h1, _, _, h4, h5⟩ := execB_lift (bufPhase_basic env).prim none {} p (Or.inl hp) rfl (by simp)
  have h5' : w'.buffer = trim1000 w'.stage := by simpa [newStage] using h5
  exact ⟨h1, h4, h5', h5' ▸ trim1000_suffix _, h5' ▸ trim1000_length _⟩

/-! ### the first `add_destinations` hands the buffer over, later ones do not -/
/-- the state in which the first `add_destinations(*ds)` starts re-delivering the buffer -/
abbrev startW (w : World) (ds : List Nat) : World :=
  { w with anyAdded := true, dests := ds, buffer := [], pendingAt := w.bufferAt, bufferAt := [], dupAdd := w.dupAdd || hasDup ds }

theorem fan_foldSend (env : Env) (buf : List Msg) (w : World) :
    Fan env w (buf.foldl (fun acc m => acc.popPending.send env m) w) := by
  induction buf generalizing w with
  | nil => exact Fan.refl env w
  | cons m ms ih => exact ((Fan.ofSame rfl rfl rfl rfl rfl : Fan env w w.popPending).trans (fan_send env w.popPending m)).trans (ih _)

theorem foldSend_healthy_stage (env : Env) (hh : ∀ d k, env.destFails d k = none) (buf : List Msg) (w : World) :
    (buf.foldl (fun acc m => acc.popPending.send env m) w).stage = w.stage ++ buf.map (fun m => Fields.update m w.globals) := by
  induction buf generalizing w with
  | nil => simp
  | cons m ms ih =>
    simp only [List.foldl_cons, List.map_cons]
    rw [ih, send_healthy_stage env hh, (frame_send env w.popPending m).globals]
    simp [World.popPending]

/-- once destinations were added the buffer is never touched again -/
def KeepBuf (w w' : World) : Prop := w.anyAdded = true → w'.anyAdded = true ∧ w'.buffer = w.buffer

theorem fanOut_buffer (env : Env) (m : Msg) (ds : List Nat) (w : World) : (World.fanOut env w m ds).1.buffer = w.buffer := by
  induction ds generalizing w with
  | nil => rfl
  | cons d ds ih =>
    simp only [World.fanOut]
    rw [ih]
    unfold World.callDest
    simp only
    split <;> rfl

theorem keepBuf_basic (env : Env) : BasicD env KeepBuf where
  refl := fun w h => ⟨h, rfl⟩
  trans := fun {a b c} h1 h2 ha => ⟨(h2 (h1 ha).1).1, (h2 (h1 ha).1).2.trans (h1 ha).2⟩
  deliver := fun w m ha => by
    unfold World.deliver
    simp only
    split
    · exact ⟨(frame_fanOut env _ _ _).anyAdded.trans ha, fanOut_buffer env _ _ _⟩
    · rename_i h; exact absurd ha h
  clock := fun w h => ⟨h, rfl⟩
  nextLevel := fun w h ha => by
    have q := quiet_nextLevel w h
    exact ⟨q.frame.anyAdded.trans ha, q.buffer⟩
  freshAction := fun w t s h => ⟨h, rfl⟩
  extCalls := fun w h => ⟨h, rfl⟩
  serCalls := fun w h => ⟨h, rfl⟩
  setFinished := fun w h a _ ha => ⟨ha, rfl⟩
  appendChild := fun w p pa t s _ ha => by
    have q := quiet_nextLevel w p
    exact ⟨q.frame.anyAdded.trans ha, q.buffer⟩
  appendRemote := fun w y u lvl t s _ ha => ⟨ha, rfl⟩
  setCtx := fun w c h => ⟨h, rfl⟩
  setVars := fun w v h => ⟨h, rfl⟩
  reserve := fun w h a y _ ha => by
    have q := quiet_nextLevel w h
    exact ⟨q.frame.anyAdded.trans ha, q.buffer⟩
  probe := fun w p h => ⟨h, rfl⟩
  succ := fun w h a fs _ ha => ⟨ha, rfl⟩

theorem keepBuf_foldSend (env : Env) (buf : List Msg) (w : World) :
    KeepBuf w (buf.foldl (fun acc m => acc.popPending.send env m) w) := by
  induction buf generalizing w with
  | nil => exact (keepBuf_basic env).refl w
  | cons m ms ih =>
    exact (keepBuf_basic env).trans ((keepBuf_basic env).trans (fun h => ⟨h, rfl⟩ : KeepBuf w w.popPending) ((keepBuf_basic env).send _ m)) (ih _)

/-- **first_add_delivers_buffer**: the first `add_destinations(*ds)` offers to each of its
destinations, exactly once and in order, exactly what is re-sent (the buffered messages, each merged
with the global fields current *now*, plus the failure reports they cause), and offers nothing to
any other destination; afterwards the buffer is gone for good (`anyAdded`). -/
theorem first_add_delivers_buffer (env : Env) (w : World) (ds : List Nat) (hn : ds.Nodup) (ha : w.anyAdded = false) :
    let w' := w.addDests env ds
    w'.anyAdded = true ∧ w'.dests = ds ∧ w'.buffer = [] ∧
    (∀ d ∈ ds, offeredTo w' d = offeredTo w d ++ newStage w w') ∧
    (∀ d, d ∉ ds → offeredTo w' d = offeredTo w d) ∧
    ((∀ d k, env.destFails d k = none) → newStage w w' = w.buffer.map (fun m => Fields.update m w.globals)) := by
  intro w'
  have e : w' = w.buffer.foldl (fun acc m => acc.popPending.send env m) (startW w ds) := by
    simp only [w', World.addDests, ha, Bool.false_eq_true, ↓reduceIte, startW]
  have g := fan_foldSend env w.buffer (startW w ds)
  have kb := keepBuf_foldSend env w.buffer (startW w ds) rfl
  rw [e]
  refine ⟨g.anyAdded, g.dests, kb.2, ?_, ?_, ?_⟩
  · intro d hd
    have := g.off rfl hn d hd
    simpa [offeredTo, newStage, startW] using this
  · intro d hd
    have := g.other d hd
    simpa [offeredTo, startW] using this
  · intro hh
    have := foldSend_healthy_stage env hh w.buffer (startW w ds)
    simp [newStage, this, startW]

/-- **later_add_gets_nothing_old**: destinations added after the first call are only appended to
the list: nothing is re-sent to them (or to anybody). -/
theorem later_add_gets_nothing_old (env : Env) (w : World) (ds : List Nat) (ha : w.anyAdded = true) :
    (w.addDests env ds).offered = w.offered ∧ (w.addDests env ds).stage = w.stage ∧
    (w.addDests env ds).dests = w.dests ++ ds := by
  simp [World.addDests, ha]

/-- **removed_gets_nothing**: a destination that is not (or no longer) registered is offered nothing,
whatever the program goes on to log. -/
theorem removed_gets_nothing (env : Env) (cur : Option Exc) (w : World) (p : Block) (hp : p.noCfg = true)
    (hw : WInv w) (d : Nat) (hd : d ∉ w.dests) :
    offeredTo (execB env cur w p).1 d = offeredTo w d :=
  (execB_lift (Sys.C08.prim env) cur w p (Or.inl hp) hw).1.other d hd

theorem erase_not_mem_of_nodup (l : List Nat) (hn : l.Nodup) (d : Nat) : d ∉ l.erase d := by
  intro h
  exact (List.Nodup.mem_erase_iff hn).mp h |>.1 rfl

/-- …in particular after `remove_destination(d)` (destinations registered once each). -/
theorem after_remove (env : Env) (w : World) (d : Nat) (hn : w.dests.Nodup) (hd : d ∈ w.dests) :
    (execS env none w (.removeDest d)).1.dests = w.dests.erase d ∧ d ∉ (execS env none w (.removeDest d)).1.dests := by
  have e : (execS env none w (.removeDest d)).1 = { w with dests := w.dests.erase d } := by
    simp only [execS, hd, ↓reduceIte]
  rw [e]
  exact ⟨rfl, erase_not_mem_of_nodup _ hn d⟩

/-! ### global fields are merged at delivery time -/
def KeysNodup (f : Fields) : Prop := (f.map (·.1)).Nodup

theorem keys_set (d : Fields) (k : String) (v : FV) :
    (Fields.set d k v).map (·.1) = if k ∈ d.map (·.1) then d.map (·.1) else d.map (·.1) ++ [k] := by
  induction d with
  | nil => simp [Fields.set]
  | cons x xs ih =>
    obtain ⟨k', v'⟩ := x
    simp only [Fields.set]
    split
    · rename_i h; subst h; simp
    · rename_i h
      simp only [List.map_cons, ih, List.mem_cons]
      have : ¬ k = k' := fun e => h e.symm
      simp only [this, false_or]
      split <;> simp

theorem KeysNodup.set {d : Fields} (h : KeysNodup d) (k : String) (v : FV) : KeysNodup (Fields.set d k v) := by
  unfold KeysNodup at *
  rw [keys_set]
  split
  · exact h
  · rename_i hk
    exact List.nodup_append.mpr ⟨h, by simp, fun a ha b hb => by
      simp only [List.mem_singleton] at hb; subst hb; intro e; subst e; exact hk ha⟩

theorem KeysNodup.update {d : Fields} (h : KeysNodup d) (e : Fields) : KeysNodup (Fields.update d e) := by
  unfold Fields.update
  induction e generalizing d with
  | nil => exact h
  | cons x xs ih => exact ih (h.set _ _)

theorem get?_of_mem_nodup (f : Fields) (hn : KeysNodup f) (k : String) (v : FV) (h : (k, v) ∈ f) : f.get? k = some v := by
  induction f with
  | nil => cases h
  | cons x xs ih =>
    obtain ⟨k', v'⟩ := x
    simp only [KeysNodup, List.map_cons, List.nodup_cons] at hn
    simp only [Fields.get?]
    rcases List.mem_cons.mp h with h | h
    · cases h; simp
    · have : k' ≠ k := fun e => hn.1 (e ▸ List.mem_map.mpr ⟨(k, v), h, rfl⟩)
      simp only [this, ↓reduceIte]
      exact ih hn.2 h

theorem update_get?_of_mem (d e : Fields) (hn : KeysNodup e) (k : String) (v : FV) (h : (k, v) ∈ e) :
    (Fields.update d e).get? k = some v := by
  unfold Fields.update
  induction e generalizing d with
  | nil => cases h
  | cons x xs ih =>
    obtain ⟨k', v'⟩ := x
    simp only [KeysNodup, List.map_cons, List.nodup_cons] at hn
    simp only [List.foldl_cons]
    rcases List.mem_cons.mp h with h | h
    · cases h
      have hk : Fields.get? xs k = none := by
        cases hx : Fields.get? xs k with
        | none => rfl
        | some v2 =>
          exfalso
          have : k ∈ xs.map (·.1) := by
            clear ih hn h
            induction xs with
            | nil => simp [Fields.get?] at hx
            | cons y ys ihy =>
              obtain ⟨k2, v3⟩ := y
              simp only [Fields.get?] at hx
              split at hx
              · rename_i e; subst e; simp
              · simp only [List.map_cons, List.mem_cons]; exact Or.inr (ihy hx)
          exact hn.1 this
      have := Fields.get?_update_none (Fields.set d k v) xs k hk
      unfold Fields.update at this
      rw [this, Fields.get?_set_self]
    · exact ih _ hn.2 h

/-- the global fields form a dict (distinct keys) in every reachable state -/
def GlobOK (w w' : World) : Prop := KeysNodup w.globals → KeysNodup w'.globals

theorem globOK_basic (env : Env) : Basic env GlobOK where
  refl := fun _ h => h
  trans := fun h1 h2 h => h2 (h1 h)
  callDest := fun w d m h => by rw [(frame_callDest env w d m).globals]; exact h
  stagePush := fun _ _ h => h
  bufferSet := fun _ _ h => h
  ghostSlot := fun _ _ _ h => h
  clock := fun _ h => h
  nextLevel := fun w p h => by rw [(frame_nextLevel w p).globals]; exact h
  freshAction := fun _ _ _ h => h
  extCalls := fun _ h => h
  serCalls := fun _ h => h
  setFinished := fun _ _ _ _ h => h
  appendChild := fun w p _ _ _ _ h => by
    show KeysNodup (w.nextLevel p).1.globals
    rw [(frame_nextLevel w p).globals]; exact h
  appendRemote := fun _ _ _ _ _ _ _ h => h
  setCtx := fun _ _ h => h
  setVars := fun _ _ h => h
  reserve := fun w p _ _ _ h => by
    show KeysNodup (w.nextLevel p).1.globals
    rw [(frame_nextLevel w p).globals]; exact h
  probe := fun _ _ h => h
  succ := fun _ _ _ _ _ h => h

theorem globOK_cfg (env : Env) : BasicCfg env GlobOK where
  startDelivery := fun _ _ h => h
  extendDests := fun _ _ h => h
  popPending := fun _ h => h
  removeDest := fun _ _ h => h
  addGlobals := fun _ fs h => h.update fs

theorem globals_are_dict (env : Env) (p : Block) : KeysNodup (execB env none {} p).1.globals :=
  execB_lift (globOK_basic env).prim none {} p (Or.inr ((globOK_basic env).primCfg (globOK_cfg env))) (by simp [KeysNodup])

/-- **globals_at_delivery**: the dict that reaches the destinations is the message merged with
*all* global fields set so far (global values win), for every message and every state reachable
by any program. -/
theorem globals_at_delivery (env : Env) (p : Block) (m : Msg) :
    let w := (execB env none {} p).1
    ∃ m', (w.deliver env m).1.stage = w.stage ++ [m'] ∧ ∀ k v, (k, v) ∈ w.globals → m'.get? k = some v := by
  intro w
  refine ⟨Fields.update m w.globals, deliver_stage env w m, fun k v h => ?_⟩
  exact update_get?_of_mem m w.globals (globals_are_dict env p) k v h

/-! ## Non-vacuity: 3 messages buffered, global field added, then two destinations, one more message -/
def exProg1 : Block :=
  .cons (.log { mtype := "a" }) (.cons (.log { mtype := "b" }) (.cons (.log { mtype := "c" }) .nil))
example : exProg1.noCfg = true ∧ (execB Sys.C13.exEnv none {} exProg1).1.buffer.length = 3 := by decide +kernel
example : let w := (execB Sys.C13.exEnv none {} exProg1).1
    let w' := (execB Sys.C13.exEnv none w (.cons (.addGlobals [("g", .nat 1)]) (.cons (.addDests [0, 1]) (.cons (.log { mtype := "d" }) .nil)))).1
    (offeredTo w' 0).map (·.get? "message_type") = [some (.str "a"), some (.str "b"), some (.str "c"), some (.str "d")] ∧
    (offeredTo w' 1).map (·.get? "g") = [some (.nat 1), some (.nat 1), some (.nat 1), some (.nat 1)] ∧ w'.buffer = [] := by
  decide +kernel

end Sys.C12
