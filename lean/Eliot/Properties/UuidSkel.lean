import Eliot.Generated.UuidSource
/-! Skeleton obligation shared by C02 and C04 (regenerated from /repo's source on every run, `decide`d):
the models number tasks with a counter (`World.nextUuid`), which stands for "a new task gets an
identifier no other task has".  That is what `uuid.uuid4()` provides (trusted); the obligation pins
down that every place in `_action.py` that creates the root action of a new task takes its
identifier from exactly `str(uuid4())`, with `uuid4` the standard library's and never rebound, and
that no other randomness source is imported there. -/
namespace Sys.UuidSkel
open Eliot.Generated

theorem skeleton_E11_task_uuids_are_uuid4 :
    uuidSource.uuid4FromStdlib = true ∧ uuidSource.rootSites = uuidSource.freshSites ∧ 0 < uuidSource.rootSites ∧
    uuidSource.otherUuidImports = 0 := by decide

end Sys.UuidSkel
