import Eliot.Proofs.TestingSpec
import Eliot.Properties.C09
/-!
# C17 — test helpers reconstruct the same action tree as the parser

Model: `Eliot/Model/Testing.lean` (`fromMessages`, `ofType`, `descendants`, `typeTree`, `lmOfType`,
`issuperset`, `containsFields`, `assertHasAction`, `assertHasMessage`): transliterations of
`eliot/testing.py` as list scans over the captured `MemoryLogger.messages`.

Quantifier: every specification `ts : Spec` (any number of tasks; every tree shape: any depth,
repeated types, equal-typed siblings and descendants, failed actions; nested actions stand for remote
sub-tasks too; one-message tasks) and every message list `msgs` that is an **interleaving** of the
tasks' message lists keeping each task's own emission order (`Interleaving`: per uuid, the sub-list of
`msgs` is exactly `tmsgs u t`; every message belongs to some task).  The concatenation `ts.msgs` is
one such interleaving (`interleaving_concat`); the theorems are proved for all of them.

`toLogged u t lvl` is the `LoggedAction` of a spec (sub-)tree: its own start and end message, and
exactly its direct children, recursively, in emission (= level) order.  `nodeLogged?` forgets the trie
keys of a parser node; `parser_builds_same` says the parser's root for every task is `toLogged` of the
task's tree, so the entries of `of_type` (sub-trees of those, `preorderActions`) are sub-trees of what
the parser builds from the same messages.

The assert-helper and `LoggedMessage.of_type` theorems hold for *every* message list.

Extension (`PInterleaving`, `of_type_any_order`): when one logger sees a remote continuation after
later siblings of the reserved position, a task's messages are no longer in level order.  For every
per-task *permutation* the entries are still one per started action, in emission order of the start
messages, each with its own start/end message and exactly its direct children, now ordered by
emission (`toLoggedIn`), i.e. the parser's tree up to the order of children (`Sim`).
-/
namespace PM.C17
open PM PM.Testing

/-! ### the concrete instance used by the non-vacuity examples
Three tasks interleaved in one logger: `u` (an action `a` that succeeds, with a message, a *failed*
same-typed child action `a` at `[3]` — containing a message and a grand-child `b` — and another
message), `v` (an action `b` with a child `a`; same levels as in `u`), `w` (a one-message task). -/
def A2 : Tree := .node "b" 4 5 true .nil
def A1 : Tree := .node "a" 2 6 false (.cons (.leaf 3) (.cons A2 .nil))
def A0 : Tree := .node "a" 0 8 true (.cons (.leaf 1) (.cons A1 (.cons (.leaf 7) .nil)))
def B1 : Tree := .node "a" 11 12 true .nil
def B0 : Tree := .node "b" 10 13 true (.cons B1 .nil)
def exSpec : Spec := [("u", A0), ("v", B0), ("w", .leaf 20)]
def exMsgs : List PMsg :=
  [startMsg "u" [] "a" 0, leafMsg "u" [2] 1, startMsg "v" [] "b" 10, startMsg "u" [3] "a" 2,
   leafMsg "u" [3,2] 3, leafMsg "w" [1] 20, startMsg "v" [2] "a" 11, startMsg "u" [3,3] "b" 4,
   endMsg "u" [3,3] "b" 5 true 2, endMsg "v" [2] "a" 12 true 2, endMsg "u" [3] "a" 6 false 4,
   leafMsg "u" [4] 7, endMsg "v" [] "b" 13 true 3, endMsg "u" [] "a" 8 true 5]
def exInfo : Nat → Info
  | 0 => { fields := [("action_type", "a"), ("x", "1"), ("y", "2")] }
  | 8 => { fields := [("action_type", "a"), ("r", "ok")] }
  | 2 => { fields := [("action_type", "a"), ("x", "9")] }
  | 1 => { mtype := some "m1", fields := [("message_type", "m1"), ("k", "5")] }
  | 3 => { mtype := some "m2", fields := [("message_type", "m2")] }
  | 7 => { mtype := some "m1", fields := [("message_type", "m1"), ("k", "6")] }
  | 20 => { mtype := some "m2", fields := [("message_type", "m2"), ("k", "5")] }
  | _ => {}
theorem exInfo_dicts : ∀ b, ((exInfo b).fields.map (·.1)).Nodup := by
  intro b; unfold exInfo; split <;> decide
/-- a wide action: child number 0 is an action at `[2]`, child number 19 a message at `[21]` -/
def leaves : Nat → Nat → Forest
  | 0, _ => .nil
  | n+1, b => .cons (.leaf b) (leaves n (b+1))
def wide : Tree := .node "a" 0 100 true (.cons (.node "a" 1 2 true .nil) (leaves 19 3))

example : Interleaving exMsgs exSpec ∧ exSpec.WF ∧ exMsgs ≠ exSpec.msgs :=
  ⟨⟨by decide, by decide⟩, by simp [Spec.WF, exSpec], by decide⟩

/-- **of_type_eq_parser_subtrees** (every interleaving).  `of_type` raises nothing and returns:
one entry per started message of the type, in emission order (`first` of the i-th entry is the i-th
such message of `msgs`); every entry is a `LoggedAction`; and for every task the entries of that task
are exactly `toLogged` of the task's actions of that type in pre-order — each exposing its own start
and end message, its success flag, and exactly its direct child messages and child actions
(recursively) in emission order, by definition of `toLogged`. -/
theorem of_type_eq_parser_subtrees {msgs : List PMsg} {ts : Spec} (hI : Interleaving msgs ts) (ty : String) :
    ∃ as, ofType msgs ty = .ok as ∧
      as.map LItem.first = msgs.filter (isStartOf ty) ∧
      (∀ a ∈ as, a.isAct = true) ∧
      (∀ e ∈ ts, as.filter (fun a => a.first.uuid == e.1) =
          (preorderActions e.1 e.2).filter (LItem.hasType ty)) := by
  obtain ⟨hok, hpt, htask⟩ := ofType_core hI ty
  have hstart : ∀ m ∈ msgs.filter (isStartOf ty), m ∈ msgs ∧ isStart m = true := by
    intro m hm
    obtain ⟨h1, h2⟩ := List.mem_filter.mp hm
    simp only [isStartOf, Bool.and_eq_true] at h2
    exact ⟨h1, h2.2⟩
  refine ⟨_, hok, ?_, ?_, ?_⟩
  · rw [List.map_map]
    conv => rhs; rw [← List.map_id (msgs.filter (isStartOf ty))]
    apply List.map_congr_left
    intro m hm
    exact (hpt m (hstart m hm).1 (hstart m hm).2).1
  · intro a ha
    obtain ⟨m, hm, rfl⟩ := List.mem_map.mp ha
    exact (hpt m (hstart m hm).1 (hstart m hm).2).2.1
  · intro e he
    rw [List.filter_map, ← htask e he, ← hI.order e he, List.filter_filter, List.filter_filter]
    congr 1
    apply List.filter_congr
    intro m hm
    by_cases hs : isStartOf ty m = true
    · have hs' : isStart m = true := by
        simp only [isStartOf, Bool.and_eq_true] at hs; exact hs.2
      simp [Function.comp, (hpt m hm hs').1, hs]
    · simp [Function.comp, hs]

/- non-vacuity: nested, a same-typed descendant (`A1` inside `A0`), a failed action, three tasks
interleaved; entries in emission order of their start messages (bodies 0, 2, 11), not mixing the
equal levels of `u` and `v`. -/
example : ofType exMsgs "a" = .ok [toLogged "u" A0 [], toLogged "u" A1 [3], toLogged "v" B1 [2]] := by rfl
example : ofType exMsgs "b" = .ok [toLogged "v" B0 [], toLogged "u" A2 [3, 3]] := by rfl
example : (exMsgs.filter (isStartOf "a")).map (·.body) = [0, 2, 11] := by decide
example : (preorderActions "u" A0).filter (LItem.hasType "a") = [toLogged "u" A0 [], toLogged "u" A1 [3]] := by rfl
example : toLogged "u" A1 [3] = .act (startMsg "u" [3] "a" 2) (endMsg "u" [3] "a" 6 false 4)
    [.msg (leafMsg "u" [3, 2] 3), .act (startMsg "u" [3, 3] "b" 4) (endMsg "u" [3, 3] "b" 5 true 2) []] := by rfl
example : (toLogged "u" A1 [3]).succeeded? = some false ∧ (toLogged "u" A0 []).succeeded? = some true := by decide
/- level lists, not their renderings: the child action at `[2]` does not pick up the message at `[21]` -/
example : fromMessages "t" [2, 1] (Tree.msgs "t" wide []) =
    .ok (.act (startMsg "t" [2] "a" 1) (endMsg "t" [2] "a" 2 true 2) []) := by rfl
/- the error branches exist: an unfinished action / a level that starts nothing -/
example : ofType exMsgs.dropLast "a" = .error .missingEnd := by rfl
/- … and it is the whole call that fails (KNOWN_FINDINGS.jsonl, C17): `exMsgs.dropLast` lacks only the end of `A0`;
the finished actions `A1` and `B1` of the same type are not returned, while a type none of whose actions
has an unfinished action in its sub-tree is unaffected. -/
example : ofType exMsgs.dropLast "b" = .ok [toLogged "v" B0 [], toLogged "u" A2 [3, 3]] := by rfl
example : fromMessages "u" [2, 1] exMsgs = .error .missingStart := by rfl

/-- the concatenation of the tasks' message lists is an interleaving -/
theorem interleaving_concat {ts : Spec} (hwf : ts.WF) : Interleaving ts.msgs ts := by
  refine ⟨?_, ?_⟩
  · intro m hm
    obtain ⟨u, t, he, hm'⟩ := Spec.mem_msgs hm
    exact ⟨(u, t), he, tmsgs_uuid u t m hm'⟩
  · induction ts with
    | nil => intro e he; cases he
    | cons e0 es ih =>
      intro e he
      simp only [Spec.WF, List.map_cons, List.nodup_cons, List.mem_map, not_exists, not_and] at hwf
      simp only [Spec.msgs, List.flatMap_cons, List.filter_append]
      rcases List.mem_cons.mp he with h | h
      · subst h
        rw [filter_all, filter_none]
        · simp
        · intro m hm
          obtain ⟨u', t', he', hm'⟩ := Spec.mem_msgs hm
          have := tmsgs_uuid u' t' m hm'
          apply beq_false_of_ne
          intro heq
          exact hwf.1 (u', t') he' (by rw [← this, heq])
        · intro m hm
          simp [tmsgs_uuid e.1 e.2 m hm]
      · rw [filter_none]
        · have := ih hwf.2 e h
          simpa [Spec.msgs] using this
        · intro m hm
          apply beq_false_of_ne
          intro heq
          exact hwf.1 e h (by rw [← heq, tmsgs_uuid e0.1 e0.2 m hm])

/-- **of_type_eq_parser_subtrees**, concatenated tasks (the form of DESIGN.md): the result is the
list of all spec actions of the type, in pre-order, as `LoggedAction`s. -/
theorem of_type_concat {ts : Spec} (hwf : ts.WF) (ty : String) :
    ofType ts.msgs ty = .ok (ts.flatMap fun e => (preorderActions e.1 e.2).filter (LItem.hasType ty)) := by
  obtain ⟨hok, _, htask⟩ := ofType_core (interleaving_concat hwf) ty
  rw [hok]
  congr 1
  have : ∀ (l : Spec), (∀ e ∈ l, e ∈ ts) →
      ((l.flatMap fun e => tmsgs e.1 e.2).filter (isStartOf ty)).map (actOf ts.msgs) =
        l.flatMap fun e => (preorderActions e.1 e.2).filter (LItem.hasType ty) := by
    intro l
    induction l with
    | nil => intro _; rfl
    | cons e es ih =>
      intro hsub
      simp only [List.flatMap_cons, List.filter_append, List.map_append]
      rw [htask e (hsub e List.mem_cons_self), ih (fun x hx => hsub x (List.mem_cons_of_mem _ hx))]
  exact this ts (fun _ h => h)

example : ofType exSpec.msgs "a" = .ok [toLogged "u" A0 [], toLogged "u" A1 [3], toLogged "v" B1 [2]] := by rfl

/-- **the same tree the parser builds**: fed the same message list, `parse_stream` raises nothing and
yields every task complete; forgetting the trie keys (`nodeLogged?`: same start message, same end
message, children in key = level order), the root node of task `(u, t)` is `rootLogged u t`, whose
action sub-trees in pre-order are `preorderActions u t` (`preorderActions_eq`) — the entries
`of_type` returns (`of_type_eq_parser_subtrees`). -/
theorem parser_builds_same {msgs : List PMsg} {ts : Spec} (hwf : ts.WF) (hI : PInterleaving msgs ts) :
    ∃ out, parseStream msgs = .ok out ∧
      ∀ e ∈ ts, ∃ T n, (e.1, T) ∈ out ∧ T.isComplete = true ∧ T.root = some n ∧
        nodeLogged? n = some (rootLogged e.1 e.2) := by
  have hin : ∀ m ∈ msgs, m ∈ ts.msgs := by
    intro m hm
    obtain ⟨e, he, _, hmem⟩ := hI.mem_tmsgs hm
    exact List.mem_flatMap.mpr ⟨e, he, hmem⟩
  have hnd : msgs.Nodup := by
    apply nodup_of_filters
    intro m hm
    obtain ⟨e, he, hu⟩ := hI.cover m hm
    rw [hu]
    exact (hI.perm e he).nodup_iff.mpr (tmsgs_nodup e.1 e.2)
  obtain ⟨d, p, _, hparse, hok, _, _⟩ := C09.feed_ok hwf msgs hnd hin
  refine ⟨_, hparse, ?_⟩
  intro e he
  obtain ⟨u, t⟩ := e
  have hall : allArrived (C09.arrived msgs) u t := by
    intro m hm
    simp only [C09.arrived, List.contains_iff_mem]
    exact (List.mem_filter.mp ((hI.perm _ he).mem_iff.mpr hm)).1
  have hsome : someArrived (C09.arrived msgs) u t := by
    cases t with
    | leaf b => exact ⟨leafMsg u [1] b, by simp [tmsgs], hall _ (by simp [tmsgs])⟩
    | node a sb eb ok kids =>
      exact ⟨startMsg u [] a sb, by simp [tmsgs, Tree.msgs], hall _ (by simp [tmsgs, Tree.msgs])⟩
  obtain ⟨T, hT⟩ := hok.compl u t he hsome
  obtain ⟨t', ht', _, hI', hc⟩ := hok.sound u T hT
  have := hwf.unique he ht'; subst this
  cases t with
  | leaf b =>
    exact ⟨T, .msg (leafMsg u [1] b), hT, hc.mpr hall, hI'.1, by simp [nodeLogged?, rootLogged]⟩
  | node a sb eb ok kids =>
    have hI'' : TaskOK (C09.arrived msgs) u (.node a sb eb ok kids) T := hI'
    obtain ⟨n, hn, hl⟩ := view_logged u (.node a sb eb ok kids) []
    refine ⟨T, n, hT, hc.mpr hall, ?_, hl⟩
    rw [hI''.root, ← hn]
    exact Tree.view_congr _ _ u _ [] (fun m hm => hall m hm)

example : (parseStream exMsgs).toOption.map (·.map fun e => (e.1, e.2.isComplete, e.2.root.bind nodeLogged?)) =
    some [("w", true, some (rootLogged "w" (.leaf 20))), ("v", true, some (rootLogged "v" B0)),
          ("u", true, some (rootLogged "u" A0))] := by rfl

/-- one task alone, through `PM.C09.reconstruct`: the messages of task `u` inside any interleaving,
in the order they have there, parse to exactly the tree whose `LoggedAction` is what the helpers
return for the task's root action. -/
theorem parser_task_same {msgs : List PMsg} {ts : Spec} (hI : Interleaving msgs ts) {u : String}
    {a : String} {sb eb : Nat} {ok : Bool} {kids : Forest} (he : (u, Tree.node a sb eb ok kids) ∈ ts) :
    ∃ T n, parseStream (msgs.filter fun m => m.uuid == u) = .ok [(u, T)] ∧ T.isComplete = true ∧
      T.root = some n ∧ nodeLogged? n = (fromMessages u [1] msgs).toOption := by
  have horder := hI.order _ he
  simp only [tmsgs] at horder
  obtain ⟨T, hp, hc, hr⟩ := C09.reconstruct u a sb eb ok kids (msgs.filter fun m => m.uuid == u)
    (by rw [horder]) (by rw [horder]; exact tree_nodup u _ [])
  obtain ⟨n, hn, hl⟩ := view_logged u (.node a sb eb ok kids) []
  refine ⟨T, n, hp, hc, by rw [hr, hn], ?_⟩
  have := fromMessages_node (hI.root he)
  simp only [List.nil_append] at this
  rw [hl, this]; rfl

example : (parseStream (exMsgs.filter fun m => m.uuid == "u")).toOption.map
      (·.map fun e => (e.1, e.2.root.bind nodeLogged?)) = some [("u", (fromMessages "u" [1] exMsgs).toOption)] := by rfl

/-! ## any arrival order inside a task (delayed remote continuations) -/

/-- **of_type_any_order**: with every task's messages in any order, `of_type` raises nothing and
returns one entry per started message of the type, in emission order; the entry for start message `m`
is `toLoggedIn msgs` of the spec sub-action `(t', lvl)` of some task `(u, t)` that `m` starts: its own
start and end message and exactly its direct children, each once, ordered by emission, recursively —
the parser's sub-tree `toLogged u t' lvl` up to the order of children (`Sim`). -/
theorem of_type_any_order {msgs : List PMsg} {ts : Spec} (hI : PInterleaving msgs ts) (ty : String) :
    ∃ as, ofType msgs ty = .ok as ∧
      as.map LItem.first = msgs.filter (isStartOf ty) ∧
      ∀ x ∈ as, ∃ u t lvl a sb eb ok kids, (u, t) ∈ ts ∧
        (Tree.node a sb eb ok kids, lvl) ∈ pre t [] ∧ a = ty ∧
        x = toLoggedIn msgs u (.node a sb eb ok kids) lvl ∧
        x.first = startMsg u lvl a sb ∧
        x.children.Perm (toLoggedInF msgs u kids lvl 2) ∧
        Sim x (toLogged u (.node a sb eb ok kids) lvl) := by
  have hstarted : ∀ m ∈ msgs, m.status = some "started" →
      ∃ u t lvl a sb eb ok kids, (u, t) ∈ ts ∧ (Tree.node a sb eb ok kids, lvl) ∈ pre t [] ∧
        PCtx msgs u (.node a sb eb ok kids) lvl ∧ m = startMsg u lvl a sb := by
    intro m hm hst
    obtain ⟨⟨u, t⟩, he, _, hmem⟩ := hI.mem_tmsgs hm
    cases t with
    | leaf b =>
      simp only [tmsgs, List.mem_cons, List.not_mem_nil, or_false] at hmem
      subst hmem; simp [leafMsg] at hst
    | node a sb eb ok kids =>
      obtain ⟨lvl', a', sb', eb', ok', kids', h1, h2, h3⟩ :=
        started_in_tree_any u _ msgs [] (hI.root he) m hmem hst
      exact ⟨u, _, lvl', a', sb', eb', ok', kids', he, h3, h1, h2⟩
  have hok : ofType msgs ty = .ok ((msgs.filter (isStartOf ty)).map (actOf msgs)) := by
    apply ofTypeGo_ok
    · intro m hm hs
      have hst : m.status = some "started" := by
        simp only [isStartOf, Bool.and_eq_true, beq_iff_eq] at hs; exact hs.2
      obtain ⟨u, t, lvl, a, sb, eb, ok, kids, _, _, hctx, rfl⟩ := hstarted m hm hst
      exact ⟨_, fromMessages_node_any hctx⟩
    · intro m hm hty
      obtain ⟨⟨u, t⟩, _, _, hmem⟩ := hI.mem_tmsgs hm
      have hsh : m.Shaped u := by
        cases t with
        | leaf b =>
          simp only [tmsgs, List.mem_cons, List.not_mem_nil, or_false] at hmem
          subst hmem; simp [PMsg.Shaped, leafMsg]
        | node a sb eb ok kids => exact Tree.msgs_shape u _ [] m hmem
      rcases hsh.2 with h | h
      · rw [hty] at h; cases h
      · intro hn; rw [hn] at h; simp at h
  have hfacts : ∀ m ∈ msgs.filter (isStartOf ty), ∃ u t lvl a sb eb ok kids, (u, t) ∈ ts ∧
      (Tree.node a sb eb ok kids, lvl) ∈ pre t [] ∧ a = ty ∧ PCtx msgs u (.node a sb eb ok kids) lvl ∧
      m = startMsg u lvl a sb := by
    intro m hm
    obtain ⟨h1, h2⟩ := List.mem_filter.mp hm
    simp only [isStartOf, Bool.and_eq_true, beq_iff_eq] at h2
    obtain ⟨u, t, lvl, a, sb, eb, ok, kids, he, hpre, hctx, rfl⟩ := hstarted m h1 h2.2
    refine ⟨u, t, lvl, a, sb, eb, ok, kids, he, hpre, ?_, hctx, rfl⟩
    have := h2.1; simp only [startMsg, Option.some.injEq] at this; exact this
  refine ⟨_, hok, ?_, ?_⟩
  · rw [List.map_map]
    conv => rhs; rw [← List.map_id (msgs.filter (isStartOf ty))]
    apply List.map_congr_left
    intro m hm
    obtain ⟨u, t, lvl, a, sb, eb, ok, kids, _, _, _, hctx, rfl⟩ := hfacts m hm
    simp [actOf_node_any hctx, toLoggedIn, LItem.first]
  · intro x hx
    obtain ⟨m, hm, rfl⟩ := List.mem_map.mp hx
    obtain ⟨u, t, lvl, a, sb, eb, ok, kids, he, hpre, hty, hctx, rfl⟩ := hfacts m hm
    refine ⟨u, t, lvl, a, sb, eb, ok, kids, he, hpre, hty, actOf_node_any hctx, ?_, ?_, ?_⟩
    · simp [actOf_node_any hctx, toLoggedIn, LItem.first]
    · rw [actOf_node_any hctx]; exact children_perm hctx
    · rw [actOf_node_any hctx]; exact sim_tree msgs u _ lvl hctx

/- non-vacuity: the remote continuation at `[3]` of task `u` arrives after its later sibling `[4]` and
even after the end `[5]` of its parent; the child action is listed after the message at `[4]`, while
the parser's tree (`toLogged`) has it before. -/
def exLate : List PMsg :=
  [startMsg "u" [] "a" 0, leafMsg "u" [2] 1, startMsg "v" [] "b" 10, leafMsg "w" [1] 20, startMsg "v" [2] "a" 11,
   endMsg "v" [2] "a" 12 true 2, leafMsg "u" [4] 7, endMsg "v" [] "b" 13 true 3, endMsg "u" [] "a" 8 true 5,
   startMsg "u" [3] "a" 2, leafMsg "u" [3,2] 3, startMsg "u" [3,3] "b" 4, endMsg "u" [3,3] "b" 5 true 2,
   endMsg "u" [3] "a" 6 false 4]
example : PInterleaving exLate exSpec ∧ ¬ Interleaving exLate exSpec :=
  ⟨⟨by decide, by decide⟩, fun h => absurd (h.order ("u", A0) (by simp [exSpec])) (by decide)⟩
example : ofType exLate "a" = .ok [toLoggedIn exLate "u" A0 [], toLoggedIn exLate "v" B1 [2], toLoggedIn exLate "u" A1 [3]] := by rfl
example : (toLoggedIn exLate "u" A0 []).children = [.msg (leafMsg "u" [2] 1), .msg (leafMsg "u" [4] 7), toLogged "u" A1 [3]] ∧
    (toLogged "u" A0 []).children = [.msg (leafMsg "u" [2] 1), toLogged "u" A1 [3], .msg (leafMsg "u" [4] 7)] :=
  ⟨by rfl, by rfl⟩
/- the parser, fed the late order, still builds the level-ordered trees (`parser_builds_same` holds for `PInterleaving`) -/
example : (parseStream exLate).toOption.map (·.map fun e => (e.1, e.2.isComplete, e.2.root.bind nodeLogged?)) =
    some [("w", true, some (rootLogged "w" (.leaf 20))), ("v", true, some (rootLogged "v" B0)),
          ("u", true, some (rootLogged "u" A0))] := by rfl

/-- **descendants_preorder**: `descendants()` of the `LoggedAction` of any spec (sub-)tree is the
pre-order enumeration of its proper sub-trees (children left to right, each followed by its own
descendants), and the first messages of the descendants (own message / start message) are the tree's
messages without its own start and without end messages, in emission order. -/
theorem descendants_preorder (u : String) (t : Tree) (lvl : Level) :
    (toLogged u t lvl).descendants = ((pre t lvl).tail).map (toLoggedP u) ∧
    ((toLogged u t lvl).descendants).map LItem.first =
      ((Tree.msgs u t lvl).filter (fun m => !isCompleted m.status)).tail := by
  have h1 := congrArg List.tail (self_desc_eq_pre u t lvl)
  simp only [List.tail_cons, ← List.map_tail] at h1
  refine ⟨h1, ?_⟩
  rw [h1, List.map_map, ← pre_first u t lvl, ← List.map_tail]
  rfl

example : ((toLogged "u" A0 []).descendants).map (·.first.body) = [1, 2, 3, 4, 7] := by decide
example : (toLogged "u" A0 []).descendants =
    [.msg (leafMsg "u" [2] 1), toLogged "u" A1 [3], .msg (leafMsg "u" [3, 2] 3), toLogged "u" A2 [3, 3],
     .msg (leafMsg "u" [4] 7)] := by rfl

/-- **type_tree_preorder**: `type_tree()` of the `LoggedAction` of a spec tree is the spec tree with
every action replaced by its `action_type` and every message by its `message_type` (raising
`KeyError` exactly when some child message has no `message_type`), children in the same order; its
labels, parents first, are the types of the tree's pre-order enumeration. -/
theorem type_tree_preorder (info : Nat → Info) (u : String) (t : Tree) (lvl : Level) :
    typeTree info (toLogged u t lvl) = typeTreeS info t ∧
    ∀ tt, typeTree info (toLogged u t lvl) = .ok tt →
      tt.labels.map some = (pre t lvl).map (fun p => typeOf info p.1) := by
  refine ⟨typeTree_toLogged info u t lvl, fun tt h => ?_⟩
  rw [typeTree_toLogged] at h
  exact typeTreeS_labels info t lvl tt h

example : typeTree exInfo (toLogged "u" A0 []) =
    .ok (.node "a" [.leaf "m1", .node "a" [.leaf "m2", .node "b" []], .leaf "m1"]) := by rfl
example : (TT.node "a" [.leaf "m1", .node "a" [.leaf "m2", .node "b" []], .leaf "m1"]).labels =
    ["a", "m1", "a", "m2", "b", "m1"] := by decide

/-- **logged_message_of_type** (every message list): exactly the messages whose `message_type` is
`ty`, in order, as `LoggedMessage`s. -/
theorem logged_message_of_type (info : Nat → Info) (ty : String) (msgs : List PMsg) :
    lmOfType info ty msgs = (msgs.filter fun m => (info m.body).mtype == some ty).map LItem.msg := by
  induction msgs with
  | nil => rfl
  | cons m ms ih =>
    cases h : (info m.body).mtype == some ty <;> simp [lmOfType, h, ih]

example : lmOfType exInfo "m1" exMsgs = [.msg (leafMsg "u" [2] 1), .msg (leafMsg "u" [4] 7)] := by rfl

/-- **assert_has_action_iff** (every message list, every table of dictionaries): `assertHasAction`
returns `a` iff `of_type` returns a non-empty list whose *first* entry is `a`, `a.succeeded` is the
expected flag, and `a`'s start / end message have a superset of the expected start / end fields. -/
theorem assert_has_action_iff (info : Nat → Info) (hinfo : ∀ b, ((info b).fields.map (·.1)).Nodup)
    (msgs : List PMsg) (ty : String) (succeeded : Bool) (startFields endFields : Fields) (a : LItem) :
    assertHasAction info msgs ty succeeded startFields endFields = .ok a ↔
      ∃ s e ch rest, a = .act s e ch ∧ ofType msgs ty = .ok (.act s e ch :: rest) ∧
        (e.status == some "succeeded") = succeeded ∧
        issuperset (info s.body).fields startFields = true ∧
        issuperset (info e.body).fields endFields = true := by
  unfold assertHasAction
  cases hof : ofType msgs ty with
  | error err => simp
  | ok as =>
    cases as with
    | nil => simp
    | cons x rest =>
      cases x with
      | msg m =>
        have := ofTypeGo_isAct msgs ty msgs _ hof (.msg m) (by simp)
        simp [LItem.isAct] at this
      | act s e ch =>
        simp only [containsFields_eq_issuperset _ _ (hinfo _)]
        constructor
        · intro h
          split at h
          · simp at h
          · split at h
            · simp at h
            · split at h
              · simp at h
              · rename_i h1 h2 h3
                simp only [Except.ok.injEq] at h
                exact ⟨s, e, ch, rest, h.symm, rfl, by simpa using h1, by simpa using h2, by simpa using h3⟩
        · rintro ⟨s', e', ch', rest', rfl, heq, h1, h2, h3⟩
          simp only [Except.ok.injEq, List.cons.injEq, LItem.act.injEq] at heq
          obtain ⟨⟨rfl, rfl, rfl⟩, rfl⟩ := heq
          simp [h1, h2, h3]

/- the first entry of type `a` is `A0` (x = 1, succeeded); the second one (`A1`: x = 9, failed) is
never consulted -/
example : assertHasAction exInfo exMsgs "a" true [("x", "1")] [("r", "ok")] = .ok (toLogged "u" A0 []) := by rfl
example : assertHasAction exInfo exMsgs "a" false [] [] = .error .wrongStatus := by rfl
example : assertHasAction exInfo exMsgs "a" true [("x", "9")] [] = .error .startFields := by rfl
example : assertHasAction exInfo exMsgs "a" true [("x", "1"), ("z", "0")] [] = .error .startFields := by rfl
example : assertHasAction exInfo exMsgs "a" true [] [("r", "no")] = .error .endFields := by rfl
example : assertHasAction exInfo exMsgs "zz" true [] [] = .error .noneOfType := by rfl

/-- **assert_has_message_iff** (every message list): `assertHasMessage` returns `a` iff `a` is the
*first* message of the type and it has a superset of the expected fields. -/
theorem assert_has_message_iff (info : Nat → Info) (hinfo : ∀ b, ((info b).fields.map (·.1)).Nodup)
    (msgs : List PMsg) (ty : String) (fields : Fields) (a : LItem) :
    assertHasMessage info msgs ty fields = .ok a ↔
      ∃ m, a = .msg m ∧ (msgs.filter fun m => (info m.body).mtype == some ty).head? = some m ∧
        issuperset (info m.body).fields fields = true := by
  unfold assertHasMessage
  rw [logged_message_of_type]
  cases hf : msgs.filter (fun m => (info m.body).mtype == some ty) with
  | nil => simp
  | cons m rest =>
    simp only [List.map_cons, containsFields_eq_issuperset _ _ (hinfo _), List.head?_cons,
      Option.some.injEq]
    cases h : issuperset (info m.body).fields fields
    · simp only [Bool.not_false, ↓reduceIte, reduceCtorEq, false_iff, not_exists, not_and]
      rintro m' _ rfl h'; rw [h] at h'; cases h'
    · simp only [Bool.not_true, Bool.false_eq_true, ↓reduceIte, Except.ok.injEq]
      constructor
      · intro e; exact ⟨m, e.symm, rfl, h⟩
      · rintro ⟨m', rfl, rfl, _⟩; rfl

example : assertHasMessage exInfo exMsgs "m1" [("k", "5")] = .ok (.msg (leafMsg "u" [2] 1)) := by rfl
example : assertHasMessage exInfo exMsgs "m1" [("k", "6")] = .error .fields := by rfl
example : assertHasMessage exInfo exMsgs "m2" [("k", "5")] = .error .fields := by rfl
example : assertHasMessage exInfo exMsgs "zz" [] = .error .noneOfType := by rfl

end PM.C17
