import Eliot.Proofs.Testing
import Eliot.Properties.C09
/-!
# C17 — test helpers reconstruct the same action tree as the parser

Model: `Eliot/Model/Testing.lean` (`fromMessages`, `ofType`, `descendants`, `typeTree`, `lmOfType`,
`issuperset`, `containsFields`, `assertHasAction`, `assertHasMessage`): transliterations of
`eliot/testing.py` as list scans over the captured `MemoryLogger.messages`.

Quantifier: every specification `ts : Spec` (any number of tasks; every tree shape: any depth,
repeated types, equal-typed siblings and descendants, failed actions; nested actions stand for remote
sub-tasks too; one-message tasks) and every message list `msgs` that is an **interleaving** of the
tasks' message lists keeping each task's own emission order (`Interleaving`: per uuid, the sub-list of
`msgs` is exactly `tmsgs u t`; every message belongs to some task).  The concatenation `ts.msgs` is
one such interleaving (`interleaving_concat`); the theorems are proved for all of them.

`toLogged u t lvl` is the `LoggedAction` of a spec (sub-)tree: its own start and end message, and
exactly its direct children, recursively, in emission (= level) order.  `nodeLogged?` forgets the trie
keys of a parser node; `parser_builds_same` says the parser's root for every task is `toLogged` of the
task's tree, so the entries of `of_type` (sub-trees of those, `preorderActions`) are sub-trees of what
the parser builds from the same messages.

The assert-helper and `LoggedMessage.of_type` theorems hold for *every* message list.
-/
namespace PM.C17
open PM PM.Testing

/-- `msgs` is an interleaving of the message lists of the tasks of `ts`, each in its own order. -/
structure Interleaving (msgs : List PMsg) (ts : Spec) : Prop where
  cover : ∀ m ∈ msgs, ∃ e ∈ ts, m.uuid = e.1
  order : ∀ e ∈ ts, msgs.filter (fun m => m.uuid == e.1) = tmsgs e.1 e.2

/-- what a whole task stands for: a `LoggedAction`, or a `LoggedMessage` for a one-message task -/
def rootLogged (u : String) : Tree → LItem
  | .leaf b => .msg (leafMsg u [1] b)
  | .node a sb eb ok kids => toLogged u (.node a sb eb ok kids) []

/-- the `LoggedAction`s of all actions of task `(u, t)`, in pre-order (parents first, children in
level order) -/
def preorderActions (u : String) : Tree → List LItem
  | .leaf _ => []
  | .node a sb eb ok kids => ((pre (.node a sb eb ok kids) []).filter (·.1.isNode)).map (toLoggedP u)

theorem isAct_toLoggedP (u : String) (p : Tree × Level) : (toLoggedP u p).isAct = p.1.isNode := by
  obtain ⟨t, lvl⟩ := p
  cases t <;> simp [toLoggedP, toLogged, LItem.isAct, Tree.isNode]

theorem actions_eq_pre (u : String) (t : Tree) (lvl : Level) :
    (toLogged u t lvl).actions = ((pre t lvl).filter (·.1.isNode)).map (toLoggedP u) := by
  unfold LItem.actions
  rw [self_desc_eq_pre, List.filter_map]
  congr 1
  apply List.filter_congr
  intro p _
  exact isAct_toLoggedP u p

theorem preorderActions_eq (u : String) (t : Tree) : preorderActions u t = (rootLogged u t).actions := by
  cases t with
  | leaf b => simp [preorderActions, rootLogged, LItem.actions, LItem.descendants, LItem.isAct]
  | node a sb eb ok kids => simp only [preorderActions, rootLogged, actions_eq_pre]

theorem Interleaving.root {msgs : List PMsg} {ts : Spec} (hI : Interleaving msgs ts) {u : String}
    {a : String} {sb eb : Nat} {ok : Bool} {kids : Forest} (he : (u, Tree.node a sb eb ok kids) ∈ ts) :
    OCtx msgs u (.node a sb eb ok kids) [] := by
  have := hI.order _ he
  unfold OCtx
  rw [show (Under u [] : PMsg → Bool) = fun m => m.uuid == u from by funext m; simp [Under]]
  exact this

theorem Interleaving.mem_tmsgs {msgs : List PMsg} {ts : Spec} (hI : Interleaving msgs ts) {m : PMsg}
    (hm : m ∈ msgs) : ∃ e ∈ ts, m.uuid = e.1 ∧ m ∈ tmsgs e.1 e.2 := by
  obtain ⟨e, he, hu⟩ := hI.cover m hm
  refine ⟨e, he, hu, ?_⟩
  rw [← hI.order e he]
  exact List.mem_filter.mpr ⟨hm, by simp [hu]⟩

/-- every started message of an interleaving starts a spec action in ordered context -/
theorem Interleaving.started {msgs : List PMsg} {ts : Spec} (hI : Interleaving msgs ts) {m : PMsg}
    (hm : m ∈ msgs) (hst : m.status = some "started") :
    ∃ u lvl a sb eb ok kids, OCtx msgs u (.node a sb eb ok kids) lvl ∧ m = startMsg u lvl a sb := by
  obtain ⟨⟨u, t⟩, he, _, hmem⟩ := hI.mem_tmsgs hm
  cases t with
  | leaf b =>
    simp only [tmsgs, List.mem_cons, List.not_mem_nil, or_false] at hmem
    subst hmem; simp [leafMsg] at hst
  | node a sb eb ok kids =>
    obtain ⟨lvl', a', sb', eb', ok', kids', h1, h2⟩ :=
      started_in_tree u _ msgs [] (hI.root he) m hmem hst
    exact ⟨u, lvl', a', sb', eb', ok', kids', h1, h2⟩

theorem filter_map_split {α β} (f : α → β) (p q : α → Bool) (r : β → Bool) : ∀ (L : List α),
    (∀ m ∈ L, p m = true → r (f m) = q m) →
    (L.filter (fun m => q m && p m)).map f = ((L.filter p).map f).filter r
  | [], _ => rfl
  | m :: L, h => by
    have ih := filter_map_split f p q r L (fun x hx => h x (List.mem_cons_of_mem _ hx))
    cases hp : p m with
    | false => simp [List.filter_cons, hp, ih]
    | true =>
      have := h m List.mem_cons_self hp
      cases hq : q m <;> simp [List.filter_cons, hp, hq, ih, this ▸ hq]

/-- core of the `of_type` theorems -/
theorem ofType_core {msgs : List PMsg} {ts : Spec} (hI : Interleaving msgs ts) (ty : String) :
    ofType msgs ty = .ok ((msgs.filter (isStartOf ty)).map (actOf msgs)) ∧
    (∀ m ∈ msgs, isStart m = true → (actOf msgs m).first = m ∧ (actOf msgs m).isAct = true ∧
        (actOf msgs m).hasType ty = (m.atype == some ty)) ∧
    (∀ e ∈ ts, ((tmsgs e.1 e.2).filter (isStartOf ty)).map (actOf msgs) =
        (preorderActions e.1 e.2).filter (LItem.hasType ty)) := by
  have hpt : ∀ m ∈ msgs, isStart m = true → (actOf msgs m).first = m ∧ (actOf msgs m).isAct = true ∧
        (actOf msgs m).hasType ty = (m.atype == some ty) := by
    intro m hm hs
    obtain ⟨u, lvl, a, sb, eb, ok, kids, hctx, rfl⟩ := hI.started hm (by simpa [isStart] using hs)
    rw [actOf_node hctx]
    simp [toLogged, LItem.first, LItem.isAct, LItem.hasType]
  refine ⟨?_, hpt, ?_⟩
  · apply ofTypeGo_ok
    · intro m hm hs
      have hst : m.status = some "started" := by
        simp only [isStartOf, Bool.and_eq_true, beq_iff_eq] at hs; exact hs.2
      obtain ⟨u, lvl, a, sb, eb, ok, kids, hctx, rfl⟩ := hI.started hm hst
      exact ⟨_, fromMessages_node hctx⟩
    · intro m hm hty
      obtain ⟨⟨u, t⟩, _, _, hmem⟩ := hI.mem_tmsgs hm
      have hsh : m.Shaped u := by
        cases t with
        | leaf b =>
          simp only [tmsgs, List.mem_cons, List.not_mem_nil, or_false] at hmem
          subst hmem; simp [PMsg.Shaped, leafMsg]
        | node a sb eb ok kids => exact Tree.msgs_shape u _ [] m hmem
      rcases hsh.2 with h | h
      · rw [hty] at h; cases h
      · intro hn; rw [hn] at h; simp at h
  · intro e he
    obtain ⟨u, t⟩ := e
    cases t with
    | leaf b => simp [tmsgs, isStartOf, leafMsg, preorderActions]
    | node a sb eb ok kids =>
      have hctx := hI.root he
      have hsub : ∀ m ∈ tmsgs u (.node a sb eb ok kids), m ∈ msgs := by
        intro m hm; rw [← hI.order _ he] at hm; exact (List.mem_filter.mp hm).1
      have := filter_map_split (actOf msgs) isStart (fun m => m.atype == some ty) (LItem.hasType ty)
        (tmsgs u (.node a sb eb ok kids)) (fun m hm hs => (hpt m (hsub m hm) hs).2.2)
      rw [show (fun m : PMsg => (m.atype == some ty) && isStart m) = isStartOf ty from rfl] at this
      rw [this]
      simp only [tmsgs, starts_tree u _ msgs [] hctx, preorderActions, actions_eq_pre]

/-- **of_type_eq_parser_subtrees** (every interleaving).  `of_type` raises nothing and returns:
one entry per started message of the type, in emission order (`first` of the i-th entry is the i-th
such message of `msgs`); every entry is a `LoggedAction`; and for every task the entries of that task
are exactly `toLogged` of the task's actions of that type in pre-order — each exposing its own start
and end message, its success flag, and exactly its direct child messages and child actions
(recursively) in emission order, by definition of `toLogged`. -/
theorem of_type_eq_parser_subtrees {msgs : List PMsg} {ts : Spec} (hI : Interleaving msgs ts) (ty : String) :
    ∃ as, ofType msgs ty = .ok as ∧
      as.map LItem.first = msgs.filter (isStartOf ty) ∧
      (∀ a ∈ as, a.isAct = true) ∧
      (∀ e ∈ ts, as.filter (fun a => a.first.uuid == e.1) =
          (preorderActions e.1 e.2).filter (LItem.hasType ty)) := by
  obtain ⟨hok, hpt, htask⟩ := ofType_core hI ty
  have hstart : ∀ m ∈ msgs.filter (isStartOf ty), m ∈ msgs ∧ isStart m = true := by
    intro m hm
    obtain ⟨h1, h2⟩ := List.mem_filter.mp hm
    simp only [isStartOf, Bool.and_eq_true] at h2
    exact ⟨h1, h2.2⟩
  refine ⟨_, hok, ?_, ?_, ?_⟩
  · rw [List.map_map]
    conv => rhs; rw [← List.map_id (msgs.filter (isStartOf ty))]
    apply List.map_congr_left
    intro m hm
    exact (hpt m (hstart m hm).1 (hstart m hm).2).1
  · intro a ha
    obtain ⟨m, hm, rfl⟩ := List.mem_map.mp ha
    exact (hpt m (hstart m hm).1 (hstart m hm).2).2.1
  · intro e he
    rw [List.filter_map, ← htask e he, ← hI.order e he, List.filter_filter, List.filter_filter]
    congr 1
    apply List.filter_congr
    intro m hm
    by_cases hs : isStartOf ty m = true
    · have hs' : isStart m = true := by
        simp only [isStartOf, Bool.and_eq_true] at hs; exact hs.2
      simp [Function.comp, (hpt m hm hs').1, hs]
    · simp [Function.comp, hs]

/-- the concatenation of the tasks' message lists is an interleaving -/
theorem interleaving_concat {ts : Spec} (hwf : ts.WF) : Interleaving ts.msgs ts := by
  refine ⟨?_, ?_⟩
  · intro m hm
    obtain ⟨u, t, he, hm'⟩ := Spec.mem_msgs hm
    exact ⟨(u, t), he, tmsgs_uuid u t m hm'⟩
  · induction ts with
    | nil => intro e he; cases he
    | cons e0 es ih =>
      intro e he
      simp only [Spec.WF, List.map_cons, List.nodup_cons, List.mem_map, not_exists, not_and] at hwf
      simp only [Spec.msgs, List.flatMap_cons, List.filter_append]
      rcases List.mem_cons.mp he with h | h
      · subst h
        rw [filter_all, filter_none]
        · simp
        · intro m hm
          obtain ⟨u', t', he', hm'⟩ := Spec.mem_msgs hm
          have := tmsgs_uuid u' t' m hm'
          apply beq_false_of_ne
          intro heq
          exact hwf.1 (u', t') he' (by rw [← this, heq])
        · intro m hm
          simp [tmsgs_uuid e.1 e.2 m hm]
      · rw [filter_none]
        · simpa using ih hwf.2 e h
        · intro m hm
          apply beq_false_of_ne
          intro heq
          exact hwf.1 e h (by rw [← heq, tmsgs_uuid e0.1 e0.2 m hm])

/-- **of_type_eq_parser_subtrees**, concatenated tasks (the form of DESIGN.md): the result is the
list of all spec actions of the type, in pre-order, as `LoggedAction`s. -/
theorem of_type_concat {ts : Spec} (hwf : ts.WF) (ty : String) :
    ofType ts.msgs ty = .ok (ts.flatMap fun e => (preorderActions e.1 e.2).filter (LItem.hasType ty)) := by
  obtain ⟨hok, _, htask⟩ := ofType_core (interleaving_concat hwf) ty
  rw [hok]
  congr 1
  have : ∀ (l : Spec), (∀ e ∈ l, e ∈ ts) →
      ((l.flatMap fun e => tmsgs e.1 e.2).filter (isStartOf ty)).map (actOf ts.msgs) =
        l.flatMap fun e => (preorderActions e.1 e.2).filter (LItem.hasType ty) := by
    intro l
    induction l with
    | nil => intro _; rfl
    | cons e es ih =>
      intro hsub
      simp only [List.flatMap_cons, List.filter_append, List.map_append]
      rw [htask e (hsub e List.mem_cons_self), ih (fun x hx => hsub x (List.mem_cons_of_mem _ hx))]
  exact this ts (fun _ h => h)

/-- **the same tree the parser builds**: fed the same message list, `parse_stream` raises nothing and
yields every task complete; forgetting the trie keys (`nodeLogged?`: same start message, same end
message, children in key = level order), the root node of task `(u, t)` is `rootLogged u t`, whose
action sub-trees in pre-order are `preorderActions u t` (`preorderActions_eq`) — the entries
`of_type` returns (`of_type_eq_parser_subtrees`). -/
theorem parser_builds_same {msgs : List PMsg} {ts : Spec} (hwf : ts.WF) (hI : Interleaving msgs ts) :
    ∃ out, parseStream msgs = .ok out ∧
      ∀ e ∈ ts, ∃ T n, (e.1, T) ∈ out ∧ T.isComplete = true ∧ T.root = some n ∧
        nodeLogged? n = some (rootLogged e.1 e.2) := by
  have hin : ∀ m ∈ msgs, m ∈ ts.msgs := by
    intro m hm
    obtain ⟨e, he, _, hmem⟩ := hI.mem_tmsgs hm
    exact List.mem_flatMap.mpr ⟨e, he, hmem⟩
  have hnd : msgs.Nodup := by
    apply nodup_of_filters
    intro m hm
    obtain ⟨e, he, hu⟩ := hI.cover m hm
    rw [hu, hI.order e he]
    exact tmsgs_nodup e.1 e.2
  obtain ⟨d, p, _, hparse, hok, _, _⟩ := C09.feed_ok hwf msgs hnd hin
  refine ⟨_, hparse, ?_⟩
  intro e he
  obtain ⟨u, t⟩ := e
  have hall : allArrived (C09.arrived msgs) u t := by
    intro m hm
    simp only [C09.arrived, List.contains_iff_mem]
    have := hI.order _ he
    rw [← this] at hm
    exact (List.mem_filter.mp hm).1
  have hsome : someArrived (C09.arrived msgs) u t := by
    cases t with
    | leaf b => exact ⟨_, by simp [tmsgs], hall _ (by simp [tmsgs])⟩
    | node a sb eb ok kids =>
      exact ⟨startMsg u [] a sb, by simp [tmsgs, Tree.msgs], hall _ (by simp [tmsgs, Tree.msgs])⟩
  obtain ⟨T, hT⟩ := hok.compl u t he hsome
  obtain ⟨t', ht', _, hI', hc⟩ := hok.sound u T hT
  have := hwf.unique he ht'; subst this
  cases t with
  | leaf b =>
    exact ⟨T, _, hT, hc.mpr hall, hI'.1, by simp [nodeLogged?, rootLogged]⟩
  | node a sb eb ok kids =>
    have hI'' : TaskOK (C09.arrived msgs) u (.node a sb eb ok kids) T := hI'
    obtain ⟨n, hn, hl⟩ := view_logged u (.node a sb eb ok kids) []
    refine ⟨T, n, hT, hc.mpr hall, ?_, hl⟩
    rw [hI''.root, ← hn]
    exact Tree.view_congr _ _ u _ [] (fun m hm => hall m hm)

/-- one task alone, through `PM.C09.reconstruct`: the messages of task `u` inside any interleaving,
in the order they have there, parse to exactly the tree whose `LoggedAction` is what the helpers
return for the task's root action. -/
theorem parser_task_same {msgs : List PMsg} {ts : Spec} (hI : Interleaving msgs ts) {u : String}
    {a : String} {sb eb : Nat} {ok : Bool} {kids : Forest} (he : (u, Tree.node a sb eb ok kids) ∈ ts) :
    ∃ T n, parseStream (msgs.filter fun m => m.uuid == u) = .ok [(u, T)] ∧ T.isComplete = true ∧
      T.root = some n ∧ nodeLogged? n = fromMessages u [1] msgs |>.toOption := by
  have horder := hI.order _ he
  simp only [tmsgs] at horder
  obtain ⟨T, hp, hc, hr⟩ := C09.reconstruct u a sb eb ok kids (msgs.filter fun m => m.uuid == u)
    (by rw [horder]) (by rw [horder]; exact tree_nodup u _ [])
  obtain ⟨n, hn, hl⟩ := view_logged u (.node a sb eb ok kids) []
  refine ⟨T, n, hp, hc, by rw [hr, hn], ?_⟩
  have := fromMessages_node (hI.root he)
  simp only [List.nil_append] at this
  rw [hl, this]; rfl

/-- **descendants_preorder**: `descendants()` of the `LoggedAction` of any spec (sub-)tree is the
pre-order enumeration of its proper sub-trees (children left to right, each followed by its own
descendants), and the first messages of the descendants (own message / start message) are the tree's
messages without its own start and without end messages, in emission order. -/
theorem descendants_preorder (u : String) (t : Tree) (lvl : Level) :
    (toLogged u t lvl).descendants = ((pre t lvl).tail).map (toLoggedP u) ∧
    ((toLogged u t lvl).descendants).map LItem.first =
      ((Tree.msgs u t lvl).filter (fun m => !isCompleted m.status)).tail := by
  have h1 := congrArg List.tail (self_desc_eq_pre u t lvl)
  simp only [List.tail_cons, ← List.map_tail] at h1
  refine ⟨h1, ?_⟩
  rw [h1, List.map_map, ← pre_first u t lvl, ← List.map_tail]
  rfl

/-- **type_tree_preorder**: `type_tree()` of the `LoggedAction` of a spec tree is the spec tree with
every action replaced by its `action_type` and every message by its `message_type` (raising
`KeyError` exactly when some child message has no `message_type`), children in the same order; its
labels, parents first, are the types of the tree's pre-order enumeration. -/
theorem type_tree_preorder (info : Nat → Info) (u : String) (t : Tree) (lvl : Level) :
    typeTree info (toLogged u t lvl) = typeTreeS info t ∧
    ∀ tt, typeTree info (toLogged u t lvl) = .ok tt →
      tt.labels.map some = (pre t lvl).map (fun p => typeOf info p.1) := by
  refine ⟨typeTree_toLogged info u t lvl, fun tt h => ?_⟩
  rw [typeTree_toLogged] at h
  exact typeTreeS_labels info t lvl tt h

/-- **logged_message_of_type** (every message list): exactly the messages whose `message_type` is
`ty`, in order, as `LoggedMessage`s. -/
theorem logged_message_of_type (info : Nat → Info) (ty : String) (msgs : List PMsg) :
    lmOfType info ty msgs = (msgs.filter fun m => (info m.body).mtype == some ty).map LItem.msg := by
  induction msgs with
  | nil => rfl
  | cons m ms ih =>
    cases h : (info m.body).mtype == some ty <;> simp [lmOfType, List.filter_cons, h, ih]

/-- **assert_has_action_iff** (every message list, every table of dictionaries): `assertHasAction`
returns `a` iff `of_type` returns a non-empty list whose *first* entry is `a`, `a.succeeded` is the
expected flag, and `a`'s start / end message have a superset of the expected start / end fields. -/
theorem assert_has_action_iff (info : Nat → Info) (hinfo : ∀ b, ((info b).fields.map (·.1)).Nodup)
    (msgs : List PMsg) (ty : String) (succeeded : Bool) (startFields endFields : Fields) (a : LItem) :
    assertHasAction info msgs ty succeeded startFields endFields = .ok a ↔
      ∃ s e ch rest, a = .act s e ch ∧ ofType msgs ty = .ok (.act s e ch :: rest) ∧
        (e.status == some "succeeded") = succeeded ∧
        issuperset (info s.body).fields startFields = true ∧
        issuperset (info e.body).fields endFields = true := by
  unfold assertHasAction
  cases hof : ofType msgs ty with
  | error err => simp
  | ok as =>
    cases as with
    | nil => simp
    | cons x rest =>
      cases x with
      | msg m =>
        have := ofTypeGo_isAct msgs ty msgs _ hof (.msg m) (by simp)
        simp [LItem.isAct] at this
      | act s e ch =>
        simp only [containsFields_eq_issuperset _ _ (hinfo _)]
        by_cases h1 : (e.status == some "succeeded") = succeeded
        · cases h2 : issuperset (info s.body).fields startFields
          · simp [h1]
          · cases h3 : issuperset (info e.body).fields endFields
            · simp [h1]
            · simp only [h1, bne_self_eq_false, Bool.false_eq_true, ↓reduceIte, Bool.not_true,
                Except.ok.injEq, List.cons.injEq, LItem.act.injEq]
              constructor
              · intro h; subst h; exact ⟨s, e, ch, rest, rfl, ⟨⟨rfl, rfl, rfl⟩, rfl⟩, rfl, rfl, rfl⟩
              · rintro ⟨s', e', ch', rest', rfl, ⟨⟨rfl, rfl, rfl⟩, rfl⟩, _⟩; rfl
        · have : ((e.status == some "succeeded") != succeeded) = true := by simpa using h1
          simp only [this, ↓reduceIte, reduceCtorEq, Except.ok.injEq, List.cons.injEq, LItem.act.injEq,
            false_iff, not_exists, not_and]
          rintro s' e' ch' rest' _ ⟨⟨_, rfl, _⟩, _⟩ h
          exact absurd h h1

/-- every failure of `assertHasAction` when `of_type` raises nothing: which assertion fails -/
theorem assert_has_action_failure (info : Nat → Info) (msgs : List PMsg) (ty : String) (succeeded : Bool)
    (startFields endFields : Fields) :
    ofType msgs ty = .ok [] →
      assertHasAction info msgs ty succeeded startFields endFields = .error .noneOfType := by
  intro h; simp [assertHasAction, h]

/-- **assert_has_message_iff** (every message list): `assertHasMessage` returns `a` iff `a` is the
*first* message of the type and it has a superset of the expected fields. -/
theorem assert_has_message_iff (info : Nat → Info) (hinfo : ∀ b, ((info b).fields.map (·.1)).Nodup)
    (msgs : List PMsg) (ty : String) (fields : Fields) (a : LItem) :
    assertHasMessage info msgs ty fields = .ok a ↔
      ∃ m, a = .msg m ∧ (msgs.filter fun m => (info m.body).mtype == some ty).head? = some m ∧
        issuperset (info m.body).fields fields = true := by
  unfold assertHasMessage
  rw [logged_message_of_type]
  cases hf : msgs.filter (fun m => (info m.body).mtype == some ty) with
  | nil => simp
  | cons m rest =>
    simp only [List.map_cons, containsFields_eq_issuperset _ _ (hinfo _), List.head?_cons,
      Option.some.injEq]
    cases h : issuperset (info m.body).fields fields
    · simp only [Bool.not_false, ↓reduceIte, reduceCtorEq, false_iff, not_exists, not_and]
      rintro m' _ rfl h'; rw [h] at h'; cases h'
    · simp only [Bool.not_true, Bool.false_eq_true, ↓reduceIte, Except.ok.injEq]
      constructor
      · intro e; exact ⟨m, e.symm, rfl, h⟩
      · rintro ⟨m', rfl, rfl, _⟩; rfl

end PM.C17
