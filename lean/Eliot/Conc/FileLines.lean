import Eliot.Conc.Sched
/-! Several threads writing lines through one `FileDestination` (second half of C16).
One destination call performs the file operations of a skeleton `ops` (what E2 extracts from
`FileDestination.__call__`); a single `file.write(chunk)` appends its chunk atomically (GIL; trusted
base), and nothing else is atomic: threads interleave between any two file operations.
Mathlib-free, executable. -/
namespace Eliot.Conc.FileLines

abbrev Line := List Nat

inductive FOp where
  | writeWhole   -- file.write(dumps(message) + linebreak)
  | writeBody    -- file.write(dumps(message))
  | writeBreak   -- file.write(linebreak)
  | flush
deriving DecidableEq, Repr

def chunk (l : Line) : FOp → List Nat
  | .writeWhole => l ++ [10]
  | .writeBody => l
  | .writeBreak => [10]
  | .flush => []

structure State where
  content : List Nat
  pending : Nat → List Line
  /-- inside a destination call: the line and the file operations still to do -/
  pc : Nat → Option (Line × List FOp)
  /-- ghost: whole-line writes performed, in file order -/
  log : List (Nat × Line)

def init (prog : Nat → List Line) : State := ⟨[], prog, fun _ => none, []⟩

def upd {α : Type} (f : Nat → α) (t : Nat) (v : α) : Nat → α := fun x => if x = t then v else f x

def step (ops : List FOp) (s : State) (t : Nat) : Option State :=
  match s.pc t with
  | none =>
    match s.pending t with
    | [] => none
    | l :: rest => some { s with pending := upd s.pending t rest, pc := upd s.pc t (some (l, ops)) }
  | some (_, []) => some { s with pc := upd s.pc t none }
  | some (l, o :: os) =>
    some { s with content := s.content ++ chunk l o, pc := upd s.pc t (some (l, os)),
                  log := if o = .writeWhole then s.log ++ [(t, l)] else s.log }

def sys (ops : List FOp) : Sys State Nat := ⟨step ops⟩
def run (ops : List FOp) (s : State) (sched : List Nat) : State := (sys ops).run s sched

/-- the write operations of a skeleton -/
def writes (ops : List FOp) : List FOp := ops.filter (fun o => o != .flush)

/-- "one write per line": the only write of a destination call is the whole line with its line break -/
def OneWritePerLine (ops : List FOp) : Prop := writes ops = [.writeWhole]
instance (ops : List FOp) : Decidable (OneWritePerLine ops) := by unfold OneWritePerLine; infer_instance

def render (log : List (Nat × Line)) : List Nat := (log.map (fun w => w.2 ++ [10])).flatten

def linesOf (log : List (Nat × Line)) (t : Nat) : List Line := (log.filter (fun w => decide (w.1 = t))).map (·.2)

def finished (s : State) : Prop := ∀ t, s.pending t = [] ∧ s.pc t = none

end Eliot.Conc.FileLines
