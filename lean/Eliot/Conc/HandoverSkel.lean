/-! Types of the skeleton that `harness/extractors/e8_handover.py` regenerates from
eliot/_output.py (`Eliot/Generated/Handover.lean`): statements of `Destinations.add`,
`Destinations.send` and `BufferingDestination.__call__`.  Plain data, Mathlib-free. -/
namespace Eliot.Conc.Handover

inductive AOp where
  | initNone                 -- buffered_messages = None
  | ifFirstAdd (n : Nat)     -- if not self._any_added:  (the next n statements are its body)
  | setAnyAdded              -- self._any_added = True
  | takeBuffer               -- buffered_messages = self._destinations[0].messages   (reference, not a copy)
  | swapDests                -- self._destinations = []
  | extendDests              -- self._destinations.extend(destinations)
  | ifBufferedResend         -- if buffered_messages: for message in buffered_messages: self.send(message)
  | unknown
deriving DecidableEq, Repr

inductive SOp where
  | updateGlobals | localAssign | forDestsCall | reportErrors | unknown
deriving DecidableEq, Repr

inductive BOp where
  | append | trim | unknown
deriving DecidableEq, Repr

structure HandoverSkel where
  add : List AOp
  send : List SOp
  buffer : List BOp
  /-- some lock / decorator is used in one of the three functions (the pinned tree has none) -/
  locked : Bool
deriving DecidableEq, Repr

/-- the shape of the pinned tree, for which the model `Eliot.Conc.Handover` is written -/
def assumed : HandoverSkel :=
  { add := [.initNone, .ifFirstAdd 3, .setAnyAdded, .takeBuffer, .swapDests, .extendDests, .ifBufferedResend],
    send := [.updateGlobals, .localAssign, .localAssign, .forDestsCall, .reportErrors],
    buffer := [.append, .trim],
    locked := false }

end Eliot.Conc.Handover
