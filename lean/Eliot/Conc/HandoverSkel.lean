/-! Types of the skeleton that `harness/extractors/e8_handover.py` regenerates from
eliot/_output.py (`Eliot/Generated/Handover.lean`): statements of `Destinations.add`,
`Destinations.send` (`_send_to`) and `BufferingDestination.__call__` / `drain`.  Plain data, Mathlib-free. -/
namespace Eliot.Conc.Handover

inductive AOp where
  | initNone                 -- buffered_messages = None
  | ifFirstAdd (n : Nat)     -- if not self._any_added:  (the next n statements are its body)
  | ifFirstAddElse (a b : Nat)  -- if not self._any_added: <next a statements> else: <b statements after them>
  | setAnyAdded              -- self._any_added = True
  | takeBuffer               -- buffered_messages = self._destinations[0].messages   (reference, not a copy)
  | takeBufferDest           -- buffering_destination = self._destinations[0]
  | swapDests                -- self._destinations = []
  | mkNewList                -- new_destinations = list(destinations)
  | drainForward             -- buffering_destination.drain(lambda message: self._send_to(new_destinations, message))
  | assignDests              -- self._destinations = new_destinations
  | extendDests              -- self._destinations.extend(destinations)
  | ifBufferedResend         -- if buffered_messages: for message in buffered_messages: self.send(message)
  | unknown
deriving DecidableEq, Repr

inductive SOp where
  | updateGlobals | localAssign | forDestsCall | reportErrors
  | delegateSendTo           -- self._send_to(self._destinations, message, logger)
  | unknown
deriving DecidableEq, Repr

inductive BOp where
  | append | trim
  | lockedAppendElseFall     -- with self._lock: if self._forward is None: append; trim; return
  | forwardCall              -- self._forward(message)
  | lockedSetForwardTakeResend  -- with self._lock: self._forward = forward; messages, self.messages = self.messages, []; for message in messages: forward(message)
  | unknown
deriving DecidableEq, Repr

inductive LockKind where
  | none | lock | rlock | other
deriving DecidableEq, Repr

structure HandoverSkel where
  add : List AOp
  send : List SOp
  /-- body of `_send_to` (empty when there is no such method) -/
  sendTo : List SOp
  buffer : List BOp
  /-- body of `BufferingDestination.drain` (empty when there is no such method) -/
  drain : List BOp
  /-- what `BufferingDestination.__init__` assigns to `self._lock` -/
  lock : LockKind
deriving DecidableEq, Repr

/-- the shape of the pinned tree (before the repair), for which the model `Eliot.Conc.Handover` and the
loss witnesses are written -/
def pinnedSkel : HandoverSkel :=
  { add := [.initNone, .ifFirstAdd 3, .setAnyAdded, .takeBuffer, .swapDests, .extendDests, .ifBufferedResend],
    send := [.updateGlobals, .localAssign, .localAssign, .forDestsCall, .reportErrors],
    sendTo := [],
    buffer := [.append, .trim],
    drain := [],
    lock := .none }

/-- the repaired shape, for which the model `Eliot.Conc.HandoverFix` and `handover_no_loss` are written -/
def fixedSkel : HandoverSkel :=
  { add := [.ifFirstAddElse 5 1, .setAnyAdded, .takeBufferDest, .mkNewList, .drainForward, .assignDests, .extendDests],
    send := [.delegateSendTo],
    sendTo := [.updateGlobals, .localAssign, .localAssign, .forDestsCall, .reportErrors],
    buffer := [.lockedAppendElseFall, .forwardCall],
    drain := [.lockedSetForwardTakeResend],
    lock := .rlock }

end Eliot.Conc.Handover
