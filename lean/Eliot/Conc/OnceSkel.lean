/-! Type of the skeleton that `harness/extractors/e3_preserve_context.py` regenerates from
eliot/_action.py (`Eliot/Generated/Once.lean`). -/
namespace Eliot.Conc.Once

inductive GuardKind where
  | tryLock        -- `if not lock.acquire(False): raise TooManyCalls(f)` on a threading.Lock that is never released
  | checkThenSet   -- `if flag: raise ...` and `flag = True` as two statements
  | other
deriving DecidableEq, Repr

end Eliot.Conc.Once
