import Eliot.Conc.Sched
import Eliot.Conc.OnceSkel
/-! The single-use guard of `preserve_context` (property C06, `at_most_once`): `n` threads invoke
the same preserved callable once each.  With the `tryLock` guard the test-and-set is one atomic
step (a non-blocking `Lock.acquire`); with `checkThenSet` the test and the assignment are two
steps, which is what the failing-input search explores.  Mathlib-free, executable. -/
namespace Eliot.Conc.Once

inductive Pc where
  | start      -- about to execute the guard
  | checked    -- (checkThenSet only) saw the flag unset, about to set it
  | passed     -- passed the guard, about to run f
  | ran        -- f has run (its result / exception is passed through)
  | raised     -- raised TooManyCalls
deriving DecidableEq, Repr

structure State where
  taken : Bool            -- lock held / flag set
  pc : Nat → Pc
  runs : Nat              -- number of times f was started
  winner : Option Nat     -- ghost: the first thread that passed the guard

def init : State := { taken := false, pc := fun _ => .start, runs := 0, winner := none }

def upd {α : Type} (f : Nat → α) (t : Nat) (v : α) : Nat → α := fun x => if x = t then v else f x

def step (g : GuardKind) (n : Nat) (s : State) (t : Nat) : Option State :=
  if t < n then
    match s.pc t with
    | .start =>
      match g with
      | .tryLock =>
        if s.taken then some { s with pc := upd s.pc t .raised }
        else some { s with taken := true, pc := upd s.pc t .passed, winner := some t }
      | .checkThenSet =>
        if s.taken then some { s with pc := upd s.pc t .raised } else some { s with pc := upd s.pc t .checked }
      | .other => none
    | .checked => some { s with taken := true, pc := upd s.pc t .passed, winner := if s.winner.isSome then s.winner else some t }
    | .passed => some { s with pc := upd s.pc t .ran, runs := s.runs + 1 }
    | .ran => none
    | .raised => none
  else none

def sys (g : GuardKind) (n : Nat) : Sys State Nat := ⟨step g n⟩
def run (g : GuardKind) (n : Nat) (sched : List Nat) : State := (sys g n).run init sched

/-- every one of the n invocations has returned or raised -/
def Done (n : Nat) (s : State) : Prop := ∀ t, t < n → s.pc t = .ran ∨ s.pc t = .raised

end Eliot.Conc.Once
