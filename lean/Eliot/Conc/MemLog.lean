import Eliot.Conc.Sched
import Eliot.Conc.Skel
/-! Lock-discipline model of `eliot._output.MemoryLogger` (property C16), *compiled from a skeleton
table* (`Skel.lean`; the current table is regenerated from the source on every check).

Shared state: the four shared lists hold *items* `(call id, tag)`; a ghost log records what every
`read` access saw.  A thread is a list of pending calls; a call of a locked method is
`acquire; one step per access in source order; release`; a call of an unlocked method runs its
accesses with no lock (that path exists so that the failing-input search can exhibit races; under
`AllLocked` it is never taken).  `.unknown` accesses and calls of methods that are not in the table
are *refused* (the thread is stuck): the model does not invent behaviour for code it does not know.
Granularity = one shared access per step, i.e. at least as fine as source lines.  Mathlib-free. -/
namespace Eliot.Conc.MemLog

structure Item where
  cid : Nat
  /-- 0: ordinary message; k+1: traceback message whose exception has class k -/
  tag : Nat
deriving DecidableEq, Repr

/-- One method invocation. -/
structure Call where
  meth : String
  cid : Nat
  /-- `write`: tag of the message (0 ordinary, k+1 traceback of class k);
      `flushTracebacks`: 0 = flush every traceback, k+1 = flush those of class k -/
  tag : Nat := 0
  /-- `write`: validation of this message fails -/
  fails : Bool := false
deriving DecidableEq, Repr

def Call.item (c : Call) : Item := ⟨c.cid, c.tag⟩

structure Mem where
  fld : Fld → List Item
  /-- ghost: (reader call id, field, what it saw), in execution order -/
  reads : List (Nat × Fld × List Item)

def Mem.empty : Mem := ⟨fun _ => [], []⟩

def Mem.set (m : Mem) (f : Fld) (v : List Item) : Mem :=
  { m with fld := fun g => if g = f then v else m.fld g }

/-- Does a conditional append of call `c` to field `f` happen?  (`write` appends to the traceback
list iff the message is traceback-typed, to `_failed_validations` iff validation failed.) -/
def guard (c : Call) : Fld → Bool
  | .tracebacks => c.tag != 0
  | .failed => c.fails
  | _ => false

/-- `flushTracebacks(cls)` removes the tracebacks whose exception is an instance of `cls`. -/
def flushes (c : Call) (it : Item) : Bool := c.tag == 0 || it.tag == c.tag

def applyAcc (c : Call) (m : Mem) : Acc → Mem
  | .append f cond => if !cond || guard c f then m.set f (m.fld f ++ [c.item]) else m
  | .clear f => m.set f []
  | .filterAssign f => m.set f ((m.fld f).filter (fun it => !flushes c it))
  | .read f => { m with reads := m.reads ++ [(c.cid, f, m.fld f)] }
  | .call _ => m
  | .unknown => m

def applyAccs (c : Call) (m : Mem) (as : List Acc) : Mem := as.foldl (applyAcc c) m

inductive Pc where
  | idle
  | body (c : Call) (locked : Bool) (rem : List Acc)
deriving Repr

structure State where
  mem : Mem
  lock : Option Nat                  -- holder thread
  pending : Nat → List Call
  pc : Nat → Pc
  /-- ghost: (thread, call) in the order in which calls started (= lock-acquisition order) -/
  hist : List (Nat × Call)

def init (prog : Nat → List Call) : State :=
  { mem := Mem.empty, lock := none, pending := prog, pc := fun _ => .idle, hist := [] }

def lookup (tbl : Table) (name : String) : Option MethodSkel := List.lookup name tbl

/-- accesses that touch shared state (everything but calls of other methods) -/
def sharedAccs (body : List Acc) : List Acc := body.filter (fun a => match a with | .call _ => false | _ => true)

def upd {α : Type} (f : Nat → α) (t : Nat) (v : α) : Nat → α := fun x => if x = t then v else f x

def step (tbl : Table) (s : State) (t : Nat) : Option State :=
  match s.pc t with
  | .idle =>
    match s.pending t with
    | [] => none
    | c :: rest =>
      match lookup tbl c.meth with
      | none => none
      | some m =>
        if m.locked then
          match s.lock with
          | some _ => none
          | none => some { s with lock := some t, pending := upd s.pending t rest,
                                  pc := upd s.pc t (.body c true m.body), hist := s.hist ++ [(t, c)] }
        else if sharedAccs m.body = [] then
          some { s with pending := upd s.pending t rest, hist := s.hist ++ [(t, c)] }
        else
          some { s with pending := upd s.pending t rest,
                        pc := upd s.pc t (.body c false m.body), hist := s.hist ++ [(t, c)] }
  | .body c l (a :: as) =>
    if a = .unknown then none
    else some { s with mem := applyAcc c s.mem a, pc := upd s.pc t (.body c l as) }
  | .body _ l [] =>
    some { s with lock := if l then none else s.lock, pc := upd s.pc t .idle }

def sys (tbl : Table) : Sys State Nat := ⟨step tbl⟩

def run (tbl : Table) (s : State) (sched : List Nat) : State := (sys tbl).run s sched

/-- The sequential execution of a list of calls, one after the other. -/
def seqRun (tbl : Table) (m0 : Mem) (calls : List Call) : Mem :=
  calls.foldl (fun m c => match lookup tbl c.meth with
    | some sk => applyAccs c m sk.body
    | none => m) m0

/-- Every method that touches shared state does so under the lock. -/
def AllLocked (tbl : Table) : Prop := ∀ p ∈ tbl, p.2.locked = true ∨ sharedAccs p.2.body = []

instance (tbl : Table) : Decidable (AllLocked tbl) := by unfold AllLocked; infer_instance

/-! ### What the methods are supposed to do to the three lists the property talks about -/

inductive Op where
  | app (cond : Bool) | clr | flt
deriving DecidableEq, Repr

def opOn (f : Fld) : Acc → Option Op
  | .append g c => if g = f then some (.app c) else none
  | .clear g => if g = f then some .clr else none
  | .filterAssign g => if g = f then some .flt else none
  | _ => none

def opsOn (f : Fld) (body : List Acc) : List Op := body.filterMap (opOn f)

def hasUnknown (body : List Acc) : Bool := body.any (fun a => a == .unknown)

/-- The table says: `write` appends once to `messages`, once to `serializers` (both
unconditionally) and conditionally once to `tracebackMessages`; `reset` clears the three;
`flushTracebacks` only filters `tracebackMessages`; no other method mutates any of the three;
and nothing has an unrecognised shape. -/
def WritePairs (tbl : Table) : Prop :=
  (∀ p ∈ tbl, hasUnknown p.2.body = false) ∧
  (∀ p ∈ tbl,
    if p.1 = "write" then
      opsOn .messages p.2.body = [.app false] ∧ opsOn .serializers p.2.body = [.app false] ∧
      opsOn .tracebacks p.2.body = [.app true]
    else if p.1 = "reset" then
      opsOn .messages p.2.body = [.clr] ∧ opsOn .serializers p.2.body = [.clr] ∧ opsOn .tracebacks p.2.body = [.clr]
    else if p.1 = "flushTracebacks" then
      opsOn .messages p.2.body = [] ∧ opsOn .serializers p.2.body = [] ∧ opsOn .tracebacks p.2.body = [.flt]
    else
      opsOn .messages p.2.body = [] ∧ opsOn .serializers p.2.body = [] ∧ opsOn .tracebacks p.2.body = []) ∧
  (lookup tbl "write").isSome ∧ (lookup tbl "reset").isSome ∧ (lookup tbl "flushTracebacks").isSome

instance (tbl : Table) : Decidable (WritePairs tbl) := by unfold WritePairs; infer_instance

/-- Specification of `(messages, tracebackMessages)` after a sequence of calls, written without
reference to the table. -/
def specStep (st : List Item × List Item) (c : Call) : List Item × List Item :=
  if c.meth = "write" then (st.1 ++ [c.item], if c.tag != 0 then st.2 ++ [c.item] else st.2)
  else if c.meth = "reset" then ([], [])
  else if c.meth = "flushTracebacks" then (st.1, st.2.filter (fun it => !flushes c it))
  else st

def spec (calls : List Call) : List Item × List Item := calls.foldl specStep ([], [])

end Eliot.Conc.MemLog
