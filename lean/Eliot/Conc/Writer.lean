import Eliot.Conc.Sched
import Eliot.Conc.WriterSkel
/-! Model of `eliot.logwriter.ThreadedWriter` (property C19) for the skeleton `WriterSkel.assumed`.

Threads: any number of producers (`prod i`, each offers its list of messages by calling the writer,
i.e. one atomic `put`), one controller (`ctl`) that runs start/stop cycles statement by statement,
the reader thread of each cycle (`reader k`) and the thread that joins it for the stop result
(`joiner k`).  The queue is a FIFO list; `get` blocks on an empty queue; `join` blocks until the
reader has returned; the wrapped destination is an oracle `fails : Nat → Bool` (raises on these
messages; the exception is swallowed).  Ghost fields record the history.
A controller that starts a new reader while the previous one is still alive is refused (outside the
model): the cycle program always waits for the stop result first.  Mathlib-free, executable. -/
namespace Eliot.Conc.Writer

inductive Item where
  | msg (m : Nat)
  | stop
deriving DecidableEq, Repr

inductive Tid where
  | prod (i : Nat)
  | ctl
  | reader (k : Nat)
  | joiner (k : Nat)
deriving DecidableEq, Repr

inductive RPc where
  | none                 -- no reader thread has been started yet
  | atGet                -- at `msg = self._queue.get()`
  | holding (m : Nat)    -- got a message, about to call the destination
  | exited               -- returned after reading _STOP
deriving DecidableEq, Repr

inductive Ev where
  | call (m k : Nat) (ok : Bool)   -- destination called with m on thread `reader k`
  | stopped (k : Nat)              -- the stop result of cycle k completed
deriving DecidableEq, Repr

/-- one start/stop cycle as executed by the controller -/
def cycleOps : List COp := assumed.start ++ assumed.stop ++ [.awaitStop]

structure State where
  queue : List Item
  running : Bool
  registered : Bool
  /-- number of reader threads started so far; the current one is `reader (cycle - 1)` -/
  cycle : Nat
  reader : RPc
  joinPending : Bool
  joinDone : Bool
  /-- controller: cycles still to run, statements left in the current cycle -/
  cyclesLeft : Nat
  ops : List COp
  prod : Nat → List Nat
  -- ghost history
  puts : List Item                 -- everything ever put, in queue order
  consumed : List Item             -- everything ever taken out, in order
  attempted : List (Nat × Nat)     -- destination calls: (message, reader thread index)
  written : List (Nat × Nat)       -- those that did not raise
  events : List Ev

def init (prog : Nat → List Nat) (cycles : Nat) : State :=
  { queue := [], running := false, registered := false, cycle := 0, reader := .none, joinPending := false,
    joinDone := false, cyclesLeft := cycles, ops := [], prod := prog, puts := [], consumed := [],
    attempted := [], written := [], events := [] }

def upd {α : Type} (f : Nat → α) (t : Nat) (v : α) : Nat → α := fun x => if x = t then v else f x

def ctlStep (s : State) : Option State :=
  match s.ops with
  | [] => if s.cyclesLeft = 0 then none else some { s with cyclesLeft := s.cyclesLeft - 1, ops := cycleOps }
  | op :: r =>
    match op with
    | .svcStart => some { s with running := true, ops := r }
    | .mkThread => some { s with ops := r }
    | .startThread =>
      if s.reader = .none ∨ s.reader = .exited then
        some { s with reader := .atGet, cycle := s.cycle + 1, joinPending := false, joinDone := false, ops := r }
      else none
    | .register => some { s with registered := true, ops := r }
    | .svcStop => some { s with running := false, ops := r }
    | .unregister => some { s with registered := false, ops := r }
    | .putStop => some { s with queue := s.queue ++ [.stop], puts := s.puts ++ [.stop], ops := r }
    | .deferJoin => some { s with joinPending := true, ops := r }
    | .awaitStop => if s.joinDone then some { s with ops := r } else none
    | .unknown => none

def step (fails : Nat → Bool) (s : State) : Tid → Option State
  | .prod i =>
    match s.prod i with
    | [] => none
    | m :: r => some { s with queue := s.queue ++ [.msg m], puts := s.puts ++ [.msg m], prod := upd s.prod i r }
  | .ctl => ctlStep s
  | .reader k =>
    if k + 1 = s.cycle then
      match s.reader with
      | .atGet =>
        match s.queue with
        | [] => none
        | .stop :: q => some { s with queue := q, consumed := s.consumed ++ [.stop], reader := .exited }
        | .msg m :: q => some { s with queue := q, consumed := s.consumed ++ [.msg m], reader := .holding m }
      | .holding m =>
        some { s with attempted := s.attempted ++ [(m, k)],
                      written := if fails m then s.written else s.written ++ [(m, k)],
                      events := s.events ++ [.call m k (!fails m)], reader := .atGet }
      | _ => none
    else none
  | .joiner k =>
    if k + 1 = s.cycle ∧ s.joinPending = true ∧ s.joinDone = false ∧ s.reader = .exited then
      some { s with joinDone := true, events := s.events ++ [.stopped k] }
    else none

def sys (fails : Nat → Bool) : Sys State Tid := ⟨step fails⟩
def run (fails : Nat → Bool) (s : State) (sched : List Tid) : State := (sys fails).run s sched

/-! ### Vocabulary of the theorems -/

def msgsOf : List Item → List Nat
  | [] => []
  | .msg m :: r => m :: msgsOf r
  | .stop :: r => msgsOf r

def stops : List Item → Nat
  | [] => 0
  | .msg _ :: r => stops r
  | .stop :: r => stops r + 1

/-- messages of a queue history, each tagged with the number of STOPs before it (+ n) = its cycle -/
def tagged : List Item → Nat → List (Nat × Nat)
  | [], _ => []
  | .msg m :: r, n => (m, n) :: tagged r n
  | .stop :: r, n => tagged r (n + 1)

/-- the message the reader has taken out but not yet passed on -/
def held (s : State) : List (Nat × Nat) :=
  match s.reader with
  | .holding m => [(m, s.cycle - 1)]
  | _ => []

end Eliot.Conc.Writer
