import Eliot.Conc.Sched
/-! Model of the *repaired* hand-over from start-up buffering to real destinations (C12, concurrent
clause; /repo commit "fix: no message is lost or overtaken while the first destinations are added"):
`n` logging threads inside `Destinations.send` versus the thread performing the first
`Destinations.add`, for the skeleton `HandoverSkel.fixedSkel`:

  Destinations.send:              self._send_to(self._destinations, message, logger)      -- evaluates the attribute once
  Destinations._send_to(ds, m):   for dest in ds: try: dest(m) except Exception ...
  BufferingDestination.__call__:  with self._lock: if self._forward is None: append; return
                                  self._forward(message)
  BufferingDestination.drain(f):  with self._lock: self._forward = f; messages, self.messages = self.messages, []
                                                   for message in messages: f(message)
  Destinations.add (first call):  _any_added = True; b = self._destinations[0]; new = list(destinations)
                                  b.drain(lambda m: self._send_to(new, m)); self._destinations = new

Granularity: source lines, except that the lock-protected accesses to `messages` / `_forward` at the
beginning of a `with self._lock:` block are one step together with the acquisition (nobody else can
touch those fields while the lock is held).  The drain loop runs *while holding* the lock: a logger
that reaches the buffer meanwhile is blocked (`lockHeld`).  Captured destination lists are never
mutated during the first add, so an iterator is its remaining suffix.  The re-entrant use of the
RLock by destination-failure reports of the draining thread is outside the model (destinations do
not fail here; see C08).  Mathlib-free, executable. -/
namespace Eliot.Conc.HandoverFix

inductive Tid where
  | logger (i : Nat)
  | adder
deriving DecidableEq, Repr

inductive Dest where
  | buffer
  | real (d : Nat)
deriving DecidableEq, Repr

inductive LPc where
  | idle
  | entered (m : Nat)                                   -- inside send, before `self._send_to(self._destinations, ...)`
  | iter (m : Nat) (rem : List Dest)                    -- at the `for` line of _send_to, remaining elements
  | call (m : Nat) (d : Dest) (rem : List Dest)         -- at `dest(message)`
  | fwd (m : Nat) (rem : List Dest)                     -- left the buffer's critical section: at `self._forward(message)`
  | fwdIter (m : Nat) (frem : List Dest) (rem : List Dest)   -- in the forwarded _send_to(new, m)
  | fwdCall (m : Nat) (d : Nat) (frem : List Dest) (rem : List Dest)
deriving DecidableEq, Repr

inductive APc where
  | test | setAnyAdded | takeBuffer | mkNew | drainEnter
  | resendIter (todo : List Nat)                        -- at `for message in messages:` (lock held)
  | resendAtSend (m : Nat) (todo : List Nat)            -- at `forward(message)`
  | resendNext (m : Nat) (rem : List Dest) (todo : List Nat)
  | resendCall (m : Nat) (d : Nat) (rem : List Dest) (todo : List Nat)
  | release                                             -- leaving `with self._lock:`
  | swap                                                -- self._destinations = new_destinations
  | extend                                              -- not the first add: `self._destinations.extend(destinations)`
  | done
deriving DecidableEq, Repr

structure State where
  anyAdded : Bool
  /-- which list object `self._destinations` is: false = the initial `[buffer]`, true = `new_destinations` -/
  cur : Bool
  newList : List Nat
  buf : List Nat
  forward : Bool
  /-- the buffer's lock is held by the adder (inside drain) -/
  lockHeld : Bool
  delivered : Nat → List Nat
  logPending : Nat → List Nat
  logPc : Nat → LPc
  addPc : APc
  addDests : List Nat
  /-- ghost: what the buffer held when drain() took it over -/
  drained : List Nat

def init (prebuffered : List Nat) (prog : Nat → List Nat) (dests : List Nat) : State :=
  { anyAdded := false, cur := false, newList := [], buf := prebuffered, forward := false, lockHeld := false,
    delivered := fun _ => [], logPending := prog, logPc := fun _ => .idle, addPc := .test, addDests := dests,
    drained := [] }

def upd {α : Type} (f : Nat → α) (t : Nat) (v : α) : Nat → α := fun x => if x = t then v else f x

/-- the list object `self._destinations` refers to now -/
def curList (s : State) : List Dest := if s.cur then s.newList.map .real else [.buffer]

/-- `new_destinations`, the list the forwarder closes over -/
def fwdList (s : State) : List Dest := s.addDests.map .real

def deliver (s : State) (d m : Nat) : State :=
  { s with delivered := upd s.delivered d (s.delivered d ++ [m]) }

def setL (s : State) (i : Nat) (pc : LPc) : State := { s with logPc := upd s.logPc i pc }

def step (n : Nat) (s : State) : Tid → Option State
  | .logger i =>
    if i < n then
      match s.logPc i with
      | .idle =>
        match s.logPending i with
        | [] => none
        | m :: r => some { s with logPending := upd s.logPending i r, logPc := upd s.logPc i (.entered m) }
      | .entered m => some (setL s i (.iter m (curList s)))            -- evaluates self._destinations now
      | .iter m rem =>
        match rem with
        | [] => some (setL s i .idle)
        | d :: r => some (setL s i (.call m d r))
      | .call m d rem =>
        match d with
        | .real k => some (setL (deliver s k m) i (.iter m rem))
        | .buffer =>
          -- `with self._lock:` of BufferingDestination.__call__ and what it protects
          if s.lockHeld then none
          else if s.forward then some (setL s i (.fwd m rem))
          else some (setL { s with buf := s.buf ++ [m] } i (.iter m rem))
      | .fwd m rem => some (setL s i (.fwdIter m (fwdList s) rem))
      | .fwdIter m frem rem =>
        match frem with
        | [] => some (setL s i (.iter m rem))
        | .real k :: r => some (setL s i (.fwdCall m k r rem))
        | .buffer :: _ => none
      | .fwdCall m k frem rem => some (setL (deliver s k m) i (.fwdIter m frem rem))
    else none
  | .adder =>
    match s.addPc with
    | .test => some { s with addPc := if s.anyAdded then .extend else .setAnyAdded }
    | .setAnyAdded => some { s with anyAdded := true, addPc := .takeBuffer }
    | .takeBuffer => if s.cur then none else some { s with addPc := .mkNew }
    | .mkNew => some { s with addPc := .drainEnter }
    | .drainEnter =>
      -- `with self._lock:` of drain(), `self._forward = forward`, `messages, self.messages = self.messages, []`
      if s.lockHeld then none
      else some { s with lockHeld := true, forward := true, buf := [], drained := s.buf, addPc := .resendIter s.buf }
    | .resendIter todo =>
      match todo with
      | [] => some { s with addPc := .release }
      | m :: t => some { s with addPc := .resendAtSend m t }
    | .resendAtSend m t => some { s with addPc := .resendNext m (fwdList s) t }
    | .resendNext m rem t =>
      match rem with
      | [] => some { s with addPc := .resendIter t }
      | .real k :: r => some { s with addPc := .resendCall m k r t }
      | .buffer :: _ => none
    | .resendCall m k rem t => some { deliver s k m with addPc := .resendNext m rem t }
    | .release => some { s with lockHeld := false, addPc := .swap }
    | .swap => some { s with cur := true, newList := s.addDests, addPc := .done }
    | .extend => if s.cur then some { s with newList := s.newList ++ s.addDests, addPc := .done } else none
    | .done => none

def sys (n : Nat) : Sys State Tid := ⟨step n⟩
def run (n : Nat) (s : State) (sched : List Tid) : State := (sys n).run s sched

/-- all n loggers and the adder have finished -/
def Finished (n : Nat) (s : State) : Prop :=
  (∀ i, i < n → s.logPending i = [] ∧ s.logPc i = .idle) ∧ s.addPc = .done

end Eliot.Conc.HandoverFix
