import Eliot.Conc.Sched
import Eliot.Conc.HandoverSkel
/-! Model of the hand-over from start-up buffering to real destinations (C12, concurrent clause):
logging threads inside `Destinations.send` versus the thread that performs the *first*
`Destinations.add`, at source-line granularity.  The adder's statement sequence is *interpreted
from the skeleton* (`HandoverSkel.add`, regenerated from the source by extractor E8); the logger is
the `for dest in self._destinations: dest(message)` loop of the pinned `send` skeleton.
This is the model of the code BEFORE the repair (`pinnedSkel`); see `HandoverFix.lean` for the repaired code.

Python facts the model reproduces: `for dest in self._destinations` evaluates the attribute once
and iterates over *that list object*; `add` replaces the attribute by a new list object and extends
the new one, so an iterator obtained earlier still walks the old list `[BufferingDestination]`;
`buffered_messages` is a reference to the buffer's own list, so the re-send loop sees appends that
happen while it is running, but not later ones.  Messages are ids; fewer than 1000 are buffered
(no trimming).  The nested `self.send(message)` of the re-send loop is interleaved line by line
as well.
Mathlib-free, executable. -/
namespace Eliot.Conc.Handover

inductive Tid where
  | logger (i : Nat)
  | adder
deriving DecidableEq, Repr

/-- a destination seen by a logger: the start-up buffer or a real destination -/
inductive Dest where
  | buffer
  | real (d : Nat)
deriving DecidableEq, Repr

inductive LPc where
  | idle
  | entered (m : Nat)                                  -- inside send, before the `for` line
  | iter (m : Nat) (onNew : Bool) (idx : Nat)          -- at the `for` line again (next element)
  | call (m : Nat) (onNew : Bool) (idx : Nat) (d : Dest)   -- at `dest(message)`
deriving DecidableEq, Repr

inductive APc where
  | straight                                     -- executing the statement list
  | resendIter (j : Nat)                         -- at `for message in buffered_messages:` (next index j)
  | resendAtSend (m : Nat) (j : Nat)             -- at `self.send(message)`
  | resendEntered (m : Nat) (j : Nat)            -- inside the nested send, before its `for` line
  | resendNext (m : Nat) (j : Nat) (onNew : Bool) (idx : Nat)             -- nested `for` line again
  | resendCall (m : Nat) (j : Nat) (onNew : Bool) (idx : Nat) (d : Dest)  -- nested `dest(message)`
deriving DecidableEq, Repr

structure State where
  anyAdded : Bool
  /-- which list object `self._destinations` refers to: false = the initial `[buffer]`, true = the new list -/
  cur : Bool
  newList : List Nat
  /-- `BufferingDestination.messages` (one list object; `buffered_messages` aliases it) -/
  buf : List Nat
  delivered : Nat → List Nat
  logPending : Nat → List Nat
  logPc : Nat → LPc
  addOps : List AOp
  addPc : APc
  hasBufRef : Bool
  addDests : List Nat

def init (skel : HandoverSkel) (prebuffered : List Nat) (prog : Nat → List Nat) (dests : List Nat) : State :=
  { anyAdded := false, cur := false, newList := [], buf := prebuffered, delivered := fun _ => [],
    logPending := prog, logPc := fun _ => .idle, addOps := skel.add, addPc := .straight, hasBufRef := false,
    addDests := dests }

def upd {α : Type} (f : Nat → α) (t : Nat) (v : α) : Nat → α := fun x => if x = t then v else f x

/-- the list object an iterator walks -/
def listOf (s : State) (onNew : Bool) : List Dest := if onNew then s.newList.map .real else [.buffer]

def deliver (s : State) (d : Dest) (m : Nat) : State :=
  match d with
  | .buffer => { s with buf := s.buf ++ [m] }
  | .real k => { s with delivered := upd s.delivered k (s.delivered k ++ [m]) }

/-- `next` of a logger's iterator -/
def loggerNext (s : State) (i m : Nat) (onNew : Bool) (idx : Nat) : State :=
  match (listOf s onNew)[idx]? with
  | some d => { s with logPc := upd s.logPc i (.call m onNew (idx + 1) d) }
  | none => { s with logPc := upd s.logPc i .idle }

/-- `next` of the iterator of the adder's nested send -/
def adderNext (s : State) (m j : Nat) (onNew : Bool) (idx : Nat) : State :=
  match (listOf s onNew)[idx]? with
  | some d => { s with addPc := .resendCall m j onNew (idx + 1) d }
  | none => { s with addPc := .resendIter j }

def step (s : State) : Tid → Option State
  | .logger i =>
    match s.logPc i with
    | .idle =>
      match s.logPending i with
      | [] => none
      | m :: r => some { s with logPending := upd s.logPending i r, logPc := upd s.logPc i (.entered m) }
    | .entered m => some (loggerNext s i m s.cur 0)          -- the `for` line: evaluates self._destinations now
    | .iter m onNew idx => some (loggerNext s i m onNew idx)
    | .call m onNew idx d => some { deliver s d m with logPc := upd s.logPc i (.iter m onNew idx) }
  | .adder =>
    match s.addPc with
    | .straight =>
      match s.addOps with
      | [] => none
      | op :: r =>
        match op with
        | .initNone => some { s with hasBufRef := false, addOps := r }
        | .ifFirstAdd n => some { s with addOps := if s.anyAdded then r.drop n else r }
        | .setAnyAdded => some { s with anyAdded := true, addOps := r }
        | .takeBuffer => if s.cur then none else some { s with hasBufRef := true, addOps := r }
        | .swapDests => some { s with cur := true, newList := [], addOps := r }
        | .extendDests => if s.cur then some { s with newList := s.newList ++ s.addDests, addOps := r } else none
        | .ifBufferedResend =>
          if s.hasBufRef && !s.buf.isEmpty then some { s with addPc := .resendIter 0, addOps := r }
          else some { s with addOps := r }
        | _ => none     -- statements of the repaired shape and unknown ones: not this model's business
    | .resendIter j =>
      match s.buf[j]? with
      | some m => some { s with addPc := .resendAtSend m (j + 1) }
      | none => some { s with addPc := .straight }
    | .resendAtSend m j => some { s with addPc := .resendEntered m j }
    | .resendEntered m j => some (adderNext s m j s.cur 0)     -- nested `for` line: evaluates self._destinations now
    | .resendNext m j onNew idx => some (adderNext s m j onNew idx)
    | .resendCall m j onNew idx d => some { deliver s d m with addPc := .resendNext m j onNew idx }

def sys : Sys State Tid := ⟨step⟩
def run (s : State) (sched : List Tid) : State := sys.run s sched

/-- all of the first `n` loggers and the adder have finished -/
def finished (s : State) (n : Nat) : Bool :=
  (List.range n).all (fun i => (s.logPending i).isEmpty && s.logPc i == .idle) && s.addOps.isEmpty && s.addPc == .straight

/-- some message of `msgs` reached some destination of the first `add` not at all -/
def lostB (s : State) (msgs : List Nat) : Bool :=
  msgs.any (fun m => s.addDests.any (fun d => !(s.delivered d).contains m))

end Eliot.Conc.Handover
