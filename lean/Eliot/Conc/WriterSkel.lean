/-! Types of the skeleton that `harness/extractors/e4_threaded_writer.py` regenerates from
eliot/logwriter.py (`Eliot/Generated/Writer.lean`).  Plain data, Mathlib-free. -/
namespace Eliot.Conc.Writer

/-- statements of `startService` / `stopService`, in source order -/
inductive COp where
  | svcStart      -- Service.startService(self)
  | mkThread      -- self._thread = threading.Thread(target=self._reader)
  | startThread   -- self._thread.start()
  | register      -- addDestination(self)
  | svcStop       -- Service.stopService(self)
  | unregister    -- removeDestination(self)
  | putStop       -- self._queue.put(_STOP)
  | deferJoin     -- return deferToThreadPool(reactor, pool, self._thread.join)
  | awaitStop     -- (caller) wait until the returned result has completed
  | unknown
deriving DecidableEq, Repr

/-- statements of the `_reader` loop body, in source order -/
inductive ROp where
  | get            -- msg = self._queue.get()
  | exitIfStop     -- if msg is _STOP: return
  | callSwallow    -- try: self._destination(msg)  except Exception: pass
  | unknown
deriving DecidableEq, Repr

structure WriterSkel where
  queueIsSimpleQueue : Bool     -- __init__: self._queue = SimpleQueue()  (unbounded FIFO, put never blocks)
  start : List COp
  stop : List COp
  readerLoopForever : Bool      -- `while True:` around the loop body, nothing after it
  reader : List ROp
  callIsSinglePut : Bool        -- __call__ is exactly `self._queue.put(data)`
deriving DecidableEq, Repr

/-- the shape the model `Eliot.Conc.Writer` is written for -/
def assumed : WriterSkel :=
  { queueIsSimpleQueue := true,
    start := [.svcStart, .mkThread, .startThread, .register],
    stop := [.svcStop, .unregister, .putStop, .deferJoin],
    readerLoopForever := true,
    reader := [.get, .exitIfStop, .callSwallow],
    callIsSinglePut := true }

end Eliot.Conc.Writer
