/-! Generic interleaving framework (DESIGN.md 2.5): a concurrent system is a partial step function
indexed by thread ids; a schedule is a list of thread ids; a pick of a thread that is blocked or
finished stutters.  "For every interleaving" is `∀ sched`.  Mathlib-free, executable. -/
namespace Eliot.Conc

structure Sys (σ τ : Type) where
  /-- `none`: thread `t` is blocked or has finished -/
  step : σ → τ → Option σ

namespace Sys
variable {σ τ : Type} (S : Sys σ τ)

def run (s : σ) : List τ → σ
  | [] => s
  | t :: ts => match S.step s t with
    | some s' => run s' ts
    | none => run s ts

theorem run_append (s : σ) (a b : List τ) : S.run s (a ++ b) = S.run (S.run s a) b := by
  induction a generalizing s with
  | nil => rfl
  | cons t ts ih =>
    simp only [List.cons_append, run]
    cases S.step s t <;> exact ih _

/-- An invariant preserved by every enabled step holds after every schedule. -/
theorem inv_run (Inv : σ → Prop) (hstep : ∀ s t s', Inv s → S.step s t = some s' → Inv s')
    (s : σ) (h0 : Inv s) (sched : List τ) : Inv (S.run s sched) := by
  induction sched generalizing s with
  | nil => exact h0
  | cons t ts ih =>
    simp only [run]
    cases hs : S.step s t with
    | none => exact ih s h0
    | some s' => exact ih s' (hstep s t s' h0 hs)

/-- Every state met along the schedule (all prefixes), not only the last one. -/
theorem inv_prefixes (Inv : σ → Prop) (hstep : ∀ s t s', Inv s → S.step s t = some s' → Inv s')
    (s : σ) (h0 : Inv s) (sched : List τ) (n : Nat) : Inv (S.run s (sched.take n)) :=
  S.inv_run Inv hstep s h0 _

end Sys
end Eliot.Conc
