/-! Types of the skeleton table that `harness/extractors/e1_memory_logger.py` regenerates from
eliot/_output.py (`Eliot/Generated/MemLog.lean`).  Plain data, Mathlib-free. -/
namespace Eliot.Conc.MemLog

/-- The shared fields of a `MemoryLogger`. `failed` is `_failed_validations`. -/
inductive Fld where
  | messages | serializers | tracebacks | failed
deriving DecidableEq, Repr

/-- One access of a method to a shared field, in source order. -/
inductive Acc where
  | append (f : Fld) (cond : Bool)   -- `self.f.append(x)`; `cond`: under if / except / loop
  | clear (f : Fld)                  -- `self.f = []`
  | filterAssign (f : Fld)           -- `self.f = [x for x in self.f if keep x]` via a local list
  | read (f : Fld)
  | call (name : String)             -- `self.name(...)`
  | unknown                          -- a shape the extractor does not recognise
deriving DecidableEq, Repr

structure MethodSkel where
  locked : Bool
  body : List Acc
deriving DecidableEq, Repr

abbrev Table := List (String × MethodSkel)

end Eliot.Conc.MemLog
