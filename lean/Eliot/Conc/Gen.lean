import Eliot.Generated.GenWrapper
/-! # `Eliot.Conc.Gen` — generators, contexts and `eliot_friendly_generator_function` (C15)

Executable, Mathlib-free.  Three layers:

* **Generator protocol** `proto`: what CPython does around a generator *body* for
  `send / throw / close` in the three states unstarted / suspended / finished.  Generic in the
  state type, used for the inner (user) generator and for the wrapper generator alike.
* **The wrapper** of `/repo/eliot/_generators.py` (`wrapInput`, `wrapAfterGo`, `wrapBodyA`,
  `wrapBodyW`): line-by-line transliteration of the `while True` loop.  The Bool `keepsReturn`
  distinguishes the two shapes of the `except StopIteration` handler: `break` (the wrapper returns
  `None`; the tree as originally pinned) and `return e.value` (repaired); `Gen.keepsReturn` follows
  the shape extracted from the current source.
* **World model**: a table of generators whose bodies are small instruction lists, contexts
  `CtxId ↦ Option ActionId` with ContextVar token semantics, a driver script.  Nested generators:
  body `i` may resume generators `j > i`.
-/
namespace Gen

abbrev Val := Option Nat          -- Python value; `none` is `None`

/-- exception identities -/
inductive Exc where
  | user (n : Nat)        -- an application exception object (identity `n`), an `Exception`
  | base (n : Nat)        -- an exception object that is a BaseException only (KeyboardInterrupt, SystemExit,
                          -- asyncio.CancelledError): not caught by `except <application exception>`
  | genExit               -- GeneratorExit
  | typeErr               -- TypeError: can't send non-None value to a just-started generator
  | ignoredExit           -- RuntimeError: generator ignored GeneratorExit
  | tokenCtx              -- ValueError: <Token> was created in a different Context
  | badGen                -- out of domain: no such generator / child index not above the parent / fuel
deriving DecidableEq, Repr, Inhabited

inductive Inp where
  | send (v : Val) | throw (e : Exc) | close
deriving DecidableEq, Repr, Inhabited

inductive Out where
  | yielded (v : Val) | returned (v : Val) | raised (e : Exc)
deriving DecidableEq, Repr, Inhabited

/-- how a generator *body* is (re)entered -/
inductive BIn where
  | start | val (v : Val) | exc (e : Exc)
deriving DecidableEq, Repr

inductive Status where
  | unstarted | suspended | finished
deriving DecidableEq, Repr, Inhabited

/-- status of a generator object after its body produced `o` -/
def statusAfter : Out → Status
  | .yielded _ => .suspended
  | _ => .finished

/-- CPython's generator object around a body (`gen_send_ex`, `gen_throw`, `gen_close`). -/
def proto {S : Type} (body : BIn → S → Out × S) (st : Status) (inp : Inp) (s : S) : (Status × Out) × S :=
  match st, inp with
  | .unstarted, .send none =>
    match body .start s with
    | (o, s') => ((statusAfter o, o), s')
  | .unstarted, .send (some _) => ((.unstarted, .raised .typeErr), s)
  | .unstarted, .throw e => ((.finished, .raised e), s)
  | .unstarted, .close => ((.finished, .returned none), s)
  | .suspended, .send v =>
    match body (.val v) s with
    | (o, s') => ((statusAfter o, o), s')
  | .suspended, .throw e =>
    match body (.exc e) s with
    | (o, s') => ((statusAfter o, o), s')
  | .suspended, .close =>
    match body (.exc .genExit) s with
    | (.yielded _, s') => ((.suspended, .raised .ignoredExit), s')
    | (.returned _, s') => ((.finished, .returned none), s')
    | (.raised .genExit, s') => ((.finished, .returned none), s')
    | (.raised e, s') => ((.finished, .raised e), s')
  | .finished, .send _ => ((.finished, .returned none), s)
  | .finished, .throw e => ((.finished, .raised e), s)
  | .finished, .close => ((.finished, .returned none), s)

/-! ## The wrapper loop of `eliot_friendly_generator_function`

```
ok = True; value_in = None; gen = original(*a, **kw); context = copy_context()
while True:
    try:
        def go(): (gen.send(value_in) if ok else gen.throw(*value_in))   -- wrapInput
        value_out = context.run(go)
    except StopIteration: break                                          -- wrapAfterGo (returned)
    else:
        try: value_in = yield value_out                                  -- wrapAfterGo (yielded)
        except: ok = False; value_in = exc_info()                        -- BIn.exc e  ↦ throw e
        else: ok = True                                                  -- BIn.val v  ↦ send v
```
Any other exception of `context.run(go)` propagates (wrapAfterGo (raised)). -/

/-- what `go` delivers to the inner generator, from how the wrapper body was (re)entered -/
def wrapInput : BIn → Inp
  | .start => .send none
  | .val v => .send v
  | .exc e => .throw e

/-- what the wrapper body does with the result of `context.run(go)`.
`keepsReturn = false`: `except StopIteration: break` — falls off the end, returns `None`. -/
def wrapAfterGo (keepsReturn : Bool) : Out → Out
  | .returned v => .returned (if keepsReturn then v else none)
  | .raised e => .raised e
  | .yielded v => .yielded v

/-- Does the wrapper of the tree under verification pass the generator's return value on?  Follows the
source: the skeleton extractor (harness/extractors/e15_generator_wrapper.py) reports the body of the
`except StopIteration` handler — `return e.value` (`.returnValue`) or `break` (`.break_`, the wrapper
then returns `None`).  Both shapes are modelled; `.unknown` is treated like `break` and additionally
fails the generated-skeleton obligation in `Properties/C15.lean`. -/
def keepsReturn : Bool := Eliot.Generated.genWrapper.stop == .returnValue

/-! ### Context-free (pure I/O) instance, for the transparency theorems -/

/-- an arbitrary generator body as a state machine -/
structure Body (σ : Type) where
  step : BIn → σ → Out × σ

/-- plain generator object: status × body state -/
def plainResume {σ} (g : Body σ) (inp : Inp) (s : Status × σ) : Out × (Status × σ) :=
  match proto g.step s.1 inp s.2 with
  | ((st, o), s') => (o, (st, s'))

/-- the wrapper's generator body over an inner generator object (contexts erased) -/
def wrapBodyA {σ} (k : Bool) (g : Body σ) (b : BIn) (s : Status × σ) : Out × (Status × σ) :=
  match plainResume g (wrapInput b) s with
  | (r, s') => (wrapAfterGo k r, s')

/-- wrapped generator object: wrapper status × (inner status × body state) -/
def wrapResumeK {σ} (k : Bool) (g : Body σ) (inp : Inp) (s : Status × (Status × σ)) : Out × (Status × (Status × σ)) :=
  match proto (wrapBodyA k g) s.1 inp s.2 with
  | ((st, o), s') => (o, (st, s'))

def runInputs {S} (resume : Inp → S → Out × S) : S → List Inp → List Out
  | _, [] => []
  | s, i :: is => match resume i s with
    | (o, s') => o :: runInputs resume s' is

/-- outputs of the undecorated generator function called once and driven by `inputs` -/
def outputs {σ} (g : Body σ) (s0 : σ) (inputs : List Inp) : List Out :=
  runInputs (plainResume g) (.unstarted, s0) inputs

def wrapOutputsK {σ} (k : Bool) (g : Body σ) (s0 : σ) (inputs : List Inp) : List Out :=
  runInputs (wrapResumeK k g) (.unstarted, (.unstarted, s0)) inputs

/-- the tree under verification -/
def wrapOutputs {σ} (g : Body σ) (s0 : σ) (inputs : List Inp) : List Out := wrapOutputsK keepsReturn g s0 inputs
/-- the repaired wrapper (`except StopIteration as e: return e.value`) -/
def wrapFixedOutputs {σ} (g : Body σ) (s0 : σ) (inputs : List Inp) : List Out := wrapOutputsK true g s0 inputs

/-! ## World model -/

/-! Action identities and Context identities are plain `Nat`s (an `abbrev` gets in the way of `omega`). -/

/-- body instructions (flat; `try … catch … endcatch` brackets) -/
inductive Instr where
  | enter (a : Nat)      -- a = start_action(...); a.__enter__()
  | exit                      -- innermost own action .__exit__(None, None, None); no-op if none
  | log (m : Nat)             -- observe current_action()
  | yield (v : Val)           -- last = yield v
  | yieldLast                 -- last = yield last
  | ret (v : Val)             -- return v
  | raise (e : Exc)           -- raise E[e]  (also GeneratorExit and BaseException-only objects)
  | try_
  | catch_ (all : Bool)       -- `except Thrown` / bare `except` (also GeneratorExit, runtime errors)
  | endcatch
  | resume (j : Nat) (inp : Inp)   -- drive another generator from inside the body
  -- `wenter` / `wexit` place the `__enter__` / `__exit__` calls where a `with` statement places them for falling out of the block
  -- and for an exception leaving it; a `ret` or a stray `exit` inside the block behaves as with manual calls (the body interpreter
  -- of the harness, `harness/props/C15.py: body`, has exactly this semantics - it is what "arbitrary generator body" means here)
  | wenter (a : Nat)          -- `with start_action(...) as a:` - the start of the block
  | wexit                     -- the end of that block: `a.__exit__(None, None, None)` when control falls out of it,
                              -- `a.__exit__(type(e), e, tb)` when an exception (GeneratorExit of `close()` too) leaves it
deriving DecidableEq, Repr, Inhabited

structure Tok where
  ctx : Nat
  old : Option Nat
deriving DecidableEq, Repr

structure Obs where
  gen : Nat
  tag : Nat
  seen : Option Nat        -- current_action() at the `log`
  expected : Option Nat    -- ghost: innermost own action, else the action current at first resumption
deriving DecidableEq, Repr

/-- ghost record of a resumption made from inside a body -/
structure NRec where
  by_ : Nat
  gen : Nat
  before : Option Nat      -- the resuming body's current_action() before …
  after : Option Nat       -- … and after the resumption
deriving DecidableEq, Repr

structure GSt where
  wrapped : Bool
  code : List Instr                      -- rest of the body
  ist : Status := .unstarted             -- inner generator object
  wst : Status := .unstarted             -- wrapper generator object
  wctx : Option Nat := none            -- the wrapper's `context`
  toks : List Tok := []                  -- `_parent_token`s of the own entered actions, innermost first
  last : Val := none
  base : Option Nat := none         -- ghost: action current when the body first ran
  own : List Nat := []              -- ghost: own entered actions, innermost first
deriving Repr

structure World where
  ctxs : Nat → Option Nat         -- value of _ACTION_CONTEXT in each Context (unset = None)
  nctx : Nat                           -- next fresh Context id
  cur : Nat                            -- the Context the thread is running in
  gens : Nat → Option GSt
  obs : List Obs                         -- newest first
  dtoks : List Tok                       -- driver's tokens (its `with action.context()` blocks)
  pending : Option Nat := none      -- ghost: current action of whoever issued the latest resumption
  nrecs : List NRec := []                -- ghost: resumptions from inside bodies, newest first

def World.curAction (w : World) : Option Nat := w.ctxs w.cur

def World.setCtx (w : World) (c : Nat) (v : Option Nat) : World :=
  { w with ctxs := fun x => if x = c then v else w.ctxs x }

def World.setGen (w : World) (i : Nat) (g : GSt) : World :=
  { w with gens := fun x => if x = i then some g else w.gens x }

def expectedOf (g : GSt) : Option Nat :=
  match g.own with
  | a :: _ => some a
  | [] => g.base

inductive Mode where
  | normal
  | prop (e : Exc) (d : Nat)    -- exception `e` is propagating; `d` = brackets opened while skipping
  | skip (d : Nat)              -- try body finished normally: skipping its handler
deriving DecidableEq, Repr

def catches (all : Bool) : Exc → Bool
  | .user _ => true
  | _ => all

/-- Run body `i` (state `g`) until it yields, returns or raises.  `child j inp w` resumes another
generator.  Structural on the code. -/
def runCode (child : Nat → Inp → World → Out × World) (i : Nat) :
    List Instr → Mode → GSt → World → Out × World
  | [], .normal, g, w => (.returned none, w.setGen i { g with code := [] })
  | [], .skip _, g, w => (.returned none, w.setGen i { g with code := [] })
  | [], .prop e _, g, w => (.raised e, w.setGen i { g with code := [] })
  | ins :: rest, .normal, g, w =>
    match ins with
    | .enter a =>
      runCode child i rest .normal
        { g with toks := ⟨w.cur, w.ctxs w.cur⟩ :: g.toks, own := a :: g.own } (w.setCtx w.cur (some a))
    | .exit =>
      match g.toks with
      | [] => runCode child i rest .normal g w
      | t :: ts =>
        if t.ctx = w.cur then
          runCode child i rest .normal { g with toks := ts, own := g.own.tail } (w.setCtx w.cur t.old)
        else
          runCode child i rest (.prop .tokenCtx 0) { g with toks := ts, own := g.own.tail } w
    | .wenter a =>
      runCode child i rest .normal
        { g with toks := ⟨w.cur, w.ctxs w.cur⟩ :: g.toks, own := a :: g.own } (w.setCtx w.cur (some a))
    | .wexit =>
      match g.toks with
      | [] => runCode child i rest .normal g w
      | t :: ts =>
        if t.ctx = w.cur then
          runCode child i rest .normal { g with toks := ts, own := g.own.tail } (w.setCtx w.cur t.old)
        else
          runCode child i rest (.prop .tokenCtx 0) { g with toks := ts, own := g.own.tail } w
    | .log m =>
      runCode child i rest .normal g { w with obs := ⟨i, m, w.ctxs w.cur, expectedOf g⟩ :: w.obs }
    | .yield v => (.yielded v, w.setGen i { g with code := rest })
    | .yieldLast => (.yielded g.last, w.setGen i { g with code := rest })
    | .ret v => (.returned v, w.setGen i { g with code := [] })
    | .raise e => runCode child i rest (.prop e 0) g w
    | .try_ => runCode child i rest .normal g w
    | .catch_ _ => runCode child i rest (.skip 0) g w
    | .endcatch => runCode child i rest .normal g w
    | .resume j inp =>
      -- the body's own state must be visible to nobody else meanwhile; children have j > i
      match child j inp { w with pending := w.ctxs w.cur } with
      | (.yielded v, w') =>
        runCode child i rest .normal { g with last := v } { w' with nrecs := ⟨i, j, w.ctxs w.cur, w'.ctxs w'.cur⟩ :: w'.nrecs }
      | (.returned v, w') =>
        runCode child i rest .normal { g with last := v } { w' with nrecs := ⟨i, j, w.ctxs w.cur, w'.ctxs w'.cur⟩ :: w'.nrecs }
      | (.raised e, w') =>
        runCode child i rest (.prop e 0) g { w' with nrecs := ⟨i, j, w.ctxs w.cur, w'.ctxs w'.cur⟩ :: w'.nrecs }
  | ins :: rest, .prop e d, g, w =>
    match ins with
    | .try_ => runCode child i rest (.prop e (d + 1)) g w
    | .catch_ all =>
      if d = 0 then
        (if catches all e then runCode child i rest .normal g w else runCode child i rest (.prop e 0) g w)
      else runCode child i rest (.prop e d) g w
    | .endcatch => runCode child i rest (.prop e (d - 1)) g w
    -- a `with` block that starts after the point where the exception arose is skipped like a `try` block ...
    | .wenter _ => runCode child i rest (.prop e (d + 1)) g w
    -- ... and one that was entered is left through `__exit__(type(e), e, tb)`: the context is put back (a token of another
    -- Context makes `reset` raise, which replaces `e`), `__exit__` returns `None`, the exception goes on
    | .wexit =>
      if d = 0 then
        match g.toks with
        | [] => runCode child i rest (.prop e 0) g w
        | t :: ts =>
          if t.ctx = w.cur then
            runCode child i rest (.prop e 0) { g with toks := ts, own := g.own.tail } (w.setCtx w.cur t.old)
          else
            runCode child i rest (.prop .tokenCtx 0) { g with toks := ts, own := g.own.tail } w
      else runCode child i rest (.prop e (d - 1)) g w
    | _ => runCode child i rest (.prop e d) g w
  | ins :: rest, .skip d, g, w =>
    match ins with
    | .try_ => runCode child i rest (.skip (d + 1)) g w
    | .endcatch => if d = 0 then runCode child i rest .normal g w else runCode child i rest (.skip (d - 1)) g w
    | _ => runCode child i rest (.skip d) g w

/-- the inner generator's body: continue the stored code -/
def innerBody (child : Nat → Inp → World → Out × World) (i : Nat) (b : BIn) (w : World) : Out × World :=
  match w.gens i with
  | none => (.raised .badGen, w)
  | some g =>
    match b with
    | .start =>
      -- ghost observation (tag 0): the context the body starts in vs. the resumer's current action
      runCode child i g.code .normal { g with base := w.ctxs w.cur }
        { w with obs := ⟨i, 0, w.ctxs w.cur, w.pending⟩ :: w.obs }
    | .val v => runCode child i g.code .normal { g with last := v } w
    | .exc e => runCode child i g.code (.prop e 0) g w

/-- resume the inner generator object `i` (status kept in the table) -/
def innerResume (child : Nat → Inp → World → Out × World) (i : Nat) (inp : Inp) (w : World) : Out × World :=
  match w.gens i with
  | none => (.raised .badGen, w)
  | some g =>
    match proto (innerBody child i) g.ist inp w with
    | ((st, o), w') =>
      match w'.gens i with
      | none => (.raised .badGen, w')
      | some g' => (o, w'.setGen i { g' with ist := st })

/-- `context.run(f)` -/
def runIn (c : Nat) (f : World → Out × World) (w : World) : Out × World :=
  match f { w with cur := c } with
  | (o, w') => (o, { w' with cur := w.cur })

/-- the wrapper's generator body in the world: `copy_context()` once, then every `go` inside it -/
def wrapBodyW (k : Bool) (child : Nat → Inp → World → Out × World) (i : Nat) (b : BIn) (w : World) : Out × World :=
  match w.gens i with
  | none => (.raised .badGen, w)
  | some g =>
    match b, g.wctx with
    | .start, _ =>
      -- context = copy_context()
      let c := w.nctx
      let w1 : World := { (w.setCtx c (w.ctxs w.cur)) with nctx := w.nctx + 1 }
      let w2 := w1.setGen i { g with wctx := some c }
      match runIn c (innerResume child i (wrapInput .start)) w2 with
      | (r, w') => (wrapAfterGo k r, w')
    | b, some c =>
      match runIn c (innerResume child i (wrapInput b)) w with
      | (r, w') => (wrapAfterGo k r, w')
    | _, none => (.raised .badGen, w)

/-- resume generator `i` (wrapped or plain).  `fuel` bounds the nesting depth of resumptions. -/
def resumeGen (k : Bool) : Nat → Nat → Inp → World → Out × World
  | 0, _, _, w => (.raised .badGen, w)
  | fuel + 1, i, inp, w =>
    let child : Nat → Inp → World → Out × World :=
      fun j inp' w' => if i < j then resumeGen k fuel j inp' w' else (.raised .badGen, w')
    match w.gens i with
    | none => (.raised .badGen, w)
    | some g =>
      if g.wrapped then
        match proto (wrapBodyW k child i) g.wst inp w with
        | ((st, o), w') =>
          match w'.gens i with
          | none => (.raised .badGen, w')
          | some g' => (o, w'.setGen i { g' with wst := st })
      else innerResume child i inp w

/-! ## Driver scripts -/

inductive DStep where
  | enter (a : Nat)            -- cm = A[a].context(); cm.__enter__()
  | exit                            -- innermost cm.__exit__(None, None, None); no-op if none
  | resume (i : Nat) (inp : Inp)
  | resumeIn (fresh : Bool) (i : Nat) (inp : Inp)
      -- the resumption is made from ANOTHER contextvars.Context than the driver's own:
      -- `copy_context().run(g.send, v)` (fresh = false), or `Context().run(...)` / another thread (fresh = true)
deriving DecidableEq, Repr, Inhabited

structure StepRec where
  out : Option Out                  -- result of a resume step
  before : Option Nat          -- driver's current_action() before the step
  after : Option Nat           -- … and after it
deriving DecidableEq, Repr

def dstep (k : Bool) (fuel : Nat) (s : DStep) (w : World) : Option Out × World :=
  match s with
  | .enter a => (none, { (w.setCtx w.cur (some a)) with dtoks := ⟨w.cur, w.ctxs w.cur⟩ :: w.dtoks })
  | .exit =>
    match w.dtoks with
    | [] => (none, w)
    | t :: ts => (none, { (w.setCtx w.cur t.old) with dtoks := ts })
  | .resume i inp =>
    match resumeGen k fuel i inp { w with pending := w.ctxs w.cur } with
    | (o, w') => (some o, w')
  | .resumeIn fresh i inp =>
    -- a new Context (a copy of the driver's, or an empty one), current for the duration of the resumption
    match resumeGen k fuel i inp
        { (w.setCtx w.nctx (if fresh then none else w.ctxs w.cur)) with
          nctx := w.nctx + 1, cur := w.nctx, pending := (if fresh then none else w.ctxs w.cur) } with
    | (o, w') => (some o, { w' with cur := w.cur })

def runScript (k : Bool) (fuel : Nat) : List DStep → World → List StepRec × World
  | [], w => ([], w)
  | s :: ss, w =>
    match dstep k fuel s w with
    | (o, w') =>
      match runScript k fuel ss w' with
      | (rs, w'') => (⟨o, w.curAction, w'.curAction⟩ :: rs, w'')

/-- initial world: one Context (the thread's, id 0) with no action, the given generator bodies -/
def initWorld (defs : List (Bool × List Instr)) : World :=
  { ctxs := fun _ => none, nctx := 1, cur := 0,
    gens := fun i => (defs[i]?).map fun d => { wrapped := d.1, code := d.2 },
    obs := [], dtoks := [] }

end Gen
