/-! # `Eliot.Conc.Ctx` — action context of concurrent threads and asyncio tasks (C05)

Executable, Mathlib-free.  Every *unit* (thread or asyncio task) has its own execution context
holding the value of `_ACTION_CONTEXT` (`Option` occurrence id of the current action):
`spawnThread` starts a unit with an empty context (`None`), `spawnTask` with a copy of the creator's.
A unit runs a straight-line program; one statement = one scheduled primitive step (threads: a
logging call; coroutines: the code between two await points).  A schedule is a list of unit ids;
picks of disabled units (not started, finished, blocked in `join`) stutter.

Statements carry occurrence ids, so "the same message / action" is meaningful across schedules.
The log records, for every emitted message, its unit, occurrence, kind and *parent occurrence*
(the action it is attributed to; for an action-start record: the parent action of the new action;
the end message of action `o` is a child of `o` itself).

Action objects are shared: a unit may run a block in the context of an action created by another unit
(`ctxOf`, `withOf`).  What such a block restores when it ends is kept in the *unit's* token stack —
nothing is kept on the Action. -/
namespace Ctx

inductive Stmt where
  | enter (o : Nat)          -- a = start_action(...); a.__enter__()     (logs the start message)
  | exit                     -- leave the innermost block of this unit: `.__exit__()` of an action entered with
                             -- `enter`/`withOf` (logs its end message), or end of a `with a.context():` block
  | create (o : Nat)         -- a = start_action(...) without entering it (logs the start message); the Action
                             -- object becomes available to every unit under the handle `o`
  | withOf (h : Nat)         -- `with action_h:` on an action created (by any unit); waits until `h` has been created;
                             -- disabled (out of domain) while `h` is inside a `with` block of any unit, or finished
  | ctxOf (h : Nat)          -- `with action_h.context():` on an action created by any unit; blocks until created
  | log (o : Nat)            -- log_message(...)
  | remote (o : Nat)         -- first statement of a thread whose function went through `preserve_context`: the call of
                             -- the wrapper, `with Action.continue_task(task_id)`: a child action `o` of the action that
                             -- was current where the wrapper was made (logs its start message).  Closed by `exit`; what
                             -- `exit` restores is the thread's own (empty) context, so the statement is only meaningful
                             -- as the first one of a unit started with the creator's action (`spawnTask`).
  | spawnThread (v : Nat)    -- threading.Thread(target=unit v).start()
  | spawnTask (v : Nat)      -- asyncio.ensure_future(unit v); also: Thread(target=preserve_context(unit v)).start() — the
                             -- action current HERE is what unit v's `remote` statement continues
  | join (v : Nat)           -- thread.join() / await task
deriving DecidableEq, Repr, Inhabited

inductive Kind where
  | msg | start | end_
deriving DecidableEq, Repr

structure Rec where
  unit : Nat
  occ : Nat
  kind : Kind
  parent : Option Nat
deriving DecidableEq, Repr

/-- occurrence key of a record: which statement emitted it -/
def Rec.key (r : Rec) : Nat × Kind := (r.occ, r.kind)

structure Prog where
  codes : List (List Stmt)       -- unit u runs `codes[u]`; unit 0 is the main thread
deriving Repr

def Prog.n (p : Prog) : Nat := p.codes.length
def Prog.code (p : Prog) (u : Nat) : List Stmt := (p.codes[u]?).getD []

structure UState where
  started : Bool := false
  code : List Stmt := []                 -- rest of the unit's program
  ctx : Option Nat := none               -- _ACTION_CONTEXT in this unit's context
  toks : List (Nat × Option Nat × Bool) := []   -- open blocks of this unit, innermost first: action, reset token
                                         -- (old value), and whether leaving the block finishes the action
deriving DecidableEq, Repr

structure State where
  units : Nat → UState
  log : List Rec                         -- newest first

def State.setUnit (s : State) (u : Nat) (x : UState) : State :=
  { s with units := fun w => if w = u then x else s.units w }

def State.emit (s : State) (r : Rec) : State := { s with log := r :: s.log }

def UState.done (x : UState) : Bool := x.started && x.code.isEmpty

/-- has the action with handle `h` been created (its start message logged)? -/
def created (log : List Rec) (h : Nat) : Bool := log.any (fun r => r.occ == h && r.kind == .start)

/-- has the action `h` been finished (its end message logged)? -/
def finished (log : List Rec) (h : Nat) : Bool := log.any (fun r => r.occ == h && r.kind == .end_)

/-- is the action `h` entered right now (`enter` / `withOf` block not yet left) by some unit?  eliot keeps the
reset token of `with action:` ON the Action object (`_parent_token`), so an Action can be inside at most one
such block at a time; `with a.context():` blocks keep their token in a local variable and are unrestricted. -/
def entered (p : Prog) (s : State) (h : Nat) : Bool :=
  (List.range p.n).any (fun w => (s.units w).toks.any (fun t => t.1 == h && t.2.2))

/-- One primitive step of unit `u`; `none` = disabled (not started, finished, blocked in `join` or waiting
for an action handle, or out of domain: spawning a unit that is not a fresh, higher-numbered unit of the program). -/
def step (p : Prog) (s : State) (u : Nat) : Option State :=
  let x := s.units u
  if x.started = false then none else
  match x.code with
  | [] => none
  | .enter o :: r =>
    some ((s.emit ⟨u, o, .start, x.ctx⟩).setUnit u { x with code := r, ctx := some o, toks := (o, x.ctx, true) :: x.toks })
  | .exit :: r =>
    match x.toks with
    | [] => some (s.setUnit u { x with code := r })
    | (o, old, true) :: ts => some ((s.emit ⟨u, o, .end_, some o⟩).setUnit u { x with code := r, ctx := old, toks := ts })
    | (_, old, false) :: ts => some (s.setUnit u { x with code := r, ctx := old, toks := ts })
  | .create o :: r => some ((s.emit ⟨u, o, .start, x.ctx⟩).setUnit u { x with code := r })
  | .remote o :: r =>
    match x.ctx with
    | some a => some ((s.emit ⟨u, o, .start, some a⟩).setUnit u { x with code := r, ctx := some o, toks := (o, none, true) :: x.toks })
    | none => none     -- out of domain: with no action current where the wrapper was made, preserve_context returns the
                       -- function itself and the thread is a plain `spawnThread` unit without a `remote` statement
  | .withOf h :: r =>
    if created s.log h && !(entered p s h) && !(finished s.log h) then some (s.setUnit u { x with code := r, ctx := some h, toks := (h, x.ctx, true) :: x.toks }) else none
  | .ctxOf h :: r =>
    if created s.log h then some (s.setUnit u { x with code := r, ctx := some h, toks := (h, x.ctx, false) :: x.toks }) else none
  | .log o :: r => some ((s.emit ⟨u, o, .msg, x.ctx⟩).setUnit u { x with code := r })
  | .spawnThread v :: r =>
    if u < v ∧ v < p.n ∧ (s.units v).started = false then
      some ((s.setUnit u { x with code := r }).setUnit v { started := true, code := p.code v, ctx := none, toks := [] })
    else none
  | .spawnTask v :: r =>
    if u < v ∧ v < p.n ∧ (s.units v).started = false then
      some ((s.setUnit u { x with code := r }).setUnit v { started := true, code := p.code v, ctx := x.ctx, toks := [] })
    else none
  | .join v :: r =>
    if (s.units v).done then some (s.setUnit u { x with code := r }) else none

def init (p : Prog) : State :=
  { units := fun u => if u = 0 then { started := decide (0 < p.n), code := p.code 0 } else {}, log := [] }

def stepD (p : Prog) (s : State) (u : Nat) : State := (step p s u).getD s

/-- run a schedule; disabled picks stutter -/
def run (p : Prog) (sched : List Nat) : State := sched.foldl (stepD p) (init p)

/-- every started unit has finished -/
def AllDone (s : State) : Prop := ∀ u, (s.units u).started = true → (s.units u).code = []

def MainDone (s : State) : Prop := (s.units 0).code = []

/-- the parent occurrence recorded for occurrence key `k`, if `k` was emitted -/
def parentOcc (log : List Rec) (k : Nat × Kind) : Option (Option Nat) :=
  (log.find? (fun r => r.key = k)).map (·.parent)

/-! ## Sequential reference: the records of the depth-first run (a spawned unit runs to its end at
the point where it is spawned). -/

def denCode (p : Prog) (u : Nat) (ctx : Option Nat) (toks : List (Nat × Option Nat × Bool)) (code : List Stmt) : List Rec :=
  match code with
  | [] => []
  | .enter o :: r => ⟨u, o, .start, ctx⟩ :: denCode p u (some o) ((o, ctx, true) :: toks) r
  | .exit :: r =>
    match toks with
    | [] => denCode p u ctx [] r
    | (o, old, true) :: ts => ⟨u, o, .end_, some o⟩ :: denCode p u old ts r
    | (_, old, false) :: ts => denCode p u old ts r
  | .create o :: r => ⟨u, o, .start, ctx⟩ :: denCode p u ctx toks r
  | .remote o :: r =>
    match ctx with
    | some a => ⟨u, o, .start, some a⟩ :: denCode p u (some o) ((o, none, true) :: toks) r
    | none => denCode p u none ((o, none, false) :: toks) r
  | .withOf h :: r => denCode p u (some h) ((h, ctx, true) :: toks) r
  | .ctxOf h :: r => denCode p u (some h) ((h, ctx, false) :: toks) r
  | .log o :: r => ⟨u, o, .msg, ctx⟩ :: denCode p u ctx toks r
  | .spawnThread v :: r =>
    (if _h : u < v ∧ v < p.n then denCode p v none [] (p.code v) else []) ++ denCode p u ctx toks r
  | .spawnTask v :: r =>
    (if _h : u < v ∧ v < p.n then denCode p v ctx [] (p.code v) else []) ++ denCode p u ctx toks r
  | .join _ :: r => denCode p u ctx toks r
termination_by (p.n - u, code.length)
decreasing_by
  all_goals simp_wf
  all_goals first
    | (apply Prod.Lex.right; simp)
    | (apply Prod.Lex.left; omega)

/-- the occurrence keys a unit's own statements emit, in program order (what the units it spawns emit is not
included); `blocks` = the unit's open blocks, innermost first: action and whether leaving the block finishes it -/
def ownKeys : List (Nat × Bool) → List Stmt → List (Nat × Kind)
  | _, [] => []
  | bs, .enter o :: r => (o, .start) :: ownKeys ((o, true) :: bs) r
  | [], .exit :: r => ownKeys [] r
  | (o, true) :: bs, .exit :: r => (o, .end_) :: ownKeys bs r
  | (_, false) :: bs, .exit :: r => ownKeys bs r
  | bs, .log o :: r => (o, .msg) :: ownKeys bs r
  | bs, .create o :: r => (o, .start) :: ownKeys bs r
  | bs, .remote o :: r => (o, .start) :: ownKeys ((o, true) :: bs) r
  | bs, .withOf h :: r => ownKeys ((h, true) :: bs) r
  | bs, .ctxOf h :: r => ownKeys ((h, false) :: bs) r
  | bs, .spawnThread _ :: r => ownKeys bs r
  | bs, .spawnTask _ :: r => ownKeys bs r
  | bs, .join _ :: r => ownKeys bs r

/-- the keys unit `u` has logged so far, oldest first -/
def unitKeys (log : List Rec) (u : Nat) : List (Nat × Kind) :=
  ((log.reverse).filter (fun r => r.unit == u)).map Rec.key

/-- the records unit `u` has logged so far, oldest first -/
def unitLog (log : List Rec) (u : Nat) : List Rec := (log.reverse).filter (fun r => r.unit == u)

/-- records of the sequential reference run of the whole program -/
def seqLog (p : Prog) : List Rec := denCode p 0 none [] (p.code 0)

/-- occurrence ids are unique: the reference run emits every (occurrence, kind) at most once -/
def OccUnique (p : Prog) : Prop := ((seqLog p).map Rec.key).Nodup

/-! ## Structured ("fork–join") programs -/

/-- `pend` = units spawned and not yet joined, each with the number of *finishing* blocks (`enter`, `withOf`,
`remote`: their `exit` ends the action) open where it was spawned; `stk` = the open blocks, innermost first,
`true` for a finishing one.  Leaving a `with a.context():` block (`ctxOf`) ends no action, so a unit spawned
inside it may be joined after it. -/
def joinedB : List (Nat × Nat) → List Bool → List Stmt → Bool
  | pend, _, [] => pend.isEmpty
  | pend, stk, .enter _ :: r => joinedB pend (true :: stk) r
  | pend, stk, .withOf _ :: r => joinedB pend (true :: stk) r
  | pend, stk, .ctxOf _ :: r => joinedB pend (false :: stk) r
  | pend, stk, .remote _ :: r => joinedB pend (true :: stk) r
  | pend, stk, .create _ :: r => joinedB pend stk r
  | pend, [], .exit :: r => joinedB pend [] r
  | pend, true :: stk, .exit :: r => pend.all (fun e => e.2 < (true :: stk).count true) && joinedB pend stk r
  | pend, false :: stk, .exit :: r => joinedB pend stk r
  | pend, stk, .log _ :: r => joinedB pend stk r
  | pend, stk, .spawnThread v :: r => joinedB ((v, stk.count true) :: pend) stk r
  | pend, stk, .spawnTask v :: r => joinedB ((v, stk.count true) :: pend) stk r
  | pend, stk, .join v :: r => joinedB (pend.filter (fun e => e.1 != v)) stk r

/-- every spawned unit is joined by its spawner before the enclosing action (and the spawner) ends -/
def Joined (p : Prog) : Prop := ∀ code ∈ p.codes, joinedB [] [] code = true

end Ctx
