#!/usr/bin/env python3
"""tools_seeded_table.py <round>: prints the DESIGN.md table rows for the seeded changes of one round from seeded/*/meta.json."""
import glob, json, sys
r = int(sys.argv[1])
print("| id | what it breaks (author's words, shortened) | checks run → result |\n|---|---|---|")
for f in sorted(glob.glob("/verif/seeded/*/meta.json")):
    m = json.load(open(f))
    if m.get("round", 1) != r:
        continue
    own = m["property"]
    runs = sorted(m.get("checks_run", {}).items(), key=lambda kv: (kv[0] != own, kv[0]))
    print("| %s | %s | %s |" % (m["id"], m["breaks"].lstrip("# ").strip()[:170].replace("|", "/"), "; ".join("%s: %s" % kv for kv in runs)))
