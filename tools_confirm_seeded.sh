#!/bin/sh
# tools_confirm_seeded.sh <PROP> <k> <round> <outdir>: confirm one change written by a sub-agent (<outdir>/patch<k>.diff, demo<k>.py,
# notes<k>.md) in a fresh scratch worktree of /repo HEAD: the demonstration exits 0 before and non-zero after the change, the existing
# suite gives the baseline result with the change. On success the change is kept as seeded/<PROP>-r<round>-<k>/ (patch.diff, demo.py,
# notes.md, meta.json without check results; tools_try_mutant.sh fills those in). The worktree is removed in every case.
p=$1; k=$2; r=$3; out=$4
id="$p-r$r-$k"
[ -f "$out/patch$k.diff" ] && [ -f "$out/demo$k.py" ] || { echo "$id: nothing delivered"; exit 2; }
wt=$(mktemp -d /tmp/confirm.XXXXXX); rmdir "$wt"
git -C /repo worktree add --detach "$wt" HEAD >/dev/null 2>&1 || { echo "$id: no worktree"; exit 2; }
cleanup() { git -C /repo worktree remove --force "$wt" >/dev/null 2>&1; rm -rf "$wt"; }
cp "$out/demo$k.py" "$wt/demo_seeded.py"
(cd "$wt" && PYTHONPATH="$wt" timeout 300 /venv/bin/python demo_seeded.py >/dev/null 2>&1); before=$?
(cd "$wt" && git apply "$out/patch$k.diff") || { echo "$id: patch does not apply"; cleanup; exit 2; }
(cd "$wt" && PYTHONPATH="$wt" timeout 300 /venv/bin/python demo_seeded.py >/dev/null 2>&1); after=$?
if [ "$before" != 0 ] || [ "$after" = 0 ]; then echo "$id: demo_before_exit=$before demo_after_exit=$after NOT CONFIRMED"; cleanup; exit 1; fi
suite=$(cd "$wt" && rm -f demo_seeded.py && PYTHONPATH="$wt" /venv/bin/python -m pytest -q -p no:cacheprovider --timeout=900 --continue-on-collection-errors 2>&1 | tail -1)
case "$suite" in *"19 failed, 404 passed"*) ok=1;; *) ok=0;; esac
base=$(git -C /repo rev-parse --short HEAD)
cleanup
if [ "$ok" != 1 ]; then echo "$id: suite changed: $suite NOT CONFIRMED"; exit 1; fi
d=/verif/seeded/$id; mkdir -p "$d"
cp "$out/patch$k.diff" "$d/patch.diff"; cp "$out/demo$k.py" "$d/demo.py"; cp "$out/notes$k.md" "$d/notes.md" 2>/dev/null
python3 - "$id" "$p" "$r" "$before" "$after" "$suite" "$base" <<'EOF'
import json,sys
id_,p,r,b,a,suite,base=sys.argv[1:]
notes=open(f'/verif/seeded/{id_}/notes.md').read() if __import__('os').path.exists(f'/verif/seeded/{id_}/notes.md') else ''
json.dump({"id":id_,"property":p,"round":int(r),"breaks":(notes.split('\n')[0] if notes else ''),
 "needs_to_manifest":"see notes.md",
 "author":"independent sub-agent given only the property text, the titles of the ideas used in earlier rounds, and a scratch worktree of eliot",
 "confirmed_by_lead":{"how":"scratch worktree of /repo HEAD: demo.py before/after the patch, full existing test suite with the patch (tools_confirm_seeded.sh)",
   "result":f"apply=ok demo_before_exit={b} demo_after_exit={a} suite: {suite.strip('= ')}"},
 "checks_run":{}, "base_commit":base}, open(f'/verif/seeded/{id_}/meta.json','w'), indent=1, ensure_ascii=False)
EOF
echo "$id: CONFIRMED ($suite)"
