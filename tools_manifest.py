#!/usr/bin/env python3
"""Regenerates MANIFEST.json from the table below (keeps it valid at all times)."""
import json, sys
from pathlib import Path
HERE = Path(__file__).resolve().parent
props = [json.loads(l) for l in (HERE / "properties.jsonl").read_text().splitlines() if l.strip()]
CLAIMED = json.loads((HERE / "claims.json").read_text())
checks, na = [], []
for p in props:
    pid = p["id"]
    c = CLAIMED.get(pid)
    if c is None or c.get("not_applicable"):
        na.append(dict(property_id=pid, reason=(c or {}).get("reason", "check not built yet in this round; planned in DESIGN.md section 3")))
        continue
    checks.append(dict(
        property_id=pid,
        quick_cmd="bin/check %s --tier quick" % pid,
        thorough_cmd="bin/check %s --tier thorough" % pid,
        evidence_file="evidence/%s.json" % pid,
        replay_cmd_template="bin/check %s --replay {path}" % pid,
        engine="lean4-proof+correspondence",
        level_claimed=dict(category="proof", text=c["text"], design_ref=c.get("design_ref", "DESIGN.md section 3, " + pid)),
        level_note=c["note"],
        technique=c["technique"],
    ))
m = dict(
    version=1,
    setup_cmd="cd lean && lake build 2>&1 | tail -5",
    hooks=dict(guard="ELIOT_VERIF", enable="no source hook is needed: checks import /repo's eliot in-process with PYTHONPATH=/repo and instrument it from outside (sys.settrace, patched clock, wrapped file objects)",
               baseline_off_cmd="cd /repo && /venv/bin/python -m pytest -q -p no:cacheprovider --timeout=900 --continue-on-collection-errors",
               source_commits=[], add_only=True),
    engines=[dict(name="lean4-proof+correspondence", path="bin/check", serves_properties=[c["property_id"] for c in checks],
                  kind_free_text="Lean 4 theorems over hand-written executable models (lean/Eliot), tied to /repo on every run by a differential correspondence harness (harness/props) and an AST skeleton extractor (harness/extract.py)")],
    checks=checks,
    notes="See DESIGN.md. Exit 2 from a check is an infrastructure error, never a verdict.",
    not_applicable=na,
)
(HERE / "MANIFEST.json").write_text(json.dumps(m, indent=1) + "\n")
print("claimed", [c["property_id"] for c in checks], "not claimed", len(na))
