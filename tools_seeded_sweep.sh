#!/bin/sh
# tools_seeded_sweep.sh [ids...]: re-run, for every seeded change under seeded/, the quick checks that are recorded as catching it
# (meta.json: checks_run), each against a private scratch copy of /repo with the change applied (see tools_try_mutant.sh), 6 at a time.
# Prints one line per (change, check); anything other than a VIOLATION line is a regression of the machinery.
cd /verif
ids="$*"
[ -n "$ids" ] || ids=$(ls seeded)
for id in $ids; do
  checks=$(python3 -c "
import json,sys
m=json.load(open('seeded/$id/meta.json'))
print(' '.join(k for k,v in m['checks_run'].items() if v.startswith('caught with a failing input')))")
  for c in $checks; do echo "$id $c"; done
done | xargs -P ${SWEEP_P:-6} -L 1 sh -c 'out=$(NOLEAN=1 ./tools_try_mutant.sh seeded/$0/patch.diff $1 | cut -c1-150); case "$out" in *no-failing-input-found*) v=NOINPUT;; *VIOLATION*) v=CAUGHT;; *) v=MISSED;; esac; echo "$v $0 $out"'
